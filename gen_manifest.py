#!/usr/bin/env python3
"""Regenerates MANIFEST.json from checks.json (one entry per claimed property) so the manifest stays valid."""
import json, os
here = os.path.dirname(os.path.abspath(__file__))
checks = json.load(open(os.path.join(here, "checks.json")))
props = [json.loads(l)["id"] for l in open(os.path.join(here, "properties.jsonl"))]
m = {
 "version": 1,
 "setup_cmd": "./run.sh build",
 "hooks": {
  "guard": "verif",
  "enable": "none needed: the checks read /repo's source (go/packages + go/ssa); no instrumentation exists, so there is nothing to enable",
  "baseline_off_cmd": "cd /repo && go test -json -vet=off -count=1 -timeout 25m ./...",
  "source_commits": [],
  "add_only": True
 },
 "engines": [
  {"name": "kverif-gs", "path": "checker/cmd/kverif", "serves_properties": [c["property_id"] for c in checks["checks"]],
   "kind_free_text": "static analysis of the generator / tool source: go/packages type-checked syntax + go/ssa (dominators, error-edge reachability, value-origin slicing, emission-template graph), frozen who-may-call and constant tables"},
  {"name": "kverif-co", "path": "checker/cmd/kverif", "serves_properties": [c["property_id"] for c in checks["checks"] if c.get("co")],
   "kind_free_text": "static happens-before / typestate analysis of the checked-in generated injectors (examples/*/kessoku_band.go, internal/kessoku/testdata/*/expected.go), go/types check of those packages"}
 ],
 "checks": [],
 "notes": checks.get("notes", ""),
 "not_applicable": []
}
claimed = set()
for c in checks["checks"]:
    pid = c["property_id"]; claimed.add(pid)
    m["checks"].append({
     "property_id": pid,
     "quick_cmd": "./run.sh check %s quick" % pid,
     "thorough_cmd": "./run.sh check %s thorough" % pid,
     "evidence_file": "/verif/evidence/%s.json" % pid,
     "replay_cmd_template": "./run.sh explain {path}",
     "engine": "kverif-gs+kverif-co" if c.get("co") else "kverif-gs",
     "level_claimed": {"category": "other", "text": c["level_text"], "design_ref": c.get("design_ref", "DESIGN.md §5 " + pid)},
     "level_note": c["level_note"],
     "technique": c["technique"],
    })
for pid in props:
    if pid not in claimed:
        m["not_applicable"].append({"property_id": pid, "reason": checks.get("not_applicable", {}).get(pid, "no static check built for this property yet (see DESIGN.md); not claimed")})
json.dump(m, open(os.path.join(here, "MANIFEST.json"), "w"), indent=1)
print("claimed:", sorted(claimed), "not_applicable:", [x["property_id"] for x in m["not_applicable"]])
