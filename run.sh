#!/bin/bash
# Wrapper used by MANIFEST.json: (re)builds the checker if needed and runs it against /repo's current working tree.
#   ./run.sh build
#   ./run.sh check <Cxx> <quick|thorough>
set -u
HERE="$(cd "$(dirname "$0")" && pwd)"
export PATH=/opt/veriftools/go1.26.8/bin:$PATH
build() {
  (cd "$HERE/checker" && GOTOOLCHAIN=local GOFLAGS=-mod=mod GOPROXY=off GOSUMDB=off GOWORK=off \
     go build -o "$HERE/bin/kverif" ./cmd/kverif) || { echo "ERROR: building kverif failed"; exit 2; }
}
case "${1:-}" in
  build) mkdir -p "$HERE/bin" "$HERE/evidence"; build ;;
  check)
    mkdir -p "$HERE/bin" "$HERE/evidence"
    build
    cd "$HERE"
    VERIF_ROOT="$HERE" "$HERE/bin/kverif" check "$2" --tier "${3:-${VERIF_TIER:-quick}}"
    rc=$?
    if [ $rc -gt 1 ]; then
      # the analysis itself did not complete (load/type error, crash): undecided counts as failed, never as held
      mkdir -p "$HERE/evidence/replay"
      echo "{\"finding\": {\"property\": \"$2\", \"rule\": \"$2.0\", \"construct\": \"checker\", \"msg\": \"UNDECIDED: kverif exited with status $rc before reaching a verdict\"}}" > "$HERE/evidence/replay/$2-crash.json"
      echo "VIOLATION property=$2 replay=$HERE/evidence/replay/$2-crash.json"
      exit 1
    fi
    exit $rc
    ;;
  *) VERIF_ROOT="$HERE" exec "$HERE/bin/kverif" "$@" ;;
esac
