#!/bin/bash
# Wrapper used by MANIFEST.json: (re)builds the checker if needed and runs it against /repo's current working tree.
#   ./run.sh build
#   ./run.sh check <Cxx> <quick|thorough>
set -u
HERE="$(cd "$(dirname "$0")" && pwd)"
export PATH=/opt/veriftools/go1.26.8/bin:$PATH
build() {
  (cd "$HERE/checker" && GOTOOLCHAIN=local GOFLAGS=-mod=mod GOPROXY=off GOSUMDB=off GOWORK=off \
     go build -o "$HERE/bin/kverif" ./cmd/kverif) || { echo "ERROR: building kverif failed"; exit 2; }
}
case "${1:-}" in
  build) mkdir -p "$HERE/bin" "$HERE/evidence"; build ;;
  check)
    mkdir -p "$HERE/bin" "$HERE/evidence"
    build
    cd "$HERE"
    VERIF_ROOT="$HERE" exec "$HERE/bin/kverif" check "$2" --tier "${3:-${VERIF_TIER:-quick}}"
    ;;
  *) VERIF_ROOT="$HERE" exec "$HERE/bin/kverif" "$@" ;;
esac
