// renamer writes self-test variants that rename, by object identity, every unexported function and method ("funcs"), every
// unexported struct field ("fields") or every parameter, result and local variable ("locals") of the module's non-test code.
// A pure rename changes no behaviour, so every check must stay silent under these variants (kverif selftest).
//
//	renamer <funcs|fields|locals> <out.json>
package main

import (
	"encoding/json"
	"fmt"
	"go/ast"
	"go/token"
	"go/types"
	"os"
	"path/filepath"
	"sort"
	"strings"

	"golang.org/x/tools/go/packages"
)

const modPath = "github.com/mazrean/kessoku"

func main() {
	if len(os.Args) != 3 {
		fmt.Fprintln(os.Stderr, "usage: renamer <funcs|fields|locals|types> <out.json>")
		os.Exit(2)
	}
	mode, out := os.Args[1], os.Args[2]
	repo := os.Getenv("VERIF_REPO")
	if repo == "" {
		repo = "/repo"
	}
	env := append(os.Environ(), "GOTOOLCHAIN=local", "GOWORK=off", "GOFLAGS=-mod=readonly", "GOPROXY=off", "GOSUMDB=off")
	cfg := &packages.Config{Mode: packages.LoadAllSyntax, Dir: repo, Env: env, Fset: token.NewFileSet()}
	pkgs, err := packages.Load(cfg, "./...")
	if err != nil {
		fmt.Fprintln(os.Stderr, err)
		os.Exit(2)
	}
	var mod []*packages.Package
	for _, p := range pkgs {
		if strings.HasPrefix(p.PkgPath, modPath) && !strings.Contains(p.PkgPath, "/examples") && len(p.Errors) == 0 {
			mod = append(mod, p)
		}
	}
	// method names that interfaces of the module (or embedded std interfaces) require: renaming one implementer breaks them
	ifaceMethods := map[string]bool{}
	for _, p := range mod {
		for _, n := range p.Types.Scope().Names() {
			if tn, ok := p.Types.Scope().Lookup(n).(*types.TypeName); ok {
				if it, ok := tn.Type().Underlying().(*types.Interface); ok {
					for i := 0; i < it.NumMethods(); i++ {
						ifaceMethods[it.Method(i).Name()] = true
					}
				}
			}
		}
		// constraint interfaces and anonymous ones in the syntax
		for _, f := range p.Syntax {
			ast.Inspect(f, func(n ast.Node) bool {
				if it, ok := n.(*ast.InterfaceType); ok && it.Methods != nil {
					for _, m := range it.Methods.List {
						for _, nm := range m.Names {
							ifaceMethods[nm.Name] = true
						}
					}
				}
				return true
			})
		}
	}
	type edit struct {
		off, end int
		text     string
	}
	edits := map[string][]edit{}
	n := 0
	for _, p := range mod {
		want := func(obj types.Object) bool {
			if obj == nil || obj.Pkg() == nil || obj.Pkg() != p.Types || obj.Name() == "_" || obj.Name() == "" {
				return false
			}
			switch o := obj.(type) {
			case *types.Func:
				if mode != "funcs" || o.Exported() || o.Name() == "main" || o.Name() == "init" {
					return false
				}
				if sig := o.Type().(*types.Signature); sig.Recv() != nil && ifaceMethods[o.Name()] {
					return false
				}
				return true
			case *types.TypeName:
				if mode != "types" || o.Exported() || o.Parent() != p.Types.Scope() || o.IsAlias() {
					return false
				}
				return true
			case *types.Var:
				if o.IsField() {
					if o.Embedded() {
						// named after its type
						ft := o.Type()
						if pt, ok := ft.(*types.Pointer); ok {
							ft = pt.Elem()
						}
						if nt, ok := ft.(*types.Named); ok && mode == "types" {
							tn := nt.Obj()
							return tn.Pkg() == p.Types && !tn.Exported() && tn.Parent() == p.Types.Scope()
						}
						return false
					}
					return mode == "fields" && !o.Exported()
				}
				if mode != "locals" {
					return false
				}
				return o.Parent() != p.Types.Scope() && o.Parent() != types.Universe
			}
			return false
		}
		seen := map[token.Pos]bool{}
		add := func(id *ast.Ident, obj types.Object) {
			if !want(obj) || seen[id.Pos()] || id.Name != obj.Name() {
				return
			}
			seen[id.Pos()] = true
			pos := cfg.Fset.Position(id.Pos())
			if strings.HasSuffix(pos.Filename, "_test.go") {
				return
			}
			edits[pos.Filename] = append(edits[pos.Filename], edit{pos.Offset, pos.Offset + len(id.Name), id.Name + "Rn"})
			n++
		}
		for id, obj := range p.TypesInfo.Defs {
			add(id, obj)
		}
		for id, obj := range p.TypesInfo.Uses {
			// generic instantiation: uses point at the origin object
			if v, ok := obj.(*types.Var); ok {
				obj = v.Origin()
			}
			if f, ok := obj.(*types.Func); ok {
				obj = f.Origin()
			}
			add(id, obj)
		}
		// type-switch symbolic variables (`switch x := v.(type)`) are implicit objects per clause
		if mode == "locals" {
			for _, f := range p.Syntax {
				ast.Inspect(f, func(nd ast.Node) bool {
					ts, ok := nd.(*ast.TypeSwitchStmt)
					if !ok {
						return true
					}
					as, ok := ts.Assign.(*ast.AssignStmt)
					if !ok || len(as.Lhs) != 1 {
						return true
					}
					id := as.Lhs[0].(*ast.Ident)
					if id.Name == "_" {
						return true
					}
					used := false
					for _, cl := range ts.Body.List {
						if obj := p.TypesInfo.Implicits[cl]; obj != nil {
							ast.Inspect(cl, func(n2 ast.Node) bool {
								if u, ok := n2.(*ast.Ident); ok && p.TypesInfo.Uses[u] == obj && !seen[u.Pos()] {
									seen[u.Pos()] = true
									pos := cfg.Fset.Position(u.Pos())
									edits[pos.Filename] = append(edits[pos.Filename], edit{pos.Offset, pos.Offset + len(u.Name), u.Name + "Rn"})
									used = true
								}
								return true
							})
						}
					}
					_ = used
					if !seen[id.Pos()] {
						seen[id.Pos()] = true
						pos := cfg.Fset.Position(id.Pos())
						edits[pos.Filename] = append(edits[pos.Filename], edit{pos.Offset, pos.Offset + len(id.Name), id.Name + "Rn"})
					}
					return true
				})
			}
		}
	}
	type jedit struct {
		File  string `json:"file"`
		Old   string `json:"old"`
		New   string `json:"new"`
		Whole bool   `json:"whole"`
	}
	var je []jedit
	var files []string
	for f := range edits {
		files = append(files, f)
	}
	sort.Strings(files)
	for _, f := range files {
		src, err := os.ReadFile(f)
		if err != nil {
			fmt.Fprintln(os.Stderr, err)
			os.Exit(2)
		}
		es := edits[f]
		sort.Slice(es, func(i, j int) bool { return es[i].off > es[j].off })
		for _, e := range es {
			src = append(src[:e.off:e.off], append([]byte(e.text), src[e.end:]...)...)
		}
		rel, _ := filepath.Rel(repo, f)
		je = append(je, jedit{File: rel, New: string(src), Whole: true})
	}
	props := []string{}
	for i := 1; i <= 16; i++ {
		props = append(props, fmt.Sprintf("C%02d", i))
	}
	spec := map[string]any{
		"name":   "ok-massrename-" + mode,
		"expect": []any{},
		"clean":  props,
		"edits":  je,
		"note":   fmt.Sprintf("mechanical rename by object identity of every %s of the module's non-test code (%d identifiers); behaviour is unchanged", mode, n),
	}
	b, _ := json.MarshalIndent(spec, "", " ")
	if err := os.WriteFile(out, b, 0o644); err != nil {
		fmt.Fprintln(os.Stderr, err)
		os.Exit(2)
	}
	fmt.Printf("%s: %d identifiers in %d files\n", mode, n, len(files))
}
