package main

import (
	"fmt"
	"go/token"
	"go/types"
	"os"
	"sort"
	"strings"

	"golang.org/x/tools/go/ssa"
)

// Shared generator-source rules (GS). Each takes the rule id under which the calling property reports it.

func genFn(c *Ctx, rule, name string) *ssa.Function {
	if base, ok := strings.CutSuffix(name, "#emits"); ok {
		// the function that walks the statement list and emits each element: the named function itself or a helper only it uses
		fn := resolveRole(c, genPkg, base)
		if fn == nil {
			c.undecided(rule, base, "function "+base+" not found in internal/kessoku (neither by name nor by role)")
			return nil
		}
		for _, g := range family(c.L, fn) {
			if g.Parent() != nil {
				continue
			}
			for _, cs := range callsIn(g) {
				if cs.common.IsInvoke() && cs.common.Method.Name() == "Stmt" && len(cs.common.Args) == 3 {
					c.seen(fnName(g))
					return g
				}
			}
		}
		c.seen(fnName(fn))
		return fn
	}
	fn := resolveRole(c, genPkg, name)
	if fn == nil {
		c.undecided(rule, name, "function "+name+" not found in internal/kessoku (neither by name nor by role)")
		return nil
	}
	c.seen(fnName(fn))
	return fn
}

// storesToField lists stores into a struct field (by "pkg.Type.field" key) in the given functions.
func storesToField(fns []*ssa.Function, key string) []*ssa.Store {
	var out []*ssa.Store
	for _, fn := range fns {
		for _, b := range fn.Blocks {
			for _, in := range b.Instrs {
				if st, ok := in.(*ssa.Store); ok {
					if fa, ok := st.Addr.(*ssa.FieldAddr); ok && fieldKey(fa) == key {
						out = append(out, st)
					}
				}
			}
		}
	}
	return out
}

// regionStart: the outermost block of the loop-free region that ends at target: walk up the dominator tree until the
// immediate dominator is a loop header (or the entry).
func regionStart(target ssa.Instruction) *ssa.BasicBlock {
	isHeader := func(d *ssa.BasicBlock) bool {
		for _, p := range d.Preds {
			if d.Dominates(p) {
				return true
			}
		}
		return false
	}
	b := target.Block()
	for {
		d := b.Idom()
		if d == nil {
			return b
		}
		if isHeader(d) && reachable(b, d) {
			return b
		}
		b = d
	}
}

func rowString(r tableRow, ids []string) string {
	var parts []string
	for _, id := range ids {
		short := id
		if len(short) > 60 {
			short = "…" + short[len(short)-58:]
		}
		parts = append(parts, fmt.Sprintf("%s=%v", short, r.atoms[id]))
	}
	return strings.Join(parts, ", ")
}

// G1: the IsWait flag computed in Build's second pass.
func ruleIsWaitTable(c *Ctx, rule string) {
	L := c.L
	build := genFn(c, rule, "(*Graph).Build")
	if build == nil {
		return
	}
	stores := storesToField(family(L, build), "internal/kessoku.InjectorCallArgument.IsWait")
	all := storesToField(pkgFuncs(L, genPkg), "internal/kessoku.InjectorCallArgument.IsWait")
	c.check(len(all) == len(stores) && len(stores) >= 1, rule, "InjectorCallArgument.IsWait:single-writer", L.pos(build.Pos()),
		"the wait flag of a call argument is computed in exactly one place (Graph.Build)", fmt.Sprintf("%d store(s) in Build, %d in the package", len(stores), len(all)))
	for _, st := range stores {
		rows, ids, err := truthTable(L, regionStart(st), st, st.Val)
		if err != "" {
			c.undecided(rule, "Build:IsWait-table", err)
			continue
		}
		// designate atoms by instruction kind and type: two lookups in one map[*node]int (pool indices) and the
		// comma-ok membership test in a map[*node]struct{} (the producer's snapshot). Every other atom is universally quantified.
		var ints, bools []string
		for _, id := range ids {
			switch v := lastAtomValues[id].(type) {
			case *ssa.Lookup:
				if v.X.Type().String() == "map[*"+genPkg+".node]int" {
					ints = append(ints, id)
				}
			case *ssa.Extract:
				if lk, ok := v.Tuple.(*ssa.Lookup); ok && v.Index == 1 && lk.X.Type().String() == "map[*"+genPkg+".node]struct{}" {
					bools = append(bools, id)
				}
			}
		}
		if len(ints) != 2 || len(bools) > 1 {
			c.undecided(rule, "Build:IsWait-atoms", fmt.Sprintf("expected two pool-index atoms and at most one snapshot-membership atom, found %v / %v (all atoms: %v)", ints, bools, ids))
			continue
		}
		bad := ""
		n := 0
		for _, r := range rows {
			if !r.reached {
				continue
			}
			n++
			a, b := r.atoms[ints[0]].i, r.atoms[ints[1]].i
			provided := false
			for _, id := range bools {
				if r.atoms[id].b {
					provided = true
				}
			}
			samePool := a == b && a != -1
			if !r.result.b && !(samePool || provided) {
				bad = rowString(r, ids)
			}
		}
		c.check(bad == "" && n > 0, rule, "Build:IsWait-table", L.pos(st.Pos()),
			"an argument is not awaited only if producer and consumer are in the same pool (or the consumer is already in the producer's snapshot)",
			fmt.Sprintf("%d assignments of %d atoms enumerated; counterexample: %s", n, len(ids), bad))
		c.sample(map[string]any{"rule": rule, "atoms": ids, "rows": n})
		// Ref receives the same flag
		okRef := false
		for _, cs := range callsIn(st.Parent()) {
			if cs.common.StaticCallee() != nil && cs.common.StaticCallee().Name() == "Ref" && len(cs.common.Args) == 2 && cs.common.Args[1] == st.Val {
				// same parameter object as stored into the argument
				okRef = true
			}
		}
		c.check(okRef, rule, "Build:Ref-same-flag", L.pos(st.Pos()), "the produced parameter is told about the wait with the same flag (Param.Ref(shouldWait))", "Ref's argument is the SSA value stored into IsWait")
	}
}

// G2: InjectorParam.Ref keeps the channel flag sticky; WithChannel reports it.
func ruleRefTable(c *Ctx, rule string) {
	L := c.L
	ref := genFn(c, rule, "(*InjectorParam).Ref")
	if ref == nil {
		return
	}
	all := storesToField(pkgFuncs(L, genPkg), "internal/kessoku.InjectorParam.withChannel")
	var stores []*ssa.Store
	for _, s := range all {
		if s.Parent() == ref {
			stores = append(stores, s)
		}
	}
	// constructors may initialise the field; any other writer is a second source of truth
	for _, s := range all {
		if s.Parent() != ref {
			c.fail(rule, fnName(s.Parent())+":writes-withChannel", L.pos(s.Pos()), "InjectorParam.withChannel is written outside Ref")
		}
	}
	if len(stores) == 0 {
		c.undecided(rule, "Ref:withChannel-store", "Ref does not store withChannel")
		return
	}
	// the field's value when Ref returns, for every assignment of (isArg, old flag, isWait): the last store on the path
	// taken, or the old value when the path stores nothing
	for _, ret := range returnsOf(ref) {
		rows, ids, err := truthTableTracking(L, ref.Blocks[0], ret, nil, "internal/kessoku.InjectorParam.withChannel")
		if err != "" {
			c.undecided(rule, "Ref:table", err)
			continue
		}
		var isArg, old, wait string
		for _, id := range ids {
			switch {
			case strings.Contains(id, "InjectorParam.isArg("):
				isArg = id
			case strings.Contains(id, "InjectorParam.withChannel("):
				old = id
			case strings.HasPrefix(id, "param:"):
				wait = id
			}
		}
		if isArg == "" || wait == "" {
			c.undecided(rule, "Ref:atoms", fmt.Sprintf("cannot identify isArg/isWait among %v", ids))
			continue
		}
		bad := ""
		n := 0
		for _, r := range rows {
			if !r.reached {
				continue
			}
			n++
			olds := []bool{false, true}
			if old != "" {
				olds = []bool{r.atoms[old].b}
			}
			for _, o := range olds {
				got := o
				if r.stored {
					got = r.storedVal.b
				}
				want := !r.atoms[isArg].b && (o || r.atoms[wait].b)
				if got != want {
					bad = rowString(r, ids) + fmt.Sprintf(" (old=%v) leaves %v, want %v", o, got, want)
				}
			}
		}
		c.check(bad == "" && n > 0, rule, "Ref:sticky-channel-flag", L.pos(ref.Pos()),
			"after Ref: withChannel = !isArg && (withChannel || isWait): once some consumer waits, the parameter keeps its done-channel", fmt.Sprintf("%d assignments enumerated to the return in block %d; counterexample: %s", n, ret.Block().Index, bad))
	}
	if wc := genFn(c, rule, "(*InjectorParam).WithChannel"); wc != nil {
		s := newSym(L, map[string]bool{})
		t := strings.Join(s.evalFn(wc, 0), "|")
		c.check(t == "field:internal/kessoku.InjectorParam.withChannel(param:p)" || strings.HasPrefix(t, "field:internal/kessoku.InjectorParam.withChannel(param:"), rule, "WithChannel:returns-flag", L.pos(wc.Pos()), "WithChannel reports exactly the stored flag", t)
	}
}

// reachedTable: enumerates the atoms controlling whether `target` executes in one iteration of its loop body.
func reachedTable(L *Loaded, target ssa.Instruction) ([]tableRow, []string, string) {
	return truthTable(L, regionStart(target), target, nil)
}

// G3: channels are declared, awaited and closed under one predicate.
func ruleChannelGuards(c *Ctx, rule string) {
	L := c.L
	type site struct {
		fn       string
		needWait bool
	}
	for _, s := range []site{
		{"(*InjectorProviderCallStmt).generateChannelWaitStatement", true},
		{"(*InjectorProviderCallStmt).generateChannelCloseStatement", false},
		{"generateVariableSpecs", false},
		{"(*InjectorFieldAccessStmt).Stmt", false},
	} {
		fn := genFn(c, rule, s.fn)
		if fn == nil {
			continue
		}
		n := 0
		var famCalls []callSite
		fmBody := map[*ssa.Function]bool{}
		for _, f2 := range family(L, fn) {
			if f2.Parent() == nil {
				famCalls = append(famCalls, callsIn(f2)...)
				// bodies of callback-driven loops: the name is emitted when the callback keeps the element
				for _, fm := range filterMapLoops(f2) {
					fmBody[fm.body] = true
					famCalls = append(famCalls, callsIn(fm.body)...)
				}
			}
		}
		for _, cs := range famCalls {
			if cs.common.StaticCallee() == nil || cs.common.StaticCallee().Name() != "ChannelName" || cs.value() == nil {
				continue
			}
			n++
			if fmBody[cs.fn] {
				// the call's result is what is kept: every return it reaches keeps the element, every other return skips it
				kept, skipped, okFlags := fmKeeps(cs.fn)
				okShape := okFlags && len(kept) > 0
				for _, r := range kept {
					if !instrDominates(cs.instr, r) {
						okShape = false
					}
				}
				for _, r := range skipped {
					if reachableAfter(cs.instr, r) {
						okShape = false
					}
				}
				if !okShape {
					c.undecided(rule, fnName(fn)+":ChannelName-guard", "the callback does not keep exactly the elements for which it names the channel")
					continue
				}
			}
			rows, ids, err := reachedTable(L, cs.instr)
			if err != "" {
				c.undecided(rule, fnName(fn)+":ChannelName-guard", err)
				continue
			}
			if os.Getenv("KVERIF_TABLE") != "" {
				fmt.Println("TABLE", fnName(cs.fn), "start block", regionStart(cs.instr).Index)
				for _, r := range rows {
					fmt.Println("   ", r.reached, r.errExit, rowString(r, ids))
				}
			}
			var wc, iw []string
			for _, id := range ids {
				if strings.Contains(id, "InjectorParam).WithChannel(") {
					wc = append(wc, id)
				}
				if strings.Contains(id, "InjectorCallArgument.IsWait(") {
					iw = append(iw, id)
				}
			}
			bad := ""
			for _, r := range rows {
				with := len(wc) > 0
				for _, id := range wc {
					if !r.atoms[id].b {
						with = false
					}
				}
				wait := true
				for _, id := range iw {
					if !r.atoms[id].b {
						wait = false
					}
				}
				// loop-condition atoms (index < len) must be true for the body to run at all
				inLoop := true
				for _, id := range ids {
					if strings.HasPrefix(id, "bin<(") && !r.atoms[id].b {
						inLoop = false
					}
				}
				if !inLoop || r.errExit || r.stuck {
					continue
				}
				other := true
				for _, id := range ids {
					if strings.Contains(id, "InjectorParam).WithChannel(") || strings.Contains(id, "InjectorCallArgument.IsWait(") || strings.HasPrefix(id, "bin<(") {
						continue
					}
					// any other atom (e.g. the "_" name test in generateVariableSpecs) is reported in the witness, and must not block a needed channel
					_ = id
				}
				_ = other
				want := with && (!s.needWait || wait)
				if want && !r.reached {
					// tolerated only if blocked by the unused-name test (name == "_"): then nothing refers to the channel
					blockedByName := false
					for _, id := range ids {
						if strings.Contains(id, `"_"`) && r.atoms[id].b {
							blockedByName = true
						}
					}
					if !blockedByName {
						bad = "not emitted although required: " + rowString(r, ids)
					}
				}
				if !want && r.reached {
					bad = "emitted although not required: " + rowString(r, ids)
				}
			}
			what := "closed/declared exactly for parameters with WithChannel()"
			if s.needWait {
				what = "awaited exactly for arguments with IsWait && Param.WithChannel()"
			}
			c.check(bad == "" && len(wc) > 0, rule, fnName(fn)+":ChannelName-guard", L.pos(cs.instr.Pos()),
				fnName(fn)+": the done-channel is "+what, fmt.Sprintf("%d assignments over atoms %d; %s", len(rows), len(ids), bad))
		}
		c.floor(rule, "ChannelName call sites in "+s.fn, n, 1)
	}
}

// loopExits: for every range loop of fn, the edges that leave the loop body other than the header's exhausted edge.
type loopExit struct {
	from, to *ssa.BasicBlock
}

func loopExits(fn *ssa.Function) (headers int, exits []loopExit) {
	for _, h := range fn.Blocks {
		if !strings.HasPrefix(h.Comment, "rangeindex.loop") && !strings.HasPrefix(h.Comment, "rangeiter.loop") && !strings.HasPrefix(h.Comment, "for.loop") {
			continue
		}
		headers++
		// natural loop of the back edges into h
		in := map[*ssa.BasicBlock]bool{}
		var work []*ssa.BasicBlock
		for _, p := range h.Preds {
			if h.Dominates(p) && p != h {
				work = append(work, p)
			}
		}
		for len(work) > 0 {
			b := work[len(work)-1]
			work = work[:len(work)-1]
			if in[b] || b == h {
				continue
			}
			in[b] = true
			work = append(work, b.Preds...)
		}
		for b := range in {
			for _, s := range b.Succs {
				if s != h && !in[s] {
					exits = append(exits, loopExit{b, s})
				}
			}
		}
	}
	sort.Slice(exits, func(i, j int) bool { return exits[i].from.Index < exits[j].from.Index })
	return
}

// G4: collection loops visit every element (no break / early success return).
func ruleNoEarlyExit(c *Ctx, rule string, fnNames ...string) {
	for _, name := range fnNames {
		fn := genFn(c, rule, name)
		if fn == nil {
			continue
		}
		ruleNoEarlyExitFn(c, rule, fn)
	}
}

func ruleNoEarlyExitFn(c *Ctx, rule string, fn *ssa.Function) {
	L := c.L
	{
		hs, exits := loopExits(fn)
		if hs == 0 {
			// the loop may be driven by a helper that applies a callback to every element (filtermap.go): the helper's loop
			// is exhaustive by its shape and a callback can only skip its own element
			if fms := filterMapLoops(fn); len(fms) > 0 {
				for _, fm := range fms {
					_, _, okFlags := fmKeeps(fm.body)
					c.check(okFlags, rule, fnName(fn)+":loop-early-exit", L.pos(fm.call.Pos()),
						fnName(fn)+": the loop handles every element (it is left only when exhausted or with an error)", "loop inside "+fm.helper.Name()+": applies the callback to every element in order; the callback keeps or skips its own element only")
					c.seen(fnName(fm.helper))
				}
				return
			}
			c.undecided(rule, fnName(fn)+":loops", "no range loop found (the statement list is built differently)")
			return
		}
		bad := []string{}
		for _, e := range exits {
			// leaving the loop for a failing return is fine
			if ok, _ := allPathsReturnNonNil(e.to, map[*ssa.BasicBlock]bool{}); ok {
				continue
			}
			bad = append(bad, fmt.Sprintf("edge %d->%d (%s)", e.from.Index, e.to.Index, e.to.Comment))
		}
		c.check(len(bad) == 0, rule, fnName(fn)+":loop-early-exit", L.pos(fn.Pos()),
			fnName(fn)+": the loop handles every element (it is left only when exhausted or with an error)", fmt.Sprintf("%d loop(s); other exits: %v", hs, bad))
	}
}

// ruleNoBreak: the loops of a function are never left through `break` (an edge from a body block to the block the
// header exits to). Returns and `continue <outer>` are fine: the function searches, it does not collect.
func ruleNoBreak(c *Ctx, rule, name, what string) {
	L := c.L
	fn := genFn(c, rule, name)
	if fn == nil {
		return
	}
	nLoops := 0
	var breaks []string
	for _, h := range fn.Blocks {
		if !strings.HasPrefix(h.Comment, "rangeindex.loop") && !strings.HasPrefix(h.Comment, "rangeiter.loop") && !strings.HasPrefix(h.Comment, "for.loop") {
			continue
		}
		in := map[*ssa.BasicBlock]bool{}
		var work []*ssa.BasicBlock
		for _, p := range h.Preds {
			if h.Dominates(p) && p != h {
				work = append(work, p)
			}
		}
		for len(work) > 0 {
			b := work[len(work)-1]
			work = work[:len(work)-1]
			if in[b] || b == h {
				continue
			}
			in[b] = true
			work = append(work, b.Preds...)
		}
		if len(in) == 0 {
			// a loop header without a back edge: the body always leaves after its first iteration
			breaks = append(breaks, fmt.Sprintf("loop at block %d never iterates twice (unconditional break/return at the end of its body)", h.Index))
			nLoops++
			continue
		}
		nLoops++
		for _, e := range h.Succs {
			if in[e] {
				continue
			}
			for b := range in {
				for _, s := range b.Succs {
					if s == e {
						breaks = append(breaks, fmt.Sprintf("block %d -> %d (%s)", b.Index, e.Index, e.Comment))
					}
				}
			}
		}
	}
	// a loop whose body always leaves loses its header block in go/ssa (block fusion): its body block then has a
	// non-header immediate dominator
	for _, b := range fn.Blocks {
		if strings.HasSuffix(b.Comment, ".body") && (strings.HasPrefix(b.Comment, "rangeindex") || strings.HasPrefix(b.Comment, "rangeiter") || strings.HasPrefix(b.Comment, "for")) {
			d := b.Idom()
			if d == nil || !strings.HasSuffix(d.Comment, ".loop") {
				breaks = append(breaks, fmt.Sprintf("loop body block %d never iterates twice (unconditional break/return at the end of its body)", b.Index))
			}
		}
	}
	sort.Strings(breaks)
	c.check(len(breaks) == 0 && nLoops > 0, rule, fnName(fn)+":scan-without-break", L.pos(fn.Pos()), what, fmt.Sprintf("%d loops; break edges: %v", nLoops, breaks))
}

// appendOrder: in fn, the appends to one statement list in program order with a label for what they add.
type appendSite struct {
	call  *ssa.Call
	label string
}

func labelOfAdded(L *Loaded, v ssa.Value) string {
	// variadic spread: the slice argument itself
	if elems, ok := variadicElems(v); ok {
		var ls []string
		for _, e := range elems {
			ls = append(ls, labelOfElem(L, e))
		}
		return strings.Join(ls, "+")
	}
	return "spread:" + labelOfElem(L, v)
}

func labelOfElem(L *Loaded, v ssa.Value) string {
	return labelOfElemSeen(L, v, map[ssa.Value]bool{})
}

func labelOfElemSeen(L *Loaded, v ssa.Value, seen map[ssa.Value]bool) string {
	v = resolve(v)
	if seen[v] {
		return "" // loop-carried phi: the other edges name the element
	}
	seen[v] = true
	switch x := v.(type) {
	case *ssa.Call:
		if cal := x.Common().StaticCallee(); cal != nil {
			// a builder helper that returns one freshly built node is also that node
			if strings.HasPrefix(fnPkgPath(cal), modPath) && len(cal.Blocks) > 0 && cal.Signature.Results().Len() == 1 {
				kinds := map[string]bool{}
				okAll := true
				for _, r := range returnsOf(cal) {
					if len(r.Results) != 1 || isNilConst(r.Results[0]) {
						continue
					}
					rv := resolve(r.Results[0])
					if mi, isMI := rv.(*ssa.MakeInterface); isMI {
						rv = resolve(mi.X)
					}
					if al, isAl := rv.(*ssa.Alloc); isAl {
						if n, ok := isAstNodeType(al.Type()); ok {
							kinds[n] = true
							continue
						}
					}
					okAll = false
				}
				if okAll && len(kinds) == 1 {
					for k := range kinds {
						return "call:" + cal.Name() + "|lit:" + k
					}
				}
			}
			return "call:" + cal.Name()
		}
		if x.Common().IsInvoke() {
			return "invoke:" + x.Common().Method.Name()
		}
		return "dyncall"
	case *ssa.Extract:
		if call, ok := x.Tuple.(*ssa.Call); ok {
			return labelOfElemSeen(L, call, seen)
		}
	case *ssa.Alloc:
		if n, ok := isAstNodeType(x.Type()); ok {
			return "lit:" + n
		}
	case *ssa.Phi:
		var ls []string
		for _, e := range x.Edges {
			if isNilConst(e) {
				continue
			}
			if l := labelOfElemSeen(L, e, seen); l != "" {
				ls = append(ls, l)
			}
		}
		return strings.Join(uniq(ls), "|")
	case *ssa.Parameter:
		return "param:" + x.Name()
	}
	return describe(v)
}

func isAstNodeType(t types.Type) (string, bool) {
	if p, ok := t.(*types.Pointer); ok {
		t = p.Elem()
	}
	n, ok := t.(*types.Named)
	if !ok || n.Obj().Pkg() == nil {
		return "", false
	}
	if n.Obj().Pkg().Path() == "go/ast" {
		return n.Obj().Name(), true
	}
	if n.Obj().Pkg().Path() == genPkg {
		return n.Obj().Name(), true
	}
	return "", false
}

func appendsIn(L *Loaded, fn *ssa.Function) []appendSite {
	var out []appendSite
	for _, b := range fn.Blocks {
		for _, in := range b.Instrs {
			call, ok := in.(*ssa.Call)
			if !ok {
				continue
			}
			if bi, ok := call.Common().Value.(*ssa.Builtin); !ok || bi.Name() != "append" || len(call.Common().Args) < 2 {
				continue
			}
			out = append(out, appendSite{call, labelOfAdded(L, call.Common().Args[1])})
		}
	}
	return out
}

// strictlyBefore: a executes before b whenever both execute, and never after it.
func strictlyBefore(a, b ssa.Instruction) bool {
	return reachableAfter(a, b) && !reachableAfter(b, a)
}

// stmtElem: one element of a statement list under construction - an append(list, x) or the i-th element of the slice
// literal the list starts from. at is the instruction that puts it there (the append call, or the store into the literal's
// backing array); order of execution of those instructions is order in the list.
type stmtElem struct {
	at    ssa.Instruction
	val   ssa.Value
	label string
}

func stmtElems(L *Loaded, fn *ssa.Function) []stmtElem {
	var out []stmtElem
	for _, a := range appendsIn(L, fn) {
		out = append(out, stmtElem{a.call, a.call.Common().Args[1], a.label})
	}
	// list = helper(list, ...): a helper that returns the list it was given, possibly with elements appended at the end
	for _, b := range fn.Blocks {
		for _, in := range b.Instrs {
			call, ok := in.(*ssa.Call)
			if !ok {
				continue
			}
			cal := call.Common().StaticCallee()
			if cal == nil || !strings.HasPrefix(fnPkgPath(cal), modPath) || accumulatorParam(cal) < 0 {
				continue
			}
			out = append(out, stmtElem{call, call, "acc:" + cal.Name()})
		}
	}
	// elements of []ast.Stmt literals
	for _, b := range fn.Blocks {
		for _, in := range b.Instrs {
			st, ok := in.(*ssa.Store)
			if !ok {
				continue
			}
			ia, ok := st.Addr.(*ssa.IndexAddr)
			if !ok {
				continue
			}
			al, ok := ia.X.(*ssa.Alloc)
			if !ok || !strings.Contains(al.Type().String(), "]go/ast.Stmt") || al.Comment == "varargs" {
				continue
			}
			out = append(out, stmtElem{st, st.Val, labelOfElem(L, st.Val)})
		}
	}
	return out
}

// G5: statement order inside a producer statement.
func ruleStmtOrder(c *Ctx, rule string) {
	L := c.L
	if fn := genFn(c, rule, "(*InjectorProviderCallStmt).Stmt"); fn != nil {
		// a provider statement emits its own wait, call, error check and close - never other statements of the schedule:
		// whatever it would splice in (a field read, another call) ends up between its call and its error check or close
		for _, g := range family(L, fn) {
			for _, cs := range callsIn(g) {
				isStmt := cs.common.IsInvoke() && cs.common.Method.Name() == "Stmt"
				if cal := cs.common.StaticCallee(); cal != nil && cal.Name() == "Stmt" && cal.Signature.Recv() != nil && strings.Contains(cal.Signature.Recv().Type().String(), genPkg+".Injector") {
					isStmt = true
				}
				if isStmt && len(cs.common.Args) >= 3 {
					c.fail(rule, fnName(g)+":nested-statement", L.pos(cs.instr.Pos()), "a provider statement renders another statement of the schedule inside itself: that statement's effects (reads, closes) are emitted before this provider's error check", cs.callee)
				}
			}
		}
		var wait, decl, assign, errh, closeS ssa.Instruction
		roleOf := func(v ssa.Value) *ssa.Function {
			// the module function whose result is appended (directly, through an if-non-nil phi, or as a spread)
			v = resolve(v)
			if elems, ok := variadicElems(v); ok && len(elems) == 1 {
				v = resolve(elems[0])
			}
			if ph, ok := v.(*ssa.Phi); ok {
				for _, e := range ph.Edges {
					if !isNilConst(e) {
						v = resolve(e)
					}
				}
			}
			if call, ok := v.(*ssa.Call); ok {
				return call.Common().StaticCallee()
			}
			return nil
		}
		waitFn := resolveRole(c, genPkg, "(*InjectorProviderCallStmt).generateChannelWaitStatement")
		closeFn := resolveRole(c, genPkg, "(*InjectorProviderCallStmt).generateChannelCloseStatement")
		assignFn := resolveRole(c, genPkg, "(*InjectorProviderCallStmt).buildAssignmentStatement")
		errFn := resolveRole(c, genPkg, "(*InjectorProviderCallStmt).buildErrorHandlingStatement")
		for _, a := range stmtElems(L, fn) {
			r := roleOf(a.val)
			switch {
			case r != nil && r == waitFn:
				wait = a.at
			case strings.Contains(a.label, "lit:DeclStmt"):
				decl = a.at
			case r != nil && assignFn != nil && r == assignFn, strings.Contains(a.label, "lit:AssignStmt"):
				// the call statement: built by the helper or written out in place
				assign = a.at
			case r != nil && r == errFn:
				errh = a.at
			case r != nil && r == closeFn:
				closeS = a.at
			}
		}
		if wait == nil || assign == nil || errh == nil || closeS == nil || decl == nil {
			var ls []string
			for _, a := range stmtElems(L, fn) {
				ls = append(ls, a.label)
			}
			c.undecided(rule, fnName(fn)+":append-chain", fmt.Sprintf("cannot identify wait/decl/assign/errcheck/close among the list elements %v", ls))
		} else {
			type pair struct {
				a, b ssa.Instruction
				what string
			}
			for _, p := range []pair{
				{wait, assign, "the wait for the inputs precedes the provider call"},
				{decl, assign, "the error variable is declared before the call"},
				{assign, errh, "the error check follows the call"},
				{errh, closeS, "the done-channels are closed only after the error check"},
				{assign, closeS, "the done-channels are closed after the call returned"},
			} {
				c.check(strictlyBefore(p.a, p.b), rule, fnName(fn)+":order:"+p.what, L.pos(p.b.Pos()), fnName(fn)+": "+p.what,
					fmt.Sprintf("element added in block %d precedes element added in block %d on every path", p.a.Block().Index, p.b.Block().Index))
			}
		}
	}
	if fn := genFn(c, rule, "(*InjectorFieldAccessStmt).Stmt"); fn != nil {
		var assign, closeS ssa.Instruction
		for _, a := range stmtElems(L, fn) {
			if strings.Contains(a.label, "lit:AssignStmt") {
				assign = a.at
			}
			if strings.Contains(a.label, "lit:ExprStmt") {
				closeS = a.at
			}
		}
		if assign == nil || closeS == nil {
			c.undecided(rule, fnName(fn)+":append-chain", "cannot identify the field read and the close")
		} else {
			c.check(strictlyBefore(assign, closeS), rule, fnName(fn)+":order:read-before-close", L.pos(closeS.Pos()), fnName(fn)+": the field is read before its done-channel is closed", "list order")
		}
	}
}

// onlyChainAppends: the slice value is built from an empty slice by appending only *InjectorChainStmt elements.
func onlyChainAppends(L *Loaded, v ssa.Value, seen map[ssa.Value]bool) (bool, string) {
	if seen[v] {
		return true, ""
	}
	seen[v] = true
	// the list handed through a private helper (as an argument, or back as one of its results)
	if vs, ok := threaded(L, v); ok {
		for _, w := range vs {
			if ok, why := onlyChainAppends(L, w, seen); !ok {
				return false, why
			}
		}
		return true, ""
	}
	switch x := v.(type) {
	case *ssa.MakeSlice:
		return true, ""
	case *ssa.Slice:
		if al, ok := x.X.(*ssa.Alloc); ok {
			for _, r := range *al.Referrers() {
				if _, isIdx := r.(*ssa.IndexAddr); isIdx {
					return false, "slice literal with elements"
				}
			}
			return true, ""
		}
		return false, "re-slice of " + describe(x.X)
	case *ssa.Const:
		return x.Value == nil, "constant"
	case *ssa.Phi:
		for _, e := range x.Edges {
			if ok, why := onlyChainAppends(L, e, seen); !ok {
				return false, why
			}
		}
		return true, ""
	case *ssa.Call:
		if bi, ok := x.Common().Value.(*ssa.Builtin); ok && bi.Name() == "append" {
			if ok, why := onlyChainAppends(L, x.Common().Args[0], seen); !ok {
				return false, why
			}
			elems, ok := variadicElems(x.Common().Args[1])
			if !ok {
				return false, "spread append of " + describe(x.Common().Args[1])
			}
			for _, e := range elems {
				al, ok := resolve(e).(*ssa.Alloc)
				if !ok {
					return false, "appended element is " + describe(e)
				}
				if n, _ := isAstNodeType(al.Type()); n != "InjectorChainStmt" {
					return false, "appended element is a " + n
				}
			}
			return true, ""
		}
	}
	return false, "built from " + describe(v)
}

// G6: all goroutines are spawned before the main thread's first statement.
func ruleSpawnFirst(c *Ctx, rule string) {
	L := c.L
	fn := genFn(c, rule, "(*Graph).buildStmts")
	if fn == nil {
		return
	}
	n := 0
	for _, r := range returnsOf(fn) {
		if !returnsNilError(r) {
			continue
		}
		n++
		res := resolve(r.Results[0])
		call, ok := res.(*ssa.Call)
		okShape, why := false, "the returned list is "+describe(res)
		if ok {
			if bi, isB := call.Common().Value.(*ssa.Builtin); isB && bi.Name() == "append" && len(call.Common().Args) == 2 {
				if _, isLit := variadicElems(call.Common().Args[1]); !isLit {
					okC, w := onlyChainAppends(L, call.Common().Args[0], map[ssa.Value]bool{})
					okShape, why = okC, "result = append(<goroutine statements>, <main-thread statements>...); "+w
				} else {
					why = "the final append adds single elements, not the main-thread list"
				}
			}
		}
		c.check(okShape, rule, fnName(fn)+":spawn-before-main", L.pos(r.Pos()), "the statement list is all eg.Go chains followed by the main thread's statements", why)
	}
	c.floor(rule, "success returns of buildStmts", n, 1)
}

// G9: every decision "own goroutine vs caller's thread" in buildStmts tests pool[0].providerSpec.IsAsync.
func rulePoolPredicate(c *Ctx, rule string) {
	L := c.L
	fn := genFn(c, rule, "(*Graph).buildStmts")
	if fn == nil {
		return
	}
	n := 0
	// a decision written as a predicate closure for a library scan (slices.IndexFunc(pools, isSync)): what the closure
	// returns is the test
	for _, cl := range fn.AnonFuncs {
		if cl.Signature.Results().Len() != 1 || cl.Signature.Results().At(0).Type().String() != "bool" {
			continue
		}
		for _, r := range returnsOf(cl) {
			sym := newSym(L, map[string]bool{})
			sym.maxD = 0
			term := strings.Join(sym.eval(r.Results[0]), "|")
			if !strings.Contains(term, "ProviderSpec.IsAsync(") {
				continue
			}
			n++
			okShape := strings.Contains(term, "field:internal/kessoku.ProviderSpec.IsAsync(field:internal/kessoku.node.providerSpec(index(") && !strings.Contains(term, genPkg+".")
			c.check(okShape, rule, fnName(fn)+":pool-kind-predicate", L.pos(r.Pos()),
				"a pool becomes a goroutine exactly when its first provider is Async (the test findOptimalPool and the wait computation assume)", term)
		}
	}
	var blocks []*ssa.BasicBlock
	for _, g := range chainBuilders(L, fn) {
		blocks = append(blocks, g.Blocks...)
	}
	// finder helpers of buildStmts (firstSyncPoolIdx(pools, ready)): their tests are decisions of buildStmts
	bpsFam := map[*ssa.Function]bool{}
	if bps := resolveRole(c, genPkg, "(*Graph).buildPoolStmtsSimple"); bps != nil {
		for _, g := range family(L, bps) {
			bpsFam[g] = true
		}
	}
	inBuilders := map[*ssa.Function]bool{}
	for _, g := range chainBuilders(L, fn) {
		inBuilders[g] = true
	}
	for _, g := range family(L, fn) {
		if g.Parent() == nil && !inBuilders[g] && !bpsFam[g] {
			blocks = append(blocks, g.Blocks...)
		}
	}
	for _, b := range blocks {
		if len(b.Instrs) == 0 {
			continue
		}
		iff, ok := b.Instrs[len(b.Instrs)-1].(*ssa.If)
		if !ok {
			continue
		}
		sym := newSym(L, map[string]bool{})
		sym.maxD = 0 // keep calls opaque: a helper predicate must show up as a call
		term := strings.Join(sym.eval(iff.Cond), "|")
		pos := L.pos(iff.Cond.Pos())
		switch {
		case strings.Contains(term, "ProviderSpec.IsAsync("):
			n++
			okShape := strings.Contains(term, "field:internal/kessoku.ProviderSpec.IsAsync(field:internal/kessoku.node.providerSpec(index(") && !strings.Contains(term, genPkg+".")
			c.check(okShape, rule, fnName(fn)+":pool-kind-predicate", pos,
				"a pool becomes a goroutine exactly when its first provider is Async (the test findOptimalPool and the wait computation assume)", term)
		case strings.HasSuffix(term, ", nil)") && (strings.HasPrefix(term, "bin!=(") || strings.HasPrefix(term, "bin==(")):
			// error / nil checks are not scheduling decisions
		case (strings.Contains(term, genPkg+".") || strings.Contains(term, "closure:")) && condRootedAtCall(iff.Cond) && decidesChainCreation(iff):
			// a call-based predicate that (without the IsAsync test in between) selects between creating and not creating a chain
			n++
			c.fail(rule, fnName(fn)+":pool-kind-predicate", pos, "buildStmts classifies or schedules a pool through a predicate other than its first provider's IsAsync flag", term)
		}
	}
	c.floor(rule, "pool-kind decisions in buildStmts", n, 2)
}

// G10: edge bookkeeping is paired.
func rulePairedEdges(c *Ctx, rule string) {
	L := c.L
	ng := genFn(c, rule, "NewGraph")
	if ng == nil {
		return
	}
	var edges, rev []*ssa.MapUpdate
	for _, f2 := range family(L, ng) {
		for _, b := range f2.Blocks {
			for _, in := range b.Instrs {
				mu, ok := in.(*ssa.MapUpdate)
				if !ok {
					continue
				}
				if u, ok := mu.Map.(*ssa.UnOp); ok {
					if fa, ok := u.X.(*ssa.FieldAddr); ok {
						switch fieldKey(fa) {
						case "internal/kessoku.Graph.edges":
							edges = append(edges, mu)
						case "internal/kessoku.Graph.reverseEdges":
							rev = append(rev, mu)
						}
					}
				}
			}
		}
	}
	c.floor(rule, "edge insertions in NewGraph", len(edges), 1)
	ok := len(edges) == len(rev) && len(edges) > 0
	why := fmt.Sprintf("%d edges updates, %d reverseEdges updates", len(edges), len(rev))
	for i := range edges {
		if i < len(rev) && edges[i].Block() != rev[i].Block() {
			ok = false
			why += fmt.Sprintf("; update #%d: blocks %d vs %d", i, edges[i].Block().Index, rev[i].Block().Index)
		}
	}
	c.check(ok, rule, "NewGraph:paired-edge-bookkeeping", L.pos(ng.Pos()),
		"every dependency edge is recorded in both directions by the same basic block (the topological sort counts reverse edges and releases per forward edge)", why)
	// the topological sort's counter is the number of reverse edges
	if ts := genFn(c, rule, "(*Graph).topologicalSortIter"); ts != nil {
		okCount := false
		nInit, badInit := 0, ""
		for _, st := range storesToField(withClosures(ts), "internal/kessoku.requireCounter.count") {
			s := newSym(L, map[string]bool{})
			t := strings.Join(s.eval(st.Val), "|")
			if strings.Contains(t, "requireCounter.count(") {
				continue // the decrement
			}
			nInit++
			if strings.HasPrefix(t, "builtin len(lookup(field:internal/kessoku.Graph.reverseEdges(") {
				okCount = true
			} else {
				badInit = t
			}
		}
		if badInit != "" {
			okCount = false
		}
		// local struct type: field key may be rendered differently; fall back to scanning len() calls
		if !okCount && nInit == 0 {
			for _, f2 := range withClosures(ts) {
				for _, cs := range callsIn(f2) {
					if cs.callee == "builtin len" {
						s := newSym(L, map[string]bool{})
						if strings.Contains(strings.Join(s.eval(cs.arg(0)), "|"), "Graph.reverseEdges(") {
							okCount = true
						}
					}
				}
			}
		}
		c.check(okCount, rule, "topologicalSortIter:count-from-reverseEdges", L.pos(ts.Pos()), "a node becomes ready when as many arguments were provided as it has reverse edges (one per parameter, repetitions included)", "requireCount = len(g.reverseEdges[n]); found: "+badInit)
		ruleReleasePerDestinationSlot(c, rule)
	}
}

// ruleReleasePerDestinationSlot: the topological sort releases a consumer once per forward edge: an edge is passed over only
// when its own destination slot (edgeNode.provideArgDst) was filled before. A de-duplication by anything else (the source
// node, the result index) passes over the second of two parameters fed by one value: the counter never reaches zero, the
// consumer is never yielded and a valid declaration is refused ("no return value provider found").
func ruleReleasePerDestinationSlot(c *Ctx, rule string) {
	L := c.L
	ts := genFn(c, rule, "(*Graph).topologicalSortIter")
	if ts == nil {
		return
	}
	n := 0
	for _, st := range storesToField(withClosures(ts), "internal/kessoku.requireCounter.count") {
		bo, isB := st.Val.(*ssa.BinOp)
		if !isB || bo.Op != token.SUB {
			continue
		}
		n++
		bad := ""
		// the loop over the forward edges: the innermost loop around the decrement
		var hdr *ssa.BasicBlock
		for d := st.Block(); d != nil && hdr == nil; d = d.Idom() {
			for _, pr := range d.Preds {
				if d.Dominates(pr) && (d == st.Block() || reachable(st.Block(), d)) {
					hdr = d
				}
			}
		}
		for _, iff := range controllingIfs(st) {
			if iff.Block().Parent() != st.Parent() || hdr == nil || !hdr.Dominates(iff.Block()) {
				continue
			}
			cond := iff.Cond
			if u, isU := cond.(*ssa.UnOp); isU && u.Op == token.NOT {
				cond = u.X
			}
			isSlot := func(k ssa.Value) bool {
				ld, ok := resolve(k).(*ssa.UnOp)
				if !ok || ld.Op != token.MUL {
					return false
				}
				fa, ok := ld.X.(*ssa.FieldAddr)
				return ok && fieldKey(fa) == "internal/kessoku.edgeNode.provideArgDst"
			}
			switch x := cond.(type) {
			case *ssa.UnOp:
				// a flag read from a list: the list is indexed by the edge's destination slot
				if ia, isIA := x.X.(*ssa.IndexAddr); isIA && x.Op == token.MUL && !isSlot(ia.Index) {
					bad = "a flag indexed by " + describe(resolve(ia.Index))
				}
			case *ssa.Extract:
				if lk, isLk := x.Tuple.(*ssa.Lookup); isLk && lk.CommaOk && !isSlot(lk.Index) {
					bad = "membership in a set keyed by " + describe(resolve(lk.Index))
				}
			case *ssa.Lookup:
				if !isSlot(x.Index) {
					bad = "a flag keyed by " + describe(resolve(x.Index))
				}
			}
		}
		c.check(bad == "", rule, "topologicalSortIter:release-per-destination-slot", L.pos(st.Pos()), "a forward edge is passed over only when its own destination slot was provided before (one release per parameter, repetitions included)", "the release is guarded by "+bad)
	}
	if n == 0 {
		c.ok(rule, "topologicalSortIter: no decrement of a requireCounter recognised; release rule not applied", "shape not recognised")
	}
}

// G11: every pool handed to buildPoolStmtsSimple is then marked processed.
func rulePoolsProcessed(c *Ctx, rule string) {
	L := c.L
	fn := genFn(c, rule, "(*Graph).buildStmts")
	if fn == nil {
		return
	}
	marks := func(f *ssa.Function, pool ssa.Value) bool {
		// a loop over `pool` with a map update keyed by its elements, in f
		for _, b := range f.Blocks {
			for _, in := range b.Instrs {
				mu, ok := in.(*ssa.MapUpdate)
				if !ok || !strings.Contains(mu.Map.Type().String(), "map[*"+genPkg+".node]struct{}") {
					continue
				}
				s := newSym(L, map[string]bool{})
				key := strings.Join(s.eval(mu.Key), "|")
				want := s.eval(pool)
				for _, w := range want {
					if strings.Contains(key, "index("+w+")") || strings.Contains(key, w) {
						return true
					}
				}
			}
		}
		return false
	}
	n := 0
	for _, cs := range callsIn(fn) {
		if cs.common.StaticCallee() == nil || cs.common.StaticCallee().Name() != "buildPoolStmtsSimple" || cs.value() == nil {
			continue
		}
		n++
		pool := cs.arg(1)
		// the marking must follow on the success edge
		found := false
		s0 := newSym(L, map[string]bool{})
		poolTerms := s0.eval(pool)
		for _, b := range fn.Blocks {
			for _, in := range b.Instrs {
				switch x := in.(type) {
				case *ssa.MapUpdate:
					if !strings.Contains(x.Map.Type().String(), "map[*"+genPkg+".node]struct{}") || !reachableAfter(cs.instr, x) {
						continue
					}
					s := newSym(L, map[string]bool{})
					key := strings.Join(s.eval(x.Key), "|")
					for _, w := range poolTerms {
						if strings.Contains(key, w) {
							// the loop must be specific to this site: dominated by the call
							if instrDominates(cs.instr, x) {
								found = true
							}
						}
					}
				case *ssa.Call:
					// a named helper / method that receives the pool and marks its elements
					if h := x.Common().StaticCallee(); h != nil && len(h.Blocks) > 0 && h.Pkg == fn.Pkg && instrDominates(cs.instr, x) {
						for i, a := range x.Common().Args {
							if i >= len(h.Params) {
								continue
							}
							s := newSym(L, map[string]bool{})
							same := false
							for _, at := range s.eval(a) {
								for _, w := range poolTerms {
									if at == w {
										same = true
									}
								}
							}
							if same && marks(h, h.Params[i]) {
								found = true
							}
						}
					}
					if mc, ok := resolve(x.Common().Value).(*ssa.MakeClosure); ok && instrDominates(cs.instr, x) {
						cl := mc.Fn.(*ssa.Function)
						if len(cl.Params) == 1 && len(x.Common().Args) == 1 {
							s := newSym(L, map[string]bool{})
							at := s.eval(x.Common().Args[0])
							same := false
							for _, a := range at {
								for _, w := range poolTerms {
									if a == w {
										same = true
									}
								}
							}
							if same && marks(cl, cl.Params[0]) {
								found = true
							}
						}
					}
				}
			}
		}
		c.check(found, rule, fmt.Sprintf("%s:pool-marked-processed#%d", fnName(fn), n), L.pos(cs.instr.Pos()),
			"after a pool's statements are built its nodes are added to the processed set (otherwise pools depending on it are silently never emitted)", "map update keyed by the pool's elements, dominated by the build call")
	}
	c.floor(rule, "buildPoolStmtsSimple call sites in buildStmts", n, 3)
}

// unused import guard
var _ = token.ADD

// decidesChainCreation: exactly one successor of the branch reaches a block that allocates an *InjectorChainStmt without first
// passing a branch on ProviderSpec.IsAsync. A readiness test in front of the IsAsync test is therefore not a scheduling-kind decision.
func decidesChainCreation(iff *ssa.If) bool {
	fn := iff.Parent()
	isChainBlock := func(b *ssa.BasicBlock) bool {
		for _, in := range b.Instrs {
			if al, ok := in.(*ssa.Alloc); ok {
				if strings.HasSuffix(al.Type().String(), "internal/kessoku.InjectorChainStmt") {
					return true
				}
			}
		}
		return false
	}
	isAsyncBranch := func(b *ssa.BasicBlock) bool {
		if len(b.Instrs) == 0 {
			return false
		}
		i2, ok := b.Instrs[len(b.Instrs)-1].(*ssa.If)
		if !ok {
			return false
		}
		found := false
		var walk func(v ssa.Value, d int)
		walk = func(v ssa.Value, d int) {
			if d > 6 || v == nil {
				return
			}
			switch x := v.(type) {
			case *ssa.UnOp:
				if fa, ok := x.X.(*ssa.FieldAddr); ok && fieldKey(fa) == "internal/kessoku.ProviderSpec.IsAsync" {
					found = true
				}
				walk(x.X, d+1)
			case *ssa.BinOp:
				walk(x.X, d+1)
				walk(x.Y, d+1)
			case *ssa.Phi:
				for _, e := range x.Edges {
					walk(e, d+1)
				}
			}
		}
		walk(i2.Cond, 0)
		return found
	}
	reach := func(start *ssa.BasicBlock) bool {
		seen := map[*ssa.BasicBlock]bool{}
		stack := []*ssa.BasicBlock{start}
		for len(stack) > 0 {
			b := stack[len(stack)-1]
			stack = stack[:len(stack)-1]
			if seen[b] {
				continue
			}
			seen[b] = true
			if isChainBlock(b) {
				return true
			}
			if isAsyncBranch(b) || b == iff.Block() {
				continue
			}
			stack = append(stack, b.Succs...)
		}
		return false
	}
	_ = fn
	t, f := reach(iff.Block().Succs[0]), reach(iff.Block().Succs[1])
	return t != f
}

// condRootedAtCall: the branch condition is (a negation / comparison of) the result of a call - as opposed to a load of a
// field, map or slice element whose container happens to come from a constructor call.
func condRootedAtCall(v ssa.Value) bool {
	for i := 0; i < 6; i++ {
		switch x := v.(type) {
		case *ssa.Call:
			_, isB := x.Common().Value.(*ssa.Builtin)
			return !isB
		case *ssa.UnOp:
			if x.Op == token.NOT {
				v = x.X
				continue
			}
			return false
		case *ssa.BinOp:
			if _, ok := x.X.(*ssa.Call); ok {
				v = x.X
				continue
			}
			if _, ok := x.Y.(*ssa.Call); ok {
				v = x.Y
				continue
			}
			return false
		case *ssa.Phi:
			for _, e := range x.Edges {
				if condRootedAtCall(e) {
					return true
				}
			}
			return false
		case *ssa.Extract:
			v = x.Tuple
			continue
		}
		return false
	}
	return false
}

// accumulatorParam: the index of the []ast.Stmt parameter that fn returns on every path, as it is or with elements appended
// at its end (list = helper(list, ...)); -1 when fn is not of that shape.
func accumulatorParam(fn *ssa.Function) int {
	if fn == nil || len(fn.Blocks) == 0 || fn.Signature.Results().Len() != 1 || !strings.HasSuffix(fn.Signature.Results().At(0).Type().String(), "[]go/ast.Stmt") {
		return -1
	}
	for i, p := range fn.Params {
		if !strings.HasSuffix(p.Type().String(), "[]go/ast.Stmt") {
			continue
		}
		var grows func(v ssa.Value, d int) bool
		grows = func(v ssa.Value, d int) bool {
			if d > 6 {
				return false
			}
			v = resolve(v)
			if v == ssa.Value(p) {
				return true
			}
			switch x := v.(type) {
			case *ssa.Call:
				if bi, ok := x.Common().Value.(*ssa.Builtin); ok && bi.Name() == "append" && len(x.Common().Args) >= 1 {
					return grows(x.Common().Args[0], d+1)
				}
			case *ssa.Phi:
				for _, e := range x.Edges {
					if !grows(e, d+1) {
						return false
					}
				}
				return len(x.Edges) > 0
			}
			return false
		}
		all, n := true, 0
		for _, b := range fn.Blocks {
			if len(b.Instrs) == 0 {
				continue
			}
			if r, ok := b.Instrs[len(b.Instrs)-1].(*ssa.Return); ok && len(r.Results) == 1 {
				n++
				if !grows(r.Results[0], 0) {
					all = false
				}
			}
		}
		if all && n > 0 {
			return i
		}
	}
	return -1
}
