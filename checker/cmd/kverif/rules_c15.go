package main

import (
	"fmt"
	"go/token"
	"go/types"
	"sort"
	"strings"

	"golang.org/x/tools/go/ssa"
)

func init() {
	register(&propDef{
		id:  "C15",
		run: runC15,
		explanation: "Path analysis (dominators + error-edge reachability on go/ssa) of every function of internal/llmsetup that publishes a file with os.Rename: " +
			"the content is written, synced and closed and the mode set, each with its error checked, before the rename; the temporary file lives in the destination's directory; " +
			"no other filesystem mutator touches the final name; a deferred cleanup registered directly after the successful CreateTemp removes the temp file on every failing exit; " +
			"every failing step returns a non-nil error which the walk callback, Install and the kong Run method pass on. Exhaustive over the CFG of the installer (all blocks, all returns).",
		notDecided:  "kernel/filesystem semantics (rename(2) atomic replace, effects of earlier syscalls survive a crash), short writes inside (*os.File).Write, durability of the directory entry (documented as not guaranteed).",
		assumptions: []string{"rename(2) within one directory atomically replaces the destination", "a process death between two syscalls leaves the effects of the earlier ones", "os package wrappers map 1:1 to syscalls", "go/ssa dominator tree and referrer lists are correct"},
	})
}

func llmFuncs(L *Loaded) []*ssa.Function {
	L.buildSSA()
	var out []*ssa.Function
	for fn := range L.NonTest {
		if fn.Pkg != nil && fn.Pkg.Pkg.Path() == llmPkg && fn.Blocks != nil {
			out = append(out, fn)
		}
	}
	sort.Slice(out, func(i, j int) bool { return out[i].Pos() < out[j].Pos() })
	return out
}

func runC15(c *Ctx) {
	L := c.L
	L.buildSSA()
	fns := llmFuncs(L)
	c.Exhaustive = true

	// --- locate publishing functions: those that call os.Rename
	type pub struct {
		fn *ssa.Function
		rn callSite
	}
	var pubs []pub
	for _, fn := range fns {
		for _, cs := range findCalls(fn, "os.Rename") {
			pubs = append(pubs, pub{fn, cs})
		}
	}
	c.floor("C15.1", "os.Rename publish sites in internal/llmsetup", len(pubs), 1)

	phaseHelpers := map[*ssa.Function]bool{} // first/last-phase helpers of a publishing function: their parameters are read at the call site
	stepHelpers := map[*ssa.Function]int{}   // helper -> index of the parameter that is the temporary file
	var tempNames []ssa.Value                // resolved src values (temp file names)
	var targetDirs []ssa.Value
	var tempFiles []ssa.Value

	for _, p := range pubs {
		rnFn, rn := p.fn, p.rn
		c.seen(fnName(rnFn))
		rnCall := rn.value()
		if rnCall == nil {
			c.undecided("C15.1", fnName(rnFn)+":Rename", "os.Rename is deferred or spawned, not called")
			continue
		}
		// the rename may live in a last-phase helper (publishTemp(tmpName, finalPath)) of the function that creates the
		// temporary file: the checks below then run in that function, with the helper's call as the publishing step
		fn, rnSite, src, dst := publishRoot(L, rnFn, rn)
		var rnAt ssa.Instruction = rn.instr
		if fn != rnFn {
			rnAt = rnSite.instr
			phaseHelpers[rnFn] = true
			c.seen(fnName(fn))
			// the helper reports success only after the rename succeeded
			for _, r := range returnsOf(rnFn) {
				if returnsNilError(r) {
					ok, why := checkedBefore(rnCall, r)
					c.check(ok, "C15.1", fnName(rnFn)+":Rename-before-success-return", L.pos(r.Pos()), fnName(rnFn)+": returns nil only after the rename succeeded", why)
				}
			}
		}
		name := fnName(fn)

		// C15.1a: src is Name() of the file returned by CreateTemp
		nameCall := callResultOf(src, "(*os.File).Name", 0)
		var tmpFile ssa.Value
		var ct, ctSite *ssa.Call
		if nameCall != nil {
			tmpFile = resolve(nameCall.Common().Args[0])
			ct = callResultOf(tmpFile, "os.CreateTemp", 0)
			ctSite = ct
			if ct == nil {
				// first-phase helper: tmp, err := createTempIn(dir) returning the os.CreateTemp file on its success returns
				ct, ctSite = createTempThroughHelper(tmpFile)
				if ct != nil {
					phaseHelpers[ct.Parent()] = true
					c.seen(fnName(ct.Parent()))
					for _, r := range returnsOf(ct.Parent()) {
						if returnsNilError(r) {
							ok, why := checkedBefore(ct, r)
							c.check(ok, "C15.1", fnName(ct.Parent())+":CreateTemp-before-success-return", L.pos(r.Pos()), fnName(ct.Parent())+": returns the file only after os.CreateTemp succeeded", why)
						}
					}
					if ok, why := errorBranchReturnsNonNil(ct); ok {
						c.ok("C15.5", fnName(ct.Parent())+": failure of os.CreateTemp is reported", why)
					} else {
						c.fail("C15.5", fnName(ct.Parent())+":os.CreateTemp-error-reported", L.pos(ct.Pos()), "a failing os.CreateTemp does not make the function return a non-nil error", why)
					}
				}
			}
		}
		if ct == nil {
			c.fail("C15.1", name+":Rename.src", L.pos(rn.instr.Pos()), "the rename source is not the Name() of a file created by os.CreateTemp in this function", "source is "+describe(src))
			continue
		}
		c.ok("C15.1", name+": rename source is Name() of the os.CreateTemp file", "value chain Rename.arg0 <- (*os.File).Name <- os.CreateTemp#0")
		tempNames = append(tempNames, resolve(src))
		tempFiles = append(tempFiles, tmpFile)
		targetDirs = append(targetDirs, liftPhase(L, phaseHelpers, ct.Common().Args[0]))

		// C15.1b: Write, Sync, Close on that file and Chmod on that name: each dominates the rename with its error checked
		type step struct {
			callee string
			onFile bool
		}
		steps := []step{{"(*os.File).Write", true}, {"(*os.File).Sync", true}, {"(*os.File).Close", true}, {"os.Chmod", false}}
		found := map[string]*ssa.Call{}
		helperSteps := map[string]*ssa.Call{} // the step's own call inside a helper, when it lives there
		for _, st := range steps {
			var best *ssa.Call
			var why string
			for _, cs := range findCalls(fn, st.callee) {
				call := cs.value()
				if call == nil {
					continue
				}
				if st.onFile && resolve(cs.arg(0)) != tmpFile {
					continue
				}
				if !st.onFile && resolve(cs.arg(0)) != resolve(src) {
					continue
				}
				ok, w := checkedBefore(call, rnAt)
				if ok {
					best, why = call, w
					break
				}
				why = w
			}
			// the step may sit in the publishing helper itself, in front of the rename
			if best == nil && fn != rnFn {
				for _, cs := range findCalls(rnFn, st.callee) {
					call := cs.value()
					if call == nil {
						continue
					}
					want := resolve(src)
					if st.onFile {
						want = tmpFile
					}
					if liftPhase(L, phaseHelpers, cs.arg(0)) != want {
						continue
					}
					if ok, w := checkedBefore(call, rn.instr); ok {
						best, why = call, "inside "+rnFn.Name()+": "+w
						break
					} else {
						why = w
					}
				}
			}
			// the step may live in a private helper that receives the temporary file: the helper performs it (checked, before
			// each of its success returns) and the helper's own error is checked before the rename
			if best == nil && st.onFile {
				for _, hc := range callsIn(fn) {
					h := hc.common.StaticCallee()
					if h == nil || hc.value() == nil || len(h.Blocks) == 0 || h.Pkg != fn.Pkg || errorResultIndex(h) < 0 {
						continue
					}
					pidx := -1
					for i, a := range hc.common.Args {
						if resolve(a) == tmpFile && i < len(h.Params) {
							pidx = i
						}
					}
					for _, sc := range findCalls(h, st.callee) {
						if sc.value() == nil {
							continue
						}
						viaParam := pidx >= 0 && resolve(sc.arg(0)) == ssa.Value(h.Params[pidx])
						// or the helper is a method of a carrier struct that holds the file (staged.close())
						viaCarrier := pidx < 0 && liftPhase(L, phaseHelpers, sc.arg(0)) == tmpFile
						if !viaParam && !viaCarrier {
							continue
						}
						okAll := true
						for _, r := range returnsOf(h) {
							if returnsNilError(r) {
								if ok, _ := checkedBefore(sc.value(), r); !ok {
									okAll = false
								}
							}
						}
						if okR, _ := errorBranchReturnsNonNil(sc.value()); !okR {
							okAll = false
						}
						if !okAll {
							continue
						}
						if ok, w := checkedBefore(hc.value(), rnAt); ok {
							best, why = hc.value(), "through "+h.Name()+" (step checked before each of its success returns; "+w+")"
							helperSteps[st.callee] = sc.value()
							if pidx >= 0 {
								stepHelpers[h] = pidx
							}
						}
					}
				}
			}
			construct := fmt.Sprintf("%s:%s-before-Rename", name, st.callee)
			if best == nil {
				if why == "" {
					why = "no such call on the temporary file in this function"
				}
				c.fail("C15.1", construct, L.pos(rnAt.Pos()), fmt.Sprintf("%s with a checked error does not precede os.Rename on every path", st.callee), why)
				continue
			}
			found[st.callee] = best
			c.ok("C15.1", fmt.Sprintf("%s: %s must-precede Rename, error checked", name, st.callee), why)
			if ok, why := errorBranchReturnsNonNil(best); ok {
				c.ok("C15.5", fmt.Sprintf("%s: failure of %s is reported", name, st.callee), why)
			} else {
				c.fail("C15.5", fmt.Sprintf("%s:%s-error-reported", name, st.callee), L.pos(best.Pos()), fmt.Sprintf("a failing %s does not make the function return a non-nil error", st.callee), why)
			}
		}
		// order Write < Sync < Close
		order := []string{"(*os.File).Write", "(*os.File).Sync", "(*os.File).Close"}
		for i := 0; i+1 < len(order); i++ {
			a, b := found[order[i]], found[order[i+1]]
			if a == nil || b == nil {
				continue
			}
			if a == b && helperSteps[order[i]] != nil && helperSteps[order[i+1]] != nil {
				a, b = helperSteps[order[i]], helperSteps[order[i+1]] // both inside the same helper: order them there
			}
			if a.Parent() != b.Parent() {
				// one of them sits in the publishing helper: order its call in fn
				if a.Parent() == rnFn && fn != rnFn {
					a = rnSite.value()
				}
				if b.Parent() == rnFn && fn != rnFn {
					b = rnSite.value()
				}
			}
			c.check(instrDominates(a, b), "C15.1", fmt.Sprintf("%s:%s-before-%s", name, order[i], order[i+1]), L.pos(b.Pos()),
				fmt.Sprintf("%s: %s precedes %s", name, order[i], order[i+1]), fmt.Sprintf("block %d dominates block %d", a.Block().Index, b.Block().Index))
		}
		// no content mutation of the temp file after Sync
		if sy := found["(*os.File).Sync"]; sy != nil {
			for _, cs := range callsIn(fn) {
				if fileMutatorMethods[cs.callee] && resolve(cs.arg(0)) == tmpFile && cs.value() != nil && sy.Parent() == fn && reachableAfter(sy, cs.instr) {
					c.fail("C15.1", name+":write-after-Sync", L.pos(cs.instr.Pos()), cs.callee+" on the temporary file can execute after Sync (unsynced content would be published)")
				}
			}
			c.ok("C15.1", name+": no write to the temporary file is reachable after Sync", "all (*os.File) mutator calls on the temp file checked for reachability from the Sync block")
		}
		// Chmod mode is the package's FileMode constant (0o644)
		if ch := found["os.Chmod"]; ch != nil {
			mode, ok := constInt(ch.Common().Args[1])
			c.check(ok && mode == 0o644, "C15.1", name+":Chmod.mode", L.pos(ch.Pos()), name+": final permissions 0644 are set on the temporary file before it is published", fmt.Sprintf("constant mode %#o", mode))
		}
		// CreateTemp itself checked before everything
		if ok, why := checkedBefore(ctSite, rnAt); ok {
			c.ok("C15.1", name+": CreateTemp error checked before use", why)
		} else {
			c.fail("C15.1", name+":CreateTemp-checked", L.pos(ctSite.Pos()), "os.CreateTemp's error is not checked before the rename", why)
		}
		if ok, why := errorBranchReturnsNonNil(ctSite); ok {
			c.ok("C15.5", name+": failure of os.CreateTemp is reported", why)
		} else {
			c.fail("C15.5", name+":os.CreateTemp-error-reported", L.pos(ct.Pos()), "a failing os.CreateTemp does not make the function return a non-nil error", why)
		}
		// rename failure reported
		if ok, why := errorBranchReturnsNonNil(rnCall); ok {
			c.ok("C15.5", name+": failure of os.Rename is reported", why)
		} else {
			c.fail("C15.5", name+":os.Rename-error-reported", L.pos(rnCall.Pos()), "a failing os.Rename does not make the function return a non-nil error", why)
		}

		// C15.2 same directory: dst = Join(dir, base) with dir == CreateTemp's dir
		elems, ok := joinElems(dst)
		if !ok || len(elems) != 2 {
			c.fail("C15.2", name+":Rename.dst", L.pos(rn.instr.Pos()), "the rename destination is not filepath.Join(<temp dir>, <file name>)", "destination is "+describe(dst))
		} else {
			c.check(sameValue(elems[0], liftPhase(L, phaseHelpers, ct.Common().Args[0])), "C15.2", name+":same-directory", L.pos(ct.Pos()),
				name+": temporary file is created in the directory of the destination (rename stays inside one directory)",
				"CreateTemp.dir and Join.elem0 are the same SSA value: "+describe(elems[0]))
			// the base name must be a bare file name: parameter whose every actual is filepath.Base(...)
			base := resolve(elems[1])
			if par, isPar := base.(*ssa.Parameter); isPar {
				nSites, bad := 0, ""
				for _, caller := range llmFuncs(L) {
					for _, f2 := range withClosures(caller) {
						for _, cs := range callsIn(f2) {
							if cs.common.StaticCallee() == fn {
								nSites++
								idx := paramIndex(fn, par)
								if callResultOf(cs.arg(idx), "path/filepath.Base", 0) == nil {
									bad = L.pos(cs.instr.Pos()) + ": argument is " + describe(cs.arg(idx))
								}
							}
						}
					}
				}
				if nSites == 0 {
					c.undecided("C15.2", name+":basename-callers", "no static caller of the publishing function found")
				} else {
					c.check(bad == "", "C15.2", name+":basename", L.pos(rn.instr.Pos()), name+": destination file name is a bare base name at every call site", fmt.Sprintf("%d call site(s) pass filepath.Base(...) %s", nSites, bad))
				}
			} else if callResultOf(base, "path/filepath.Base", 0) != nil {
				c.ok("C15.2", name+": destination file name is filepath.Base(...)", "direct")
			} else {
				c.fail("C15.2", name+":basename", L.pos(rn.instr.Pos()), "destination file name is not known to be a bare base name", describe(base))
			}
		}
		if pat, ok := constString(ct.Common().Args[1]); ok {
			c.check(!strings.ContainsAny(pat, "/\\"), "C15.2", name+":CreateTemp.pattern", L.pos(ct.Pos()), name+": CreateTemp pattern has no path separator", fmt.Sprintf("pattern %q", pat))
		} else {
			c.fail("C15.2", name+":CreateTemp.pattern", L.pos(ct.Pos()), "CreateTemp pattern is not a constant")
		}

		// C15.4 deferred cleanup
		c15Defer(c, fn, ctSite, resolve(src), tmpFile)
	}

	// C15.3 single writer of the final name: every mutator call in the package takes the target dir, the temp name,
	// or (Rename only) the destination.
	nMut := 0
	for _, fn := range fns {
		for _, f2 := range []*ssa.Function{fn} {
			for _, cs := range callsIn(f2) {
				if fileMutatorMethods[cs.callee] {
					nMut++
					okFile := false
					for _, tf := range tempFiles {
						if liftPhase(L, phaseHelpers, cs.arg(0)) == tf {
							okFile = true
						}
					}
					for _, w := range []*ssa.Function{f2, f2.Parent()} {
						if w == nil {
							continue
						}
						if pidx, isH := stepHelpers[w]; isH {
							if p, isP := resolve(cs.arg(0)).(*ssa.Parameter); isP && pidx < len(w.Params) && p == w.Params[pidx] {
								okFile = true // the helper's file parameter is the temporary file at every call site checked above
							}
							if fv, isFV := cs.arg(0).(*ssa.FreeVar); isFV {
								if b := freeVarBinding(fv); b != nil {
									if p, isP := resolve(b).(*ssa.Parameter); isP && p == w.Params[pidx] {
										okFile = true
									}
								}
							}
						}
					}
					c.check(okFile, "C15.3", fnName(f2)+":"+cs.callee, L.pos(cs.instr.Pos()), fnName(f2)+": "+cs.callee+" writes only to the temporary file", "receiver is "+describe(cs.arg(0)))
					continue
				}
				idxs, isMut := fsMutators[cs.callee]
				if !isMut {
					continue
				}
				nMut++
				for _, i := range idxs {
					if cs.callee == "os.Rename" && i == 1 {
						continue // the one publishing write
					}
					a := liftPhase(L, phaseHelpers, cs.arg(i))
					allowed := ""
					for _, t := range tempNames {
						if a == t {
							allowed = "temporary file name"
						}
					}
					for _, d := range targetDirs {
						if a == d {
							allowed = "target directory"
						}
					}
					c.check(allowed != "", "C15.3", fmt.Sprintf("%s:%s.arg%d", fnName(f2), cs.callee, i), L.pos(cs.instr.Pos()),
						fmt.Sprintf("%s: %s operates on the temporary file or the target directory, never on the final name", fnName(f2), cs.callee),
						"argument is "+describe(cs.arg(i))+" ("+allowed+")")
				}
			}
		}
	}
	c.floor("C15.3", "filesystem mutator call sites in internal/llmsetup", nMut, 5)

	// C15.6 a re-run completes an interrupted installation: Install has no success path around the walk
	ruleInstallWalksBeforeSuccess(c, "C15.6", L.fn(llmPkg, "Install"))
	ruleDestinationNotInspected(c, "C15.7")

	// C15.5 propagation up to the command: callers of publishing functions, of Install, and the Run methods
	c15Propagation(c, fns, pubs0(pubs))
}

func pubs0[T any](p []T) int { return len(p) }

func paramIndex(fn *ssa.Function, p *ssa.Parameter) int {
	for i, q := range fn.Params {
		if q == p {
			return i
		}
	}
	return -1
}

// c15Defer checks the deferred cleanup closure.
func c15Defer(c *Ctx, fn *ssa.Function, ct *ssa.Call, src ssa.Value, tmpFile ssa.Value) {
	L := c.L
	name := fnName(fn)
	var def *ssa.Defer
	var closure *ssa.Function
	var remove callSite
	for _, b := range fn.Blocks {
		for _, in := range b.Instrs {
			d, ok := in.(*ssa.Defer)
			if !ok {
				continue
			}
			mc, ok := d.Call.Value.(*ssa.MakeClosure)
			if !ok {
				continue
			}
			cl := mc.Fn.(*ssa.Function)
			for _, cs := range findCalls(cl, "os.Remove") {
				if resolve(cs.arg(0)) == src {
					def, closure, remove = d, cl, cs
				}
			}
		}
	}
	// the removal may sit in a method the deferred closure calls (staged.release(retErr != nil)): found there with its
	// argument read at the call, and its guard read as the condition the closure passes in
	var viaMethod *ssa.Function
	var methodCall callSite
	if def == nil {
		for _, b := range fn.Blocks {
			for _, in := range b.Instrs {
				d, ok := in.(*ssa.Defer)
				if !ok {
					continue
				}
				mc, ok := d.Call.Value.(*ssa.MakeClosure)
				if !ok {
					continue
				}
				cl := mc.Fn.(*ssa.Function)
				for _, hc := range callsIn(cl) {
					h := hc.common.StaticCallee()
					if h == nil || h.Pkg != fn.Pkg || len(h.Blocks) == 0 {
						continue
					}
					for _, cs := range findCalls(h, "os.Remove") {
						if liftPhase(L, map[*ssa.Function]bool{}, cs.arg(0)) == src {
							def, closure, remove = d, cl, cs
							viaMethod, methodCall = h, hc
						}
					}
				}
			}
		}
	}
	if def == nil {
		c.fail("C15.4", name+":deferred-cleanup", L.pos(fn.Pos()), "no deferred closure removes the temporary file (os.Remove(<temp name>))")
		return
	}
	c.seen(fnName(closure))
	// (i) registered directly after the successful CreateTemp: no fallible call in between, and it dominates all later returns
	ev := errorResult(ct)
	var onNil *ssa.BasicBlock
	for _, t := range nilTestsOf(ev) {
		// the test in this function (a returned error also reaches the named result, which the deferred closure tests)
		if t.ifInstr.Parent() != fn {
			continue
		}
		if onNil == nil || t.ifInstr.Block().Dominates(onNil) {
			onNil = t.onNil
		}
	}
	if onNil == nil {
		c.undecided("C15.4", name+":defer-position", "cannot find the success edge of os.CreateTemp")
		return
	}
	okPos := def.Block() == onNil || onNil.Dominates(def.Block())
	between := []string{}
	for _, b := range fn.Blocks {
		for _, in := range b.Instrs {
			call, ok := in.(*ssa.Call)
			if !ok || call == ct {
				continue
			}
			if instrDominates(ct, call) && instrDominates(call, def) {
				callee := calleeOf(call.Common())
				// a call that cannot fail and cannot leave the function is harmless here: standard-library functions
				// without an error result that only compute on their arguments (tmp.Name(), filepath.Join(...))
				harmless := callee == "(*os.File).Name"
				if sc := call.Common().StaticCallee(); sc != nil && errorResultIndex(sc) < 0 {
					switch fnPkgPath(sc) {
					case "path/filepath", "path", "strings", "strconv", "fmt":
						if sc.Name() != "Print" && sc.Name() != "Printf" && sc.Name() != "Println" {
							harmless = true
						}
					}
				}
				if !harmless {
					between = append(between, callee)
				}
			}
		}
	}
	for _, r := range returnsOf(fn) {
		if (onNil == r.Block() || onNil.Dominates(r.Block())) && !instrDominates(def, r) {
			okPos = false
			between = append(between, fmt.Sprintf("return in block %d is not covered by the defer", r.Block().Index))
		}
	}
	c.check(okPos && len(between) == 0, "C15.4", name+":defer-position", L.pos(def.Pos()),
		name+": cleanup is registered immediately after the successful CreateTemp and covers every later return",
		fmt.Sprintf("defer in block %d, CreateTemp success edge enters block %d; calls in between: %v", def.Block().Index, onNil.Index, between))

	// (ii) Remove runs iff the named result is non-nil
	okCond, why := false, "os.Remove is not guarded by a test of the function's error result"
	if viaMethod != nil {
		// in the method: the removal is guarded by exactly one bool parameter; at the call: that parameter is
		// `<named result> != nil`; the call is reached on every path through the closure
		var flag *ssa.Parameter
		for _, iff := range controllingIfs(remove.instr) {
			if prm, isP := iff.Cond.(*ssa.Parameter); isP && prm.Parent() == viaMethod && (iff.Block().Succs[0] == remove.instr.Block() || iff.Block().Succs[0].Dominates(remove.instr.Block())) {
				flag = prm
			}
		}
		if flag != nil {
			idx := paramIndex(viaMethod, flag)
			if idx >= 0 && idx < len(methodCall.common.Args) {
				if bo, isB := methodCall.common.Args[idx].(*ssa.BinOp); isB && bo.Op == token.NEQ && (isNilConst(bo.X) || isNilConst(bo.Y)) {
					other := bo.X
					if isNilConst(bo.X) {
						other = bo.Y
					}
					if lu, isL := other.(*ssa.UnOp); isL && lu.Op == token.MUL {
						al := allocOf(lu.X)
						named := al != nil && al.Parent() == fn
						for _, r := range returnsOf(fn) {
							if len(r.Results) == 0 {
								named = false
								continue
							}
							l2, ok := r.Results[len(r.Results)-1].(*ssa.UnOp)
							if !ok || l2.Op != token.MUL || allocOf(l2.X) != al {
								named = false
							}
						}
						always := true
						for _, r := range returnsOf(closure) {
							if !instrDominates(methodCall.instr, r) {
								always = false
							}
						}
						if named && always {
							okCond, why = true, fmt.Sprintf("%s removes the file under its parameter %s, which the deferred closure passes as `%s != nil`; every return of %s loads that variable", viaMethod.Name(), flag.Name(), al.Comment, name)
						}
					}
				}
			}
		}
	}
	for _, b := range closure.Blocks {
		for _, in := range b.Instrs {
			u, ok := in.(*ssa.UnOp)
			if !ok || u.Op != token.MUL {
				continue
			}
			al := allocOf(u.X)
			if al == nil || al.Parent() != fn || !isErrorType(al.Type().Underlying().(*types.Pointer).Elem()) {
				continue
			}
			for _, t := range nilTestsOf(u) {
				rb := remove.instr.Block()
				guarded := (t.onErr == rb || t.onErr.Dominates(rb)) && !reachable(t.onNil, rb)
				// the test itself must be reached on every path through the closure
				always := true
				for _, r := range returnsOf(closure) {
					if !(t.ifInstr.Block() == r.Block() || t.ifInstr.Block().Dominates(r.Block())) {
						always = false
					}
				}
				if guarded && always {
					// al must be the named result: every return of fn yields a load of it
					named := true
					for _, r := range returnsOf(fn) {
						if len(r.Results) == 0 {
							named = false
							continue
						}
						lu, ok := r.Results[len(r.Results)-1].(*ssa.UnOp)
						if !ok || lu.Op != token.MUL || allocOf(lu.X) != al {
							named = false
						}
					}
					if named {
						okCond = true
						why = fmt.Sprintf("closure block %d tests the named result %q; os.Remove in block %d is dominated by the non-nil edge; every return of %s loads that variable", t.ifInstr.Block().Index, al.Comment, rb.Index, name)
					} else {
						why = "the variable tested by the cleanup is not the value the function returns"
					}
				}
			}
		}
	}
	// the same condition kept in a success flag instead of a named result: `done := false; defer func() { if !done { remove } }();
	// ...; done = true; return nil` - the flag is set on the way to every successful return and on no way to a failing one
	if !okCond {
		for _, b := range closure.Blocks {
			for _, in := range b.Instrs {
				u, ok := in.(*ssa.UnOp)
				if !ok || u.Op != token.MUL {
					continue
				}
				al := allocOf(u.X)
				if al == nil || al.Parent() != fn || al.Type().Underlying().(*types.Pointer).Elem().String() != "bool" || u.Referrers() == nil {
					continue
				}
				// the test `!flag`: go/ssa either keeps the negation or swaps the branches of `if flag`
				type flagTest struct {
					iff     *ssa.If
					negated bool
				}
				var tests []flagTest
				for _, r := range *u.Referrers() {
					switch x := r.(type) {
					case *ssa.If:
						tests = append(tests, flagTest{x, false})
					case *ssa.UnOp:
						if x.Op == token.NOT && x.Referrers() != nil {
							for _, rr := range *x.Referrers() {
								if iff, isIf := rr.(*ssa.If); isIf {
									tests = append(tests, flagTest{iff, true})
								}
							}
						}
					}
				}
				for _, ft := range tests {
					{
						iff := ft.iff
						rb := remove.instr.Block()
						thn, els := iff.Block().Succs[0], iff.Block().Succs[1]
						if !ft.negated {
							thn, els = els, thn // the removal sits on the flag-is-false edge
						}
						guarded := (thn == rb || thn.Dominates(rb)) && !reachable(els, rb)
						always := true
						for _, ret := range returnsOf(closure) {
							if !(iff.Block() == ret.Block() || iff.Block().Dominates(ret.Block())) {
								always = false
							}
						}
						if !guarded || !always {
							continue
						}
						// the flag in fn: only constants are stored; `true` only where nothing but success returns follow;
						// every success return after the defer was registered has passed a `true` store
						okFlag, whyFlag := true, ""
						var trues []*ssa.Store
						for _, st := range storesTo(al) {
							k, isC := st.Val.(*ssa.Const)
							if !isC || st.Parent() != fn {
								okFlag, whyFlag = false, "the flag is assigned "+describe(st.Val)
								continue
							}
							if k.Value != nil && k.Value.String() == "true" {
								trues = append(trues, st)
							}
						}
						var deferAt ssa.Instruction
						for _, b2 := range fn.Blocks {
							for _, in2 := range b2.Instrs {
								if d, isD := in2.(*ssa.Defer); isD {
									if mc, isMC := d.Call.Value.(*ssa.MakeClosure); isMC && mc.Fn == ssa.Value(closure) {
										deferAt = d
									}
								}
							}
						}
						for _, st := range trues {
							for _, ret := range returnsOf(fn) {
								if reachableAfter(st, ret) && !returnsNilError(ret) {
									okFlag, whyFlag = false, "a failing return is reachable after the flag was set"
								}
							}
						}
						for _, ret := range returnsOf(fn) {
							if deferAt == nil || !instrDominates(deferAt, ret) || !returnsNilError(ret) {
								continue
							}
							dom := false
							for _, st := range trues {
								if instrDominates(st, ret) {
									dom = true
								}
							}
							if !dom {
								okFlag, whyFlag = false, "a successful return does not pass the store that sets the flag"
							}
						}
						if okFlag && len(trues) > 0 && deferAt != nil {
							okCond = true
							why = fmt.Sprintf("the removal is guarded by !%s, a flag set (to true) on the way to every successful return and on no way to a failing one", al.Comment)
						} else if whyFlag != "" {
							why = whyFlag
						}
					}
				}
			}
		}
	}
	c.check(okCond, "C15.4", name+":cleanup-condition", L.pos(remove.instr.Pos()), name+": temporary file is removed exactly when the function fails", why)

	// (iii) the cleanup never replaces an error that is already set: a store into the named result inside the deferred closure
	// is only allowed under a test that the result is still nil
	for _, b := range closure.Blocks {
		for _, in := range b.Instrs {
			st, ok := in.(*ssa.Store)
			if !ok {
				continue
			}
			al := allocOf(st.Addr)
			if al == nil || al.Parent() != fn || !isErrorType(al.Type().Underlying().(*types.Pointer).Elem()) {
				continue
			}
			guarded := false
			for _, iff := range controllingIfs(st) {
				if bo, isB := iff.Cond.(*ssa.BinOp); isB && (bo.Op == token.EQL || bo.Op == token.NEQ) && (isNilConst(bo.X) || isNilConst(bo.Y)) {
					other := bo.X
					if isNilConst(bo.X) {
						other = bo.Y
					}
					if ld, isL := other.(*ssa.UnOp); isL && allocOf(ld.X) == al {
						nilSide := iff.Block().Succs[0]
						if bo.Op == token.NEQ {
							nilSide = iff.Block().Succs[1]
						}
						if nilSide == st.Block() || nilSide.Dominates(st.Block()) {
							guarded = true
						}
					}
				}
			}
			c.check(guarded, "C15.5", name+":deferred-cleanup-overwrites-error", L.pos(st.Pos()),
				name+": the deferred cleanup does not overwrite the error the function is already returning (a failing write/sync must stay reported)", "store into the named result in the deferred closure: "+describe(st.Val))
		}
	}
}

// c15Propagation: the error of the publishing function reaches the process exit status.
func c15Propagation(c *Ctx, fns []*ssa.Function, _ int) {
	L := c.L
	// every static call (in llmsetup, incl. closures) to a module function that returns error and can reach a mutator
	// must hand the error on. We check the chain by names resolved through the call graph rooted at the publishing functions.
	targets := map[*ssa.Function]bool{}
	for _, fn := range fns {
		if len(findCalls(fn, "os.Rename")) > 0 {
			targets[fn] = true
		}
	}
	checked := 0
	for round := 0; round < 4; round++ {
		next := map[*ssa.Function]bool{}
		for _, fn := range fns {
			for _, f2 := range withClosures(fn) {
				for _, cs := range callsIn(f2) {
					callee := cs.common.StaticCallee()
					if callee == nil {
						continue
					}
					if callee.Origin() != nil {
						callee = callee.Origin()
					}
					isWalk := cs.callee == "io/fs.WalkDir" && walkCallbackIn(cs, targets)
					if !targets[callee] && !isWalk {
						continue
					}
					call := cs.value()
					cons := fmt.Sprintf("%s:call(%s)-error-propagates", fnName(f2), cs.callee)
					if call == nil {
						c.fail("C15.5", cons, L.pos(cs.instr.Pos()), "installer step is deferred/spawned; its error is lost")
						continue
					}
					checked++
					if ok, why := errorBranchReturnsNonNil(call); ok {
						c.ok("C15.5", fmt.Sprintf("%s: error of %s is returned", fnName(f2), cs.callee), why)
					} else if returnsCallDirectly(call) || returnedViaNamedResult(call) {
						c.ok("C15.5", fmt.Sprintf("%s: result of %s is returned directly", fnName(f2), cs.callee), "return operand is the call")
					} else if errorComponentOnEveryReturn(call) {
						c.ok("C15.5", fmt.Sprintf("%s: error of %s is the error operand of every return after the call", fnName(f2), cs.callee), "unconditional hand-over (`x, err := f(); report(x, err); return err`)")
					} else {
						c.fail("C15.5", cons, L.pos(cs.instr.Pos()), fmt.Sprintf("the error of %s is not passed on by %s", cs.callee, fnName(f2)), why)
					}
					top := f2
					for top.Parent() != nil {
						top = top.Parent()
					}
					if top.Origin() != nil {
						top = top.Origin()
					}
					next[f2] = true
					next[top] = true
				}
			}
		}
		grew := false
		for f := range next {
			if !targets[f] {
				targets[f] = true
				grew = true
			}
		}
		if !grew {
			break
		}
	}
	c.floor("C15.5", "error hand-over sites between InstallFile and the command's Run method", checked, 3)
	// a Run method must be among the propagating functions
	hasRun := false
	for f := range targets {
		if f.Name() == "Run" {
			hasRun = true
		}
	}
	c.check(hasRun, "C15.5", "llmsetup:Run-reaches-installer", "-", "a kong Run method of internal/llmsetup is on the error chain of the installer", "call chain InstallFile <- walk callback <- Install <- AgentCmd.Run")
	c15Main(c, "C15.5")
}

// walkCallbackIn: the fs.WalkDir call's callback (a closure) is one of the target functions.
func walkCallbackIn(cs callSite, targets map[*ssa.Function]bool) bool {
	for _, a := range cs.common.Args {
		if mc, ok := resolve(a).(*ssa.MakeClosure); ok {
			f := mc.Fn.(*ssa.Function)
			if targets[f] {
				return true
			}
			// a method value (copier.visit): the callback is the method behind the bound wrapper
			if strings.HasPrefix(f.Synthetic, "bound method wrapper") {
				if m, ok := f.Object().(*types.Func); ok {
					if mf := f.Prog.FuncValue(m); mf != nil && targets[mf] {
						return true
					}
				}
			}
		}
	}
	return false
}

// errorComponentOnEveryReturn: the error component of the call is, unchanged, the last operand of every return that can follow the
// call (`x, err := f(); report(x, err); return err`): nothing between the call and the return can turn a failure into a nil.
func errorComponentOnEveryReturn(call *ssa.Call) bool {
	if call.Referrers() == nil {
		return false
	}
	var errv ssa.Value
	res := call.Common().Signature().Results()
	switch {
	case res.Len() == 1 && isErrorType(res.At(0).Type()):
		errv = call
	case res.Len() > 1 && isErrorType(res.At(res.Len()-1).Type()):
		for _, r := range *call.Referrers() {
			if ex, ok := r.(*ssa.Extract); ok && ex.Index == res.Len()-1 {
				if errv != nil {
					return false
				}
				errv = ex
			}
		}
	}
	if errv == nil {
		return false
	}
	n := 0
	for _, ret := range returnsOf(call.Parent()) {
		if !reachableAfter(call, ret) {
			continue
		}
		if len(ret.Results) == 0 || ret.Results[len(ret.Results)-1] != errv {
			return false
		}
		n++
	}
	return n > 0
}

func returnsCallDirectly(call *ssa.Call) bool {
	if call.Referrers() == nil {
		return false
	}
	// `return f()` with a multi-value f: every component is extracted into the same return, in order
	if n := call.Common().Signature().Results().Len(); n > 1 {
		var ret *ssa.Return
		cnt := 0
		for _, r := range *call.Referrers() {
			ex, ok := r.(*ssa.Extract)
			if !ok || ex.Referrers() == nil {
				return false
			}
			for _, rr := range *ex.Referrers() {
				rt := returnFedBy(ex, rr, ex.Index)
				if rt == nil || (ret != nil && rt != ret) {
					return false
				}
				ret = rt
				cnt++
			}
		}
		return ret != nil && cnt == n
	}
	for _, r := range *call.Referrers() {
		if ret, ok := r.(*ssa.Return); ok {
			for _, res := range ret.Results {
				if res == call {
					return true
				}
			}
		}
	}
	return false
}

// c15Main: main() turns a non-nil error of config.Run into a non-zero exit status; config.Run returns kong's Run result.
func c15Main(c *Ctx, rule string) {
	L := c.L
	mainFn := L.fn(mainPkg, "main")
	if mainFn == nil {
		c.undecided(rule, "main", "cmd/kessoku.main not found")
		return
	}
	c.seen(fnName(mainFn))
	okExit := false
	why := "no call to config.Run whose non-nil error leads to os.Exit(non-zero)"
	for _, cs := range callsIn(mainFn) {
		if cs.callee != cfgPkg+".Run" || cs.value() == nil {
			continue
		}
		for _, t := range nilTestsOf(errorResult(cs.value())) {
			for _, ex := range findCalls(mainFn, "os.Exit") {
				code, isConst := constInt(ex.arg(0))
				if isConst && code != 0 && (t.onErr == ex.instr.Block() || t.onErr.Dominates(ex.instr.Block())) {
					// every path from onErr must reach the exit: the exit block must post-dominate; approximate: onErr has no path to a Return avoiding the exit block
					if !reachableAvoiding(t.onErr, ex.instr.Block()) {
						okExit = true
						why = fmt.Sprintf("main block %d: error edge reaches os.Exit(%d) on every path", t.onErr.Index, code)
					}
				}
			}
		}
	}
	if !okExit {
		// main() { if code := run(...); code != 0 { os.Exit(code) } }: the helper turns the error into a non-zero code
		for _, h := range family(L, mainFn) {
			if h == mainFn || h.Parent() != nil {
				continue
			}
			for _, cs := range callsIn(h) {
				if cs.callee != cfgPkg+".Run" || cs.value() == nil {
					continue
				}
				if okCode, _ := errorEdgeReturnsNonZeroCode(cs.value()); !okCode {
					continue
				}
				for _, mc := range callsIn(mainFn) {
					if cal := mc.common.StaticCallee(); cal == nil || cal != h || mc.value() == nil {
						continue
					}
					code := mc.value()
					for _, ex := range findCalls(mainFn, "os.Exit") {
						if resolve(ex.arg(0)) != ssa.Value(code) {
							continue
						}
						// the exit is reached whenever the code is not zero: its only guards are `code != 0`
						guarded := true
						for _, iff := range controllingIfs(ex.instr) {
							bo, isB := iff.Cond.(*ssa.BinOp)
							if !isB || bo.Op != token.NEQ || resolve(bo.X) != ssa.Value(code) {
								guarded = false
								continue
							}
							if z, isC := constInt(bo.Y); !isC || z != 0 || !(iff.Block().Succs[0] == ex.instr.Block() || iff.Block().Succs[0].Dominates(ex.instr.Block())) {
								guarded = false
							}
						}
						if guarded {
							okExit = true
							why = fmt.Sprintf("%s returns a non-zero code on the error edge of config.Run; main exits with that code whenever it is not zero", fnName(h))
							c.seen(fnName(h))
						}
					}
				}
			}
		}
	}
	c.check(okExit, rule, "cmd/kessoku.main:exit-status", L.pos(mainFn.Pos()), "main exits with a non-zero status when the command returns an error", why)

	runFn := L.fn(cfgPkg, "Run")
	if runFn == nil {
		c.undecided(rule, "config.Run", "internal/config.Run not found")
		return
	}
	c.seen(fnName(runFn))
	okRun := false
	for _, cs := range callsIn(runFn) {
		if cs.callee == "(*github.com/alecthomas/kong.Context).Run" && cs.value() != nil && returnsCallDirectly(cs.value()) {
			okRun = true
		}
	}
	c.check(okRun, rule, "internal/config.Run:returns-kong-result", L.pos(runFn.Pos()), "config.Run returns the error of the selected command's Run method", "return operand is (*kong.Context).Run(...)")
}

// reachableAvoiding: is a function exit (Return / no successors) reachable from `from` without entering `avoid`?
func reachableAvoiding(from, avoid *ssa.BasicBlock) bool {
	seen := map[*ssa.BasicBlock]bool{}
	var walk func(b *ssa.BasicBlock) bool
	walk = func(b *ssa.BasicBlock) bool {
		if b == avoid || seen[b] {
			return false
		}
		seen[b] = true
		if len(b.Succs) == 0 {
			return true
		}
		for _, s := range b.Succs {
			if walk(s) {
				return true
			}
		}
		return false
	}
	return walk(from)
}

// returnFedBy: referrer `use` of value v hands v to position idx of a Return, either directly or through the
// function's spilled result variable (`*res = v; ...; t = *res; return ..., t`) within one block.
func returnFedBy(v ssa.Value, use ssa.Instruction, idx int) *ssa.Return {
	switch u := use.(type) {
	case *ssa.Return:
		if idx < len(u.Results) && u.Results[idx] == v {
			return u
		}
	case *ssa.Store:
		if u.Val != v {
			return nil
		}
		al := allocOf(u.Addr)
		if al == nil {
			return nil
		}
		after := false
		for _, in := range u.Block().Instrs {
			if in == ssa.Instruction(u) {
				after = true
				continue
			}
			if !after {
				continue
			}
			if st, ok := in.(*ssa.Store); ok && allocOf(st.Addr) == al {
				return nil
			}
			if rt, ok := in.(*ssa.Return); ok {
				if idx < len(rt.Results) {
					if l, ok := rt.Results[idx].(*ssa.UnOp); ok && l.Op == token.MUL && allocOf(l.X) == al {
						return rt
					}
				}
				return nil
			}
		}
	}
	return nil
}

// errorEdgeReturnsNonZeroCode: the caller of `call` has a single int result, and every return reachable from the
// error edge of the call's error test returns a non-zero constant (an exit code).
func errorEdgeReturnsNonZeroCode(call *ssa.Call) (bool, string) {
	fn := call.Parent()
	res := fn.Signature.Results()
	if res.Len() != 1 || res.At(0).Type().String() != "int" {
		return false, "the caller does not return an exit code"
	}
	ev := errorResult(call)
	if ev == nil {
		return false, "no error result kept"
	}
	tests := nilTestsOf(ev)
	if len(tests) == 0 {
		return false, "error never tested"
	}
	for _, t := range tests {
		seen := map[*ssa.BasicBlock]bool{}
		n := 0
		var walk func(b *ssa.BasicBlock) bool
		walk = func(b *ssa.BasicBlock) bool {
			if seen[b] {
				return true
			}
			seen[b] = true
			if len(b.Instrs) > 0 {
				if r, ok := b.Instrs[len(b.Instrs)-1].(*ssa.Return); ok {
					n++
					k, isC := constInt(r.Results[0])
					return isC && k != 0
				}
			}
			for _, s := range b.Succs {
				if !walk(s) {
					return false
				}
			}
			return true
		}
		if !walk(t.onErr) || n == 0 {
			return false, fmt.Sprintf("a return reachable from the error edge (block %d) does not return a non-zero constant", t.onErr.Index)
		}
	}
	return true, "every return on the error edge returns a non-zero exit code"
}

// llmCallSites: the static call sites of fn in internal/llmsetup (closures included).
func llmCallSites(L *Loaded, fn *ssa.Function) []callSite {
	var out []callSite
	for _, g := range llmFuncs(L) {
		for _, cs := range callsIn(g) {
			if cal := cs.common.StaticCallee(); cal != nil && originOf(cal) == fn {
				out = append(out, cs)
			}
		}
	}
	return out
}

// publishRoot: the function in which the published temporary file is created. When the rename's source is a parameter of
// its function and that function has one call site, the caller is the publishing function and the call is its publishing
// step; returns that function, the call, and the rename's source and destination as values of that function.
func publishRoot(L *Loaded, rnFn *ssa.Function, rn callSite) (*ssa.Function, callSite, ssa.Value, ssa.Value) {
	fn, site, src, dst := rnFn, rn, rn.arg(0), rn.arg(1)
	for depth := 0; depth < 2; depth++ {
		p, isP := resolve(src).(*ssa.Parameter)
		if !isP || p.Parent() != fn {
			break
		}
		sites := llmCallSites(L, fn)
		if len(sites) != 1 || sites[0].value() == nil {
			break
		}
		up := sites[0]
		src = up.arg(paramIndex(fn, p))
		if q, isQ := resolve(dst).(*ssa.Parameter); isQ && q.Parent() == fn {
			dst = up.arg(paramIndex(fn, q))
		}
		fn, site = up.fn, up
	}
	return fn, site, src, dst
}

// createTempThroughHelper: v is result #i of a call to a package helper whose success returns all yield, at #i, the file of
// one os.CreateTemp call. Returns that inner call and the helper's call.
func createTempThroughHelper(v ssa.Value) (*ssa.Call, *ssa.Call) {
	ex, ok := resolve(v).(*ssa.Extract)
	if !ok {
		return nil, nil
	}
	hc, ok := ex.Tuple.(*ssa.Call)
	if !ok {
		return nil, nil
	}
	h := hc.Common().StaticCallee()
	if h == nil || len(h.Blocks) == 0 || h.Pkg != hc.Parent().Pkg || errorResultIndex(h) < 0 {
		return nil, nil
	}
	var ct *ssa.Call
	for _, r := range returnsOf(h) {
		if !returnsNilError(r) || ex.Index >= len(r.Results) {
			continue
		}
		c := callResultOf(r.Results[ex.Index], "os.CreateTemp", 0)
		if c == nil || (ct != nil && c != ct) {
			return nil, nil
		}
		ct = c
	}
	return ct, hc
}

// liftPhase: a parameter of a phase helper is read as the argument at the helper's only call site.
func liftPhase(L *Loaded, helpers map[*ssa.Function]bool, v ssa.Value) ssa.Value {
	v = resolve(v)
	// s.name inside a method of a small carrier struct: the field of the struct the method is called on, when every call
	// site passes the address of one local struct whose field is written once
	if ld, ok := v.(*ssa.UnOp); ok && ld.Op == token.MUL {
		if fa, ok := ld.X.(*ssa.FieldAddr); ok {
			if p, isP := fa.X.(*ssa.Parameter); isP {
				sites := llmCallSites(L, p.Parent())
				var val ssa.Value
				okAll := len(sites) > 0
				for _, cs := range sites {
					idx := paramIndex(p.Parent(), p)
					if idx < 0 || idx >= len(cs.common.Args) {
						okAll = false
						continue
					}
					al, isAl := cs.common.Args[idx].(*ssa.Alloc)
					if !isAl {
						if fv, isFV := cs.common.Args[idx].(*ssa.FreeVar); isFV {
							if b := freeVarBinding(fv); b != nil {
								al, isAl = b.(*ssa.Alloc)
							}
						}
					}
					if !isAl {
						okAll = false
						continue
					}
					st := singleFieldStore(al, fa.Field)
					if st == nil || (val != nil && resolve(st.Val) != val) {
						okAll = false
						continue
					}
					val = resolve(st.Val)
				}
				if okAll && val != nil {
					return val
				}
			}
		}
	}
	for depth := 0; depth < 2; depth++ {
		p, isP := v.(*ssa.Parameter)
		if !isP || !helpers[p.Parent()] {
			break
		}
		sites := llmCallSites(L, p.Parent())
		if len(sites) != 1 {
			break
		}
		v = resolve(sites[0].arg(paramIndex(p.Parent(), p)))
	}
	return v
}

// returnedViaNamedResult: `return f()` in a function with a named error result and deferred calls: the call's error is
// stored into the result variable and the block returns (after running the deferred calls) what that variable holds.
func returnedViaNamedResult(call *ssa.Call) bool {
	if call.Referrers() == nil {
		return false
	}
	for _, r := range *call.Referrers() {
		st, ok := r.(*ssa.Store)
		if !ok || st.Val != ssa.Value(call) {
			continue
		}
		al := allocOf(st.Addr)
		if al == nil {
			continue
		}
		after := false
		for _, in := range st.Block().Instrs {
			if in == ssa.Instruction(st) {
				after = true
				continue
			}
			if !after {
				continue
			}
			switch x := in.(type) {
			case *ssa.RunDefers, *ssa.UnOp, *ssa.DebugRef:
			case *ssa.Return:
				if len(x.Results) > 0 {
					if ld, ok := x.Results[len(x.Results)-1].(*ssa.UnOp); ok && ld.Op == token.MUL && allocOf(ld.X) == al {
						return true
					}
				}
				return false
			default:
				return false
			}
		}
	}
	return false
}
