package main

// Callback-driven loops. A hand-written loop `for _, x := range list { if keep(x) { out = append(out, f(x)) } }` may be
// written with a small helper `collect(list, func(x T) (R, bool) { ... })`. The loop is then in the helper and its body in
// a closure. filterMapHelper recognises such a helper structurally; rules that reason about "the loop over list in fn" then
// take the helper's loop for the loop and the closure for its body (its parameter is the element).

import (
	"go/token"
	"go/types"
	"strings"

	"golang.org/x/tools/go/ssa"
)

type fmHelper struct {
	listIdx, fnIdx int
}

// filterMapHelper: h(items []T, f func(T) (R, bool)) []R whose body is exactly: one loop over items that is left only when
// exhausted; f is called on the current element; its first result is appended to the one result list when, and only when,
// its second result is true; that list is returned. Nothing else is called, stored or sent.
func filterMapHelper(h *ssa.Function) (fmHelper, bool) {
	var zero fmHelper
	h = originOrSelf(h)
	if h == nil || len(h.Blocks) == 0 || !strings.HasPrefix(fnPkgPath(h), modPath) || h.Signature.Results().Len() != 1 {
		return zero, false
	}
	if _, isSlice := h.Signature.Results().At(0).Type().Underlying().(*types.Slice); !isSlice {
		return zero, false
	}
	li, fi := -1, -1
	for i, p := range h.Params {
		switch t := p.Type().Underlying().(type) {
		case *types.Slice:
			if li < 0 {
				li = i
			}
		case *types.Signature:
			if t.Params().Len() == 1 && t.Results().Len() == 2 && t.Results().At(1).Type().String() == "bool" && fi < 0 {
				fi = i
			}
		}
	}
	if li < 0 || fi < 0 {
		return zero, false
	}
	hs, exits := loopExits(h)
	if hs != 1 {
		return zero, false
	}
	for _, e := range exits {
		if ok, _ := allPathsReturnNonNil(e.to, map[*ssa.BasicBlock]bool{}); !ok {
			return zero, false
		}
	}
	var dyn *ssa.Call
	var app *ssa.Call
	for _, b := range h.Blocks {
		for _, in := range b.Instrs {
			switch x := in.(type) {
			case *ssa.Call:
				if bi, isB := x.Common().Value.(*ssa.Builtin); isB {
					switch bi.Name() {
					case "len", "cap":
					case "append":
						if app != nil {
							return zero, false
						}
						app = x
					default:
						return zero, false
					}
					continue
				}
				if p, isP := x.Common().Value.(*ssa.Parameter); isP && p == h.Params[fi] && dyn == nil {
					dyn = x
					continue
				}
				return zero, false
			case *ssa.Store:
				// only the backing array of the variadic append argument
				if ia, ok := x.Addr.(*ssa.IndexAddr); ok {
					if al, ok := ia.X.(*ssa.Alloc); ok && al.Comment == "varargs" {
						continue
					}
				}
				return zero, false
			case *ssa.Go, *ssa.Defer, *ssa.Send, *ssa.MapUpdate, *ssa.Panic:
				return zero, false
			}
		}
	}
	if dyn == nil || app == nil || len(dyn.Common().Args) != 1 {
		return zero, false
	}
	// f is applied to the current element of items
	ld, ok := dyn.Common().Args[0].(*ssa.UnOp)
	if !ok || ld.Op != token.MUL {
		return zero, false
	}
	ia, ok := ld.X.(*ssa.IndexAddr)
	if !ok || ia.X != ssa.Value(h.Params[li]) || !isRangeIndex(ia.Index) {
		return zero, false
	}
	// what is appended is f's first result, under f's second result and nothing else but the loop condition
	elems, ok := variadicElems(app.Common().Args[1])
	if !ok || len(elems) != 1 {
		return zero, false
	}
	e0, ok := elems[0].(*ssa.Extract)
	if !ok || e0.Tuple != ssa.Value(dyn) || e0.Index != 0 {
		return zero, false
	}
	for _, iff := range controllingIfs(app) {
		if ex, isEx := iff.Cond.(*ssa.Extract); isEx && ex.Tuple == ssa.Value(dyn) && ex.Index == 1 {
			if !(iff.Block().Succs[0] == app.Block() || iff.Block().Succs[0].Dominates(app.Block())) {
				return zero, false
			}
			continue
		}
		if bo, isB := iff.Cond.(*ssa.BinOp); isB && bo.Op == token.LSS && strings.HasPrefix(iff.Block().Comment, "rangeindex.loop") {
			continue
		}
		return zero, false
	}
	// the appended-to list is the one returned
	for _, r := range returnsOf(h) {
		v := r.Results[0]
		okRet := false
		switch x := v.(type) {
		case *ssa.Phi:
			for _, e := range x.Edges {
				if e == ssa.Value(app) {
					okRet = true
				}
			}
		case *ssa.Call:
			okRet = x == app
		}
		if !okRet {
			return zero, false
		}
	}
	return fmHelper{li, fi}, true
}

func originOrSelf(f *ssa.Function) *ssa.Function {
	if f != nil && f.Origin() != nil {
		return f.Origin()
	}
	return f
}

// fmLoop: one callback-driven loop in fn: the helper call, the list it walks, and the closure that is its body.
type fmLoop struct {
	call    *ssa.Call
	list    ssa.Value
	body    *ssa.Function // the closure; Params[0] is the element
	helper  *ssa.Function
	closure *ssa.MakeClosure
}

func filterMapLoops(fn *ssa.Function) []fmLoop {
	var out []fmLoop
	for _, cs := range callsIn(fn) {
		cal := cs.common.StaticCallee()
		if cal == nil || cs.value() == nil {
			continue
		}
		h, ok := filterMapHelper(cal)
		if !ok || h.listIdx >= len(cs.common.Args) || h.fnIdx >= len(cs.common.Args) {
			continue
		}
		mc, ok := resolve(cs.common.Args[h.fnIdx]).(*ssa.MakeClosure)
		if !ok {
			continue
		}
		body, ok := mc.Fn.(*ssa.Function)
		if !ok || len(body.Params) != 1 {
			continue
		}
		out = append(out, fmLoop{cs.value(), cs.common.Args[h.listIdx], body, originOrSelf(cal), mc})
	}
	return out
}

// fmKeeps: the returns of a callback body split into "element kept" (second result true) and "element skipped" (false);
// ok is false when some return's flag is not a constant.
func fmKeeps(body *ssa.Function) (kept, skipped []*ssa.Return, ok bool) {
	for _, r := range returnsOf(body) {
		if len(r.Results) != 2 {
			return nil, nil, false
		}
		k, isC := r.Results[1].(*ssa.Const)
		if !isC || k.Value == nil {
			return nil, nil, false
		}
		if k.Value.String() == "true" {
			kept = append(kept, r)
		} else {
			skipped = append(skipped, r)
		}
	}
	return kept, skipped, true
}

// isRangeIndex: v is the running index of a `for i := range` / `for _, x := range` loop (go/ssa: idx = phi[-1, idx+1] + 1).
func isRangeIndex(v ssa.Value) bool {
	// for i := 0; i < n; i++: the induction variable itself (phi[0, i+1] in the loop header)
	if ph, isPhi := v.(*ssa.Phi); isPhi && len(ph.Edges) == 2 {
		zero, step := false, false
		for _, e := range ph.Edges {
			if k, isC := constInt(e); isC && k == 0 {
				zero = true
			} else if inc, isB := e.(*ssa.BinOp); isB && inc.Op == token.ADD && inc.X == ssa.Value(ph) {
				if k, isC := constInt(inc.Y); isC && k == 1 {
					step = true
				}
			}
		}
		if zero && step {
			return true
		}
	}
	bo, ok := v.(*ssa.BinOp)
	if !ok || bo.Op != token.ADD {
		return false
	}
	if k, isC := constInt(bo.Y); !isC || k != 1 {
		return false
	}
	ph, ok := bo.X.(*ssa.Phi)
	if !ok || !strings.HasPrefix(ph.Block().Comment, "rangeindex.loop") {
		return false
	}
	start, self := false, false
	for _, e := range ph.Edges {
		if k, isC := constInt(e); isC && k == -1 {
			start = true
		} else if e == ssa.Value(bo) {
			self = true
		} else {
			return false
		}
	}
	return start && self
}

// firstMatch describes a finder helper: `for _, e := range <list> { if pred(e.<field>) { return e } }; return nil`.
type firstMatch struct {
	listKey  string // field key of the list (read from a parameter), "" when the list is the parameter itself
	pred     string // name of the predicate function
	fieldKey string // field of the element the predicate is applied to ("" when applied to the element itself)
}

// firstMatchHelper recognises a finder by its shape. `h(x) != nil` then means "some element of the list satisfies pred",
// and a use of the result under that test is a use of the first such element.
func firstMatchHelper(h *ssa.Function) (firstMatch, bool) {
	var zero firstMatch
	h = originOrSelf(h)
	if h == nil || len(h.Blocks) == 0 || !strings.HasPrefix(fnPkgPath(h), modPath) || h.Signature.Results().Len() != 1 {
		return zero, false
	}
	if _, isPtr := h.Signature.Results().At(0).Type().Underlying().(*types.Pointer); !isPtr {
		return zero, false
	}
	hs, _ := loopExits(h)
	if hs != 1 {
		return zero, false
	}
	var fm firstMatch
	nElemRet, nNilRet := 0, 0
	for _, r := range returnsOf(h) {
		v := r.Results[0]
		if isNilConst(v) {
			nNilRet++
			continue
		}
		ld, ok := v.(*ssa.UnOp)
		if !ok || ld.Op != token.MUL {
			return zero, false
		}
		ia, ok := ld.X.(*ssa.IndexAddr)
		if !ok || !isRangeIndex(ia.Index) {
			return zero, false
		}
		// the list: a parameter or a field of a parameter
		switch lx := ia.X.(type) {
		case *ssa.Parameter:
		case *ssa.UnOp:
			fa, ok := lx.X.(*ssa.FieldAddr)
			if !ok {
				return zero, false
			}
			if _, isP := fa.X.(*ssa.Parameter); !isP {
				return zero, false
			}
			fm.listKey = fieldKey(fa)
		default:
			return zero, false
		}
		// returned under exactly one test besides the loop condition: pred(elem.field)
		nTests := 0
		for _, iff := range controllingIfs(r) {
			if bo, isB := iff.Cond.(*ssa.BinOp); isB && bo.Op == token.LSS && strings.HasPrefix(iff.Block().Comment, "rangeindex.loop") {
				continue
			}
			call, isCall := iff.Cond.(*ssa.Call)
			if !isCall || call.Common().StaticCallee() == nil || len(call.Common().Args) != 1 {
				return zero, false
			}
			if !(iff.Block().Succs[0] == r.Block() || iff.Block().Succs[0].Dominates(r.Block())) {
				return zero, false
			}
			nTests++
			fm.pred = call.Common().StaticCallee().Name()
			a := call.Common().Args[0]
			if al, ok := a.(*ssa.UnOp); ok && al.Op == token.MUL {
				if fa, ok := al.X.(*ssa.FieldAddr); ok && fa.X == ssa.Value(ld) {
					fm.fieldKey = fieldKey(fa)
				} else if al == ld || al.X == ld.X {
					fm.fieldKey = ""
				} else {
					return zero, false
				}
			} else {
				return zero, false
			}
		}
		if nTests != 1 {
			return zero, false
		}
		nElemRet++
	}
	if nElemRet != 1 || nNilRet == 0 {
		return zero, false
	}
	return fm, true
}

// firstMatchTest: v is `h(x) != nil` (or its negation's operand) for a finder helper h; returns the helper's description.
func firstMatchTest(v ssa.Value) (firstMatch, *ssa.Call, bool) {
	bo, ok := resolve(v).(*ssa.BinOp)
	if !ok || (bo.Op != token.NEQ && bo.Op != token.EQL) {
		return firstMatch{}, nil, false
	}
	var side ssa.Value
	switch {
	case isNilConst(bo.Y):
		side = bo.X
	case isNilConst(bo.X):
		side = bo.Y
	default:
		return firstMatch{}, nil, false
	}
	call, ok := resolve(side).(*ssa.Call)
	if !ok || call.Common().StaticCallee() == nil {
		return firstMatch{}, nil, false
	}
	fm, ok := firstMatchHelper(call.Common().StaticCallee())
	return fm, call, ok
}
