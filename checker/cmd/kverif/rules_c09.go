package main

import (
	"fmt"
	"go/token"
	"go/types"
	"sort"
	"strings"

	"golang.org/x/tools/go/ssa"
)

func init() {
	register(&propDef{
		id:  "C09",
		run: runC09,
		explanation: "Path and error-discipline rules over the generate pipeline (cmd/kessoku.main -> config.Run -> GenerateCmd.Run -> Processor -> Parser/NewGraph/Build/Generate): every call to a module function returning error hands a non-nil error on (or is a table exception with its premise re-checked); the only filesystem mutator of internal/kessoku (os.Create) is unreachable from the error edges of parsing and injector construction and no validation step runs after it; " +
			"main turns an error into exit status 1; every success return of NewGraph that can follow an edge insertion is dominated by a checked detectCycles call, which starts a search from every node; each insertion into the supplier map sits on the not-found edge of a lookup of the same key whose found edge reaches an error return naming the key; Build refuses when the return node was never scheduled (Kahn safety net).",
		notDecided:  "completeness of the three-colour DFS for all graphs and the acceptance of every valid declaration (algorithmic facts about the search, not visible as code shape); the text of diagnostics beyond 'mentions the key'.",
		assumptions: []string{"go/ssa dominators; kong dispatches to the Run method of the selected command", "a cycle missed by the DFS still starves the return node in Kahn's algorithm (argued in DESIGN.md §5 C09.6)"},
	})
}

func pkgFuncs(L *Loaded, pkgs ...string) []*ssa.Function {
	L.buildSSA()
	var out []*ssa.Function
	for fn := range L.NonTest {
		if fn.Pkg == nil || fn.Blocks == nil {
			continue
		}
		for _, p := range pkgs {
			if fn.Pkg.Pkg.Path() == p {
				out = append(out, fn)
			}
		}
	}
	sort.Slice(out, func(i, j int) bool {
		if out[i].Pos() != out[j].Pos() {
			return out[i].Pos() < out[j].Pos()
		}
		return out[i].String() < out[j].String()
	})
	return out
}

// errorDisciplineException: call sites whose dropped error is accepted, with the reason and a premise check.
type errException struct {
	caller, callee string
	reason         string
}

var c09Exceptions = []errException{
	{caller: "", callee: genPkg + ".generateInjectorDecl", // wherever it is called from: the premise is about the callee
		reason: "generateInjectorDecl can only fail through createASTTypeExpr's default branch (Tuple/TypeParam/Union), which no provider result or argument type can be; no input reaches it, so there is no behaviour to repair. Premise checked: every error return below it originates in createASTTypeExpr."},
}

// propagationRule checks every call (in fns) to a module function with an error result.
func propagationRule(c *Ctx, rule string, fns []*ssa.Function, inScope func(callee *ssa.Function) bool, exceptions []errException) int {
	L := c.L
	n := 0
	for _, fn := range fns {
		for _, cs := range callsIn(fn) {
			callee := cs.common.StaticCallee()
			if callee == nil {
				continue
			}
			callee = originOf(callee)
			if !inScope(callee) {
				continue
			}
			res := cs.common.Signature().Results()
			if res.Len() == 0 || !isErrorType(res.At(res.Len()-1).Type()) {
				continue
			}
			n++
			c.seen(fnName(fn))
			cons := fmt.Sprintf("%s:call(%s)", fnName(fn), strings.TrimPrefix(callee.String(), modPath+"/"))
			desc := fmt.Sprintf("%s hands on the error of %s", fnName(fn), callee.Name())
			call := cs.value()
			var ok bool
			var why string
			switch {
			case call == nil:
				ok, why = false, "the call is deferred or spawned; its error is lost"
			case returnsCallDirectly(call):
				ok, why = true, "the call is the return operand"
			case errorResult(call) == nil:
				ok, why = false, "the error result is discarded"
			default:
				ok, why = errorBranchReturnsNonNil(call)
				if !ok && fnPkgPath(fn) == mainPkg {
					// the command's exit-code helper: the error becomes a non-zero code (main's use of it is C09.3)
					if ok2, why2 := errorEdgeReturnsNonZeroCode(call); ok2 {
						ok, why = true, why2
					}
				}
			}
			if ok {
				c.ok(rule, desc, why)
				continue
			}
			exc := false
			for _, e := range exceptions {
				ecal := resolveRole(c, genPkg, strings.TrimPrefix(e.callee, genPkg+"."))
				if (e.caller == "" || e.caller == fnName(fn)) && (e.callee == callee.String() || (ecal != nil && ecal == callee)) {
					exc = true
					c.ok(rule, desc+" [table exception: "+e.reason+"]", "exception table")
					c.Notes = append(c.Notes, "exception "+cons+": "+e.reason)
				}
			}
			if !exc {
				c.fail(rule, cons, L.pos(cs.instr.Pos()), fmt.Sprintf("the error returned by %s is dropped in %s (the pipeline continues and can exit 0)", callee.Name(), fnName(fn)), why)
			}
		}
	}
	return n
}

func runC09(c *Ctx) {
	L := c.L
	L.buildSSA()
	gen := pkgFuncs(L, genPkg)
	cfg := pkgFuncs(L, cfgPkg, mainPkg)

	// ---- C09.1 error discipline in the pipeline
	inModule := func(callee *ssa.Function) bool {
		return callee.Pkg != nil && (callee.Pkg.Pkg.Path() == genPkg || callee.Pkg.Pkg.Path() == cfgPkg) && L.NonTest[callee]
	}
	n := propagationRule(c, "C09.1", append(append([]*ssa.Function{}, gen...), cfg...), inModule, c09Exceptions)
	c.floor("C09.1", "calls to module functions returning error in the generate pipeline", n, 25)
	c09ExceptionPremise(c)

	// io errors of the one writer
	if gfn := resolveRole(c, genPkg, "Generate"); gfn != nil {
		for _, cs := range callsIn(gfn) {
			if cs.callee == "go/format.Node" || strings.HasPrefix(cs.callee, "invoke io.Writer") || cs.callee == "invoke io.Writer.Write" {
				if call := cs.value(); call != nil {
					ok, why := errorBranchReturnsNonNil(call)
					c.check(ok, "C09.1", "internal/kessoku.Generate:call("+cs.callee+")", L.pos(cs.instr.Pos()), "Generate reports a failing "+cs.callee, why)
				}
			}
		}
	}

	// ---- C09.2 nothing is written before validation finished
	var mutSites []callSite
	for _, fn := range gen {
		for _, cs := range callsIn(fn) {
			if isFsMutator(cs.callee) {
				mutSites = append(mutSites, cs)
			}
		}
	}
	c.check(len(mutSites) == 1 && (mutSites[0].callee == "os.Create" || mutSites[0].callee == "os.OpenFile" || mutSites[0].callee == "os.WriteFile"), "C09.2", "internal/kessoku:single-writer", "-",
		"internal/kessoku has exactly one filesystem mutator call site (os.Create of the output file)", fmt.Sprintf("%d site(s): %v", len(mutSites), siteNames(L, mutSites)))
	validators := map[string]bool{"(*" + genPkg + ".Parser).ParseFile": true, genPkg + ".CreateInjector": true}
	// a helper that runs a validator and reports its failure counts as a validation call of its caller
	isValidation := func(cs callSite) bool {
		if validators[cs.callee] {
			return true
		}
		cal := cs.common.StaticCallee()
		if cal == nil || cal.Pkg == nil || cal.Pkg.Pkg.Path() != genPkg || len(cal.Blocks) == 0 || errorResultIndex(cal) < 0 {
			return false
		}
		for _, in := range callsIn(cal) {
			if validators[in.callee] && in.value() != nil {
				if ok, _ := errorBranchReturnsNonNil(in.value()); ok {
					return true
				}
			}
		}
		return false
	}
	for _, m := range mutSites {
		fn := m.fn
		c.seen(fnName(fn))
		nameArg := m.arg(0)
		// when the file is created in a helper (no validation call of its own), the rule is applied at the helper's only call site
		for lift := 0; lift < 2; lift++ {
			has := false
			for _, cs := range callsIn(fn) {
				if isValidation(cs) {
					has = true
				}
			}
			if has {
				break
			}
			var callers []callSite
			for _, g := range gen {
				for _, cs := range callsIn(g) {
					if cs.common.StaticCallee() == fn {
						callers = append(callers, cs)
					}
				}
			}
			if len(callers) != 1 || callers[0].value() == nil {
				break
			}
			if p, isP := resolve(nameArg).(*ssa.Parameter); isP && p.Parent() == fn {
				for i, q := range fn.Params {
					if q == p && i < len(callers[0].common.Args) {
						nameArg = callers[0].common.Args[i]
					}
				}
			}
			m = callers[0]
			fn = m.fn
			c.seen(fnName(fn))
		}
		nVal := 0
		for _, cs := range callsIn(fn) {
			if !isValidation(cs) {
				continue
			}
			nVal++
			call := cs.value()
			if call == nil {
				c.fail("C09.2", fnName(fn)+":"+cs.callee+"-deferred", L.pos(cs.instr.Pos()), "validation step is deferred")
				continue
			}
			c.check(!reachableAfter(m.instr, cs.instr), "C09.2", fnName(fn)+":"+cs.callee+"-after-write", L.pos(cs.instr.Pos()),
				fmt.Sprintf("%s: no call to %s is reachable after the output file was created", fnName(fn), cs.common.StaticCallee().Name()), "CFG reachability from the os.Create block")
			okEdge := false
			why := "error not tested"
			for _, t := range nilTestsOf(errorResult(call)) {
				if !reachable(t.onErr, m.instr.Block()) {
					okEdge = true
					why = fmt.Sprintf("error edge %d->%d cannot reach the os.Create block %d", t.ifInstr.Block().Index, t.onErr.Index, m.instr.Block().Index)
				} else {
					okEdge = false
					why = fmt.Sprintf("error edge %d->%d can reach os.Create", t.ifInstr.Block().Index, t.onErr.Index)
					break
				}
			}
			c.check(okEdge, "C09.2", fnName(fn)+":"+cs.callee+"-error-reaches-write", L.pos(cs.instr.Pos()),
				fmt.Sprintf("%s: a failing %s cannot be followed by the creation of the output file", fnName(fn), cs.common.StaticCallee().Name()), why)
			c.check(reachableAfter(cs.instr, m.instr), "C09.2", fnName(fn)+":"+cs.callee+"-precedes-write", L.pos(cs.instr.Pos()),
				fmt.Sprintf("%s: %s lies on the way to os.Create", fnName(fn), cs.common.StaticCallee().Name()), "reachability")
		}
		c.floor("C09.2", "validation calls (ParseFile, CreateInjector) in the function that creates the output", nVal, 2)
		// the created name is the output name of the processed file
		s := newSym(L, map[string]bool{})
		terms := s.eval(nameArg)
		okName := len(terms) == 1 && strings.Contains(terms[0], "path/filepath.Ext(param:filename)") && (strings.Contains(terms[0], `"_band"`) || strings.Contains(terms[0], `"%s_band%s"`))
		c.check(okName, "C09.2", fnName(fn)+":output-name", L.pos(m.instr.Pos()), "the created file is <source>_band<ext> of the file being processed", strings.Join(terms, " | "))
	}

	// ---- C09.3 exit status and hand-over to the processor
	c15Main(c, "C09.3")
	if run := L.fn(cfgPkg, "(*GenerateCmd).Run"); run != nil {
		c.seen(fnName(run))
		okRun := false
		for _, cs := range callsIn(run) {
			if cs.callee == "(*"+genPkg+".Processor).ProcessFiles" && cs.value() != nil && returnsCallDirectly(cs.value()) {
				okRun = true
			}
		}
		c.check(okRun, "C09.3", "GenerateCmd.Run:returns-ProcessFiles", L.pos(run.Pos()), "GenerateCmd.Run returns ProcessFiles' error", "return operand")
	} else {
		c.undecided("C09.3", "GenerateCmd.Run", "method not found")
	}

	ruleAllFilesProcessed(c, "C09.3")
	// C09.9 a declaration is accepted or refused, never looped on
	ruleLoopsMakeProgress(c, "C09.9", genPkg)
	ruleNoNewSwallowedRefusals(c, "C09.10", 20)
	ruleResolutionAfterRegistration(c, "C09.11")

	// ---- C09.4 cycle check on every success path that follows an edge insertion
	c09Cycle(c)

	// ---- C09.5 guarded supplier-map inserts
	c09SupplierMap(c, "C09.5")

	// ---- C09.7 / C09.8 (second round)
	ruleArgumentOnlyWhenUnsupplied(c, "C09.7")
	ruleProvidersInDeclOrder(c, "C09.12")
	ruleProviderTypeResultsFresh(c, "C09.13")
	ruleVarDeclByName(c, "C09.14")
	ruleReleasePerDestinationSlot(c, "C09.15")
	ruleTypeIdentity(c, "C09.8", genPkg)

	// ---- C09.6 safety net in Build
	if build := resolveRole(c, genPkg, "(*Graph).Build"); build != nil {
		c.seen(fnName(build))
		okNet := false
		why := "no test of injector.Return against nil with an error return"
		for _, b := range build.Blocks {
			for _, in := range b.Instrs {
				u, ok := in.(*ssa.UnOp)
				if !ok || u.Op != token.MUL {
					continue
				}
				fa, ok := u.X.(*ssa.FieldAddr)
				if !ok || fieldKey(fa) != "internal/kessoku.Injector.Return" {
					continue
				}
				for _, t := range nilTestsOf(u) {
					// here "onNil" is the branch where Return == nil: it must return a non-nil error
					if ok2, _ := allPathsReturnNonNil(t.onNil, map[*ssa.BasicBlock]bool{}); ok2 {
						// and the success return must be on the other side
						okNet = true
						why = fmt.Sprintf("block %d: injector.Return == nil -> error return", t.ifInstr.Block().Index)
					}
				}
			}
		}
		c.check(okNet, "C09.6", "Graph.Build:return-node-scheduled", L.pos(build.Pos()), "Build refuses when the requested type's node was never scheduled by the topological iteration", why)
		// Return is set only inside the topological iteration (a yield closure) or not at all
		for _, f2 := range withClosures(build) {
			for _, b := range f2.Blocks {
				for _, in := range b.Instrs {
					st, ok := in.(*ssa.Store)
					if !ok {
						continue
					}
					if fa, ok := st.Addr.(*ssa.FieldAddr); ok && fieldKey(fa) == "internal/kessoku.Injector.Return" {
						c.check(f2 != build && strings.Contains(f2.Synthetic, "range-over-func"), "C09.6", "Graph.Build:Return-set-in-iteration", L.pos(st.Pos()),
							"injector.Return is assigned only inside the topological iteration", "store in "+fnName(f2)+" ("+f2.Synthetic+")")
					}
				}
			}
		}
	} else {
		c.undecided("C09.6", "Graph.Build", "method not found")
	}
}

func siteNames(L *Loaded, cs []callSite) []string {
	var out []string
	for _, s := range cs {
		out = append(out, s.callee+"@"+L.pos(s.instr.Pos()))
	}
	return out
}

// c09ExceptionPremise re-verifies the premise of the one table exception: below generateInjectorDecl every
// freshly created error (fmt.Errorf without %w / errors.New) lives in createASTTypeExpr.
func c09ExceptionPremise(c *Ctx) {
	L := c.L
	root := resolveRole(c, genPkg, "generateInjectorDecl")
	if root == nil {
		c.undecided("C09.1", "exception-premise", "generateInjectorDecl not found")
		return
	}
	seen := map[*ssa.Function]bool{}
	var origins []string
	renderer := map[string]bool{"internal/kessoku.createASTTypeExpr": true}
	// the type renderer by what it is: takes go/types values, returns (ast.Expr, error) - also as a method of a carrier
	for _, f := range pkgFuncs(L, genPkg) {
		if f.Parent() != nil {
			continue
		}
		sg := f.Signature.String()
		if strings.HasSuffix(sg, "(go/ast.Expr, error)") && strings.Contains(sg, "go/types.") {
			renderer[fnName(f)] = true
		}
	}
	var walk func(fn *ssa.Function)
	walk = func(fn *ssa.Function) {
		if seen[fn] || fn.Blocks == nil {
			return
		}
		seen[fn] = true
		for _, f2 := range withClosures(fn) {
			for _, cs := range callsIn(f2) {
				switch cs.callee {
				case "fmt.Errorf":
					if f, ok := constString(cs.arg(0)); ok && !strings.Contains(f, "%w") {
						origins = append(origins, fnName(f2))
					}
				case "errors.New":
					origins = append(origins, fnName(f2))
				}
				if callee := cs.common.StaticCallee(); callee != nil && callee.Pkg != nil && callee.Pkg.Pkg.Path() == genPkg {
					res := callee.Signature.Results()
					if res.Len() > 0 && isErrorType(res.At(res.Len()-1).Type()) {
						walk(callee)
					}
				}
				// InjectorStmt.Stmt implementations return no error; not followed
			}
		}
	}
	walk(root)
	bad := []string{}
	for _, o := range origins {
		if !renderer[o] {
			bad = append(bad, o)
		}
	}
	c.check(len(bad) == 0 && len(origins) > 0, "C09.1", "exception-premise:generateInjectorDecl", L.pos(root.Pos()),
		"premise of the table exception: every error created below generateInjectorDecl comes from createASTTypeExpr's unsupported-type branch", fmt.Sprintf("error origins: %v", uniq(origins)))
}

func c09Cycle(c *Ctx) {
	L := c.L
	ng := resolveRole(c, genPkg, "NewGraph")
	if ng == nil {
		c.undecided("C09.4", "NewGraph", "function not found")
		return
	}
	c.seen(fnName(ng))
	// instructions of NewGraph after which the edge map may have entries
	var writesEdgesD func(fn *ssa.Function, d int) bool
	writesEdgesD = func(fn *ssa.Function, d int) bool {
		for _, f2 := range withClosures(fn) {
			for _, b := range f2.Blocks {
				for _, in := range b.Instrs {
					if mu, ok := in.(*ssa.MapUpdate); ok {
						if u, ok := mu.Map.(*ssa.UnOp); ok {
							if fa, ok := u.X.(*ssa.FieldAddr); ok && fieldKey(fa) == "internal/kessoku.Graph.edges" {
								return true
							}
						}
					}
					// through a helper that records the edge
					if call, ok := in.(*ssa.Call); ok && d < 2 {
						if cal := call.Common().StaticCallee(); cal != nil && fnPkgPath(cal) == genPkg && cal != ng && cal != fn && len(cal.Blocks) > 0 && cal.Name() != ng.Name() {
							if writesEdgesD(cal, d+1) {
								return true
							}
						}
					}
				}
			}
		}
		return false
	}
	writesEdges := func(fn *ssa.Function) bool { return writesEdgesD(fn, 0) }
	var edgeInstrs []ssa.Instruction
	for _, b := range ng.Blocks {
		for _, in := range b.Instrs {
			switch x := in.(type) {
			case *ssa.MapUpdate:
				if u, ok := x.Map.(*ssa.UnOp); ok {
					if fa, ok := u.X.(*ssa.FieldAddr); ok && fieldKey(fa) == "internal/kessoku.Graph.edges" {
						edgeInstrs = append(edgeInstrs, in)
					}
				}
			case *ssa.Call:
				for _, a := range x.Common().Args {
					if mc, ok := resolve(a).(*ssa.MakeClosure); ok && writesEdges(mc.Fn.(*ssa.Function)) {
						edgeInstrs = append(edgeInstrs, in)
					}
				}
				// a helper that records the edge (g.addEdge(...))
				if cal := x.Common().StaticCallee(); cal != nil && fnPkgPath(cal) == genPkg && cal != ng && len(cal.Blocks) > 0 && writesEdges(cal) {
					edgeInstrs = append(edgeInstrs, in)
				}
			}
		}
	}
	c.floor("C09.4", "edge-insertion points in NewGraph", len(edgeInstrs), 1)
	var dc []*ssa.Call
	for _, cs := range findCalls(ng, "(*"+genPkg+".Graph).detectCycles") {
		if cs.value() != nil {
			dc = append(dc, cs.value())
		}
	}
	nSucc := 0
	for _, r := range returnsOf(ng) {
		if !returnsNilError(r) {
			continue
		}
		after := false
		for _, e := range edgeInstrs {
			if reachableAfter(e, r) {
				after = true
			}
		}
		if !after {
			c.ok("C09.4", fmt.Sprintf("NewGraph success return in block %d precedes every edge insertion (single-node graph)", r.Block().Index), "CFG reachability")
			continue
		}
		nSucc++
		okR, why := false, "no detectCycles call dominates this return"
		for _, d := range dc {
			if ok, w := checkedBefore(d, r); ok {
				okR, why = true, w
			}
		}
		c.check(okR, "C09.4", "NewGraph:success-return-after-edges", L.pos(r.Pos()), "a graph with edges is returned only after detectCycles reported no cycle", why)
	}
	c.floor("C09.4", "success returns of NewGraph that follow edge insertion", nSucc, 1)
	for _, d := range dc {
		ok, why := errorBranchReturnsNonNil(d)
		c.check(ok, "C09.4", "NewGraph:cycle-error-returned", L.pos(d.Pos()), "a detected cycle makes NewGraph fail", why)
	}
	// detectCycles searches from every node
	if det := resolveRole(c, genPkg, "(*Graph).detectCycles"); det != nil {
		c.seen(fnName(det))
		okAll := false
		for _, cs := range callsIn(det) {
			if !calleeIs(c, cs, genPkg, "(*Graph).dfsCycleDetection") {
				continue
			}
			// the root is an element of g.nodes itself - not of a list filtered or computed from it: a cycle that no
			// "source" leads into is found only if every node is tried as a root
			s := newSym(L, map[string]bool{})
			s.maxD = 0
			ts := s.eval(cs.arg(1))
			okAll = len(ts) > 0
			for _, t := range ts {
				if !strings.HasPrefix(t, "index(field:internal/kessoku.Graph.nodes(param:") {
					okAll = false
				}
			}
			if cs.fn != det {
				okAll = okAll && false
			}
			// and the search from a root is skipped only for a node that an earlier search already coloured
			for _, iff := range controllingIfs(cs.instr) {
				t := strings.Join(s.eval(iff.Cond), "|")
				if strings.HasPrefix(t, "bin<(") || strings.Contains(t, "lookup(") {
					continue
				}
				c.check(false, "C09.4", "detectCycles:root-guard", L.pos(iff.Cond.Pos()), "the search from a node is skipped only when that node was already visited", t)
			}
			// the result is turned into an error when non-nil
			if call := cs.value(); call != nil {
				okErr := false
				for _, t := range nilTestsOf(call) {
					if ok, _ := allPathsReturnNonNil(t.onErr, map[*ssa.BasicBlock]bool{}); ok {
						okErr = true
					}
				}
				// the same test written on the length of the path (the search returns nil or a non-empty path)
				if !okErr && call.Referrers() != nil {
					for _, r := range *call.Referrers() {
						ln, isLen := r.(*ssa.Call)
						if !isLen || ln.Referrers() == nil {
							continue
						}
						if bi, isB := ln.Common().Value.(*ssa.Builtin); !isB || bi.Name() != "len" {
							continue
						}
						for _, r2 := range *ln.Referrers() {
							bo, isBO := r2.(*ssa.BinOp)
							if !isBO || bo.Referrers() == nil {
								continue
							}
							k, isC := constInt(bo.Y)
							if !isC || k != 0 {
								continue
							}
							for _, r3 := range *bo.Referrers() {
								iff, isIf := r3.(*ssa.If)
								if !isIf {
									continue
								}
								var nonEmpty *ssa.BasicBlock
								switch bo.Op {
								case token.NEQ, token.GTR:
									nonEmpty = iff.Block().Succs[0]
								case token.EQL:
									nonEmpty = iff.Block().Succs[1]
								}
								if nonEmpty != nil {
									if ok, _ := allPathsReturnNonNil(nonEmpty, map[*ssa.BasicBlock]bool{}); ok {
										okErr = true
									}
								}
							}
						}
					}
				}
				c.check(okErr, "C09.4", "detectCycles:cycle-becomes-error", L.pos(call.Pos()), "a cycle found by the DFS becomes a non-nil error", "non-nil edge returns &CycleError")
			}
		}
		c.check(okAll, "C09.4", "detectCycles:every-node", L.pos(det.Pos()), "detectCycles starts a search from the elements of g.nodes", "DFS root derives from g.nodes")
		// round 16 (C09-m31): before the searches start no node is settled - whatever detectCycles itself writes into the
		// colour map is one and the same colour (the unvisited one); a node pre-coloured as finished is never descended into
		initColours := map[string]bool{}
		var initAt ssa.Instruction
		for _, b := range det.Blocks {
			for _, in := range b.Instrs {
				mu, ok := in.(*ssa.MapUpdate)
				if !ok {
					continue
				}
				mt, ok := mu.Map.Type().Underlying().(*types.Map)
				if !ok {
					continue
				}
				if nt, ok := mt.Elem().(*types.Named); !ok || nt.Obj().Pkg() == nil || nt.Obj().Pkg().Path() != det.Pkg.Pkg.Path() {
					continue
				}
				if k, ok := mu.Value.(*ssa.Const); ok && k.Value != nil {
					initColours[k.Value.ExactString()] = true
				} else {
					initColours["non-constant:"+mu.Value.Name()] = true
				}
				initAt = in
			}
		}
		if initAt != nil {
			c.check(len(initColours) == 1, "C09.4", "detectCycles:no-node-settled-before-the-search", L.pos(initAt.Pos()), "detectCycles itself colours nodes with one colour only (unvisited): no node is settled before a search has descended into it", fmt.Sprintf("colours written outside the DFS: %v", sortedKeys(initColours)))
		}
	} else {
		c.undecided("C09.4", "detectCycles", "method not found")
	}
	// the DFS reports a back edge: a gray neighbour leads to a non-nil return
	if dfs := resolveRole(c, genPkg, "(*Graph).dfsCycleDetection"); dfs != nil {
		c.seen(fnName(dfs))
		okGray := false
		for _, b := range dfs.Blocks {
			for _, in := range b.Instrs {
				bo, ok := in.(*ssa.BinOp)
				if !ok || bo.Op != token.EQL {
					continue
				}
				if v, ok := constInt(bo.Y); ok && v == 1 { // gray
					for _, r := range *bo.Referrers() {
						if iff, ok := r.(*ssa.If); ok {
							t := iff.Block().Succs[0]
							for _, in2 := range t.Instrs {
								if ret, ok := in2.(*ssa.Return); ok && len(ret.Results) == 1 && !isNilConst(ret.Results[0]) {
									okGray = true
								}
							}
						}
					}
				}
			}
		}
		c.check(okGray, "C09.4", "dfsCycleDetection:gray-neighbour", L.pos(dfs.Pos()), "meeting a gray (in-progress) neighbour returns a cycle", "colour comparison with the constant gray=1 guards a non-nil return")
	}
}

// c09SupplierMap: inserts into the type-string -> provider map are guarded by a lookup of the same key.
func c09SupplierMap(c *Ctx, rule string) {
	L := c.L
	ng := resolveRole(c, genPkg, "NewGraph")
	if ng == nil {
		return
	}
	// the supplier map: a local map[string]*<local struct with field provider *ProviderSpec>
	// the supplier map: a map[string]*<struct with field provider *ProviderSpec>; identified by its type (it may be built in
	// one phase function and consulted in another), one canonical marker per function family
	supplierMarker := &ssa.Alloc{}
	isSupplier := func(v ssa.Value) *ssa.Alloc {
		t := v.Type().String()
		if strings.HasPrefix(t, "map[string]*") && strings.Contains(t, "fnProvider") {
			return supplierMarker
		}
		return nil
	}
	nIns, nLook := 0, 0
	for _, f2 := range family(L, ng) {
		for _, b := range f2.Blocks {
			for _, in := range b.Instrs {
				switch x := in.(type) {
				case *ssa.MapUpdate:
					al := isSupplier(x.Map)
					if al == nil {
						continue
					}
					nIns++
					// find a comma-ok lookup of the same key on the same map whose not-found edge dominates this insert
					guard := ""
					for _, b2 := range f2.Blocks {
						for _, in2 := range b2.Instrs {
							lk, ok := in2.(*ssa.Lookup)
							if !ok || !lk.CommaOk || isSupplier(lk.X) != al || lk.Index != x.Key {
								continue
							}
							// two different tables made in this very function are two tables: a test of one does not guard an insert
							// into the other (a staging table copied over afterwards hides the earlier members from the test)
							if m1, isM1 := resolve(x.Map).(*ssa.MakeMap); isM1 {
								if m2, isM2 := resolve(lk.X).(*ssa.MakeMap); isM2 && m1 != m2 && m1.Parent() == m2.Parent() {
									continue
								}
							}
							for _, t := range okTestsOf(lk) {
								iff, found, notFound := t.iff, t.found, t.notFound
								if (notFound == b || notFound.Dominates(b)) && !reachableNoLoop(found, b, iff.Block()) {
									// the found edge must be able to reach an error return that mentions the key
									if errorReturnMentions(found, x.Key) {
										// the refusal can only be avoided by "it is the very same provider": between the found edge
										// and the error there is exactly one test, an identity comparison of *ProviderSpec values
										var tests []string
										okOnly := true
										for _, eb := range f2.Blocks {
											if !found.Dominates(eb) && eb != found {
												continue
											}
											iff2, isIf := eb.Instrs[len(eb.Instrs)-1].(*ssa.If)
											if !isIf {
												continue
											}
											reachesErr := false
											for _, sx := range eb.Succs {
												if ok, _ := allPathsReturnNonNil(sx, map[*ssa.BasicBlock]bool{}); ok {
													reachesErr = true
												}
											}
											if !reachesErr && !errorBlockBelow(eb) {
												continue
											}
											bo, isB := iff2.Cond.(*ssa.BinOp)
											if isB && (bo.Op == token.NEQ || bo.Op == token.EQL) && strings.HasSuffix(bo.X.Type().String(), "internal/kessoku.ProviderSpec") {
												tests = append(tests, "identity comparison of providers")
											} else {
												okOnly = false
												tests = append(tests, describe(iff2.Cond))
											}
										}
										c.check(okOnly && len(tests) <= 1, rule, fnName(f2)+":duplicate-refused-unless-same-provider", L.pos(x.Pos()),
											"a second supplier of a type is refused unless it is the very same provider (pointer identity), with no further way around the refusal", strings.Join(tests, " ; "))
										guard = fmt.Sprintf("lookup in block %d; not-found edge -> block %d dominates the insert in block %d; found edge reaches an error naming the key", iff.Block().Index, notFound.Index, b.Index)
									} else {
										guard = ""
										c.fail(rule, fnName(f2)+":duplicate-not-refused", L.pos(x.Pos()), "the found edge of the duplicate check does not lead to an error that names the type")
									}
								}
							}
						}
					}
					c.check(guard != "", rule, fmt.Sprintf("%s:supplier-insert#%d", fnName(f2), nIns), L.pos(x.Pos()),
						"a supplier is recorded only when no other provider already supplies that type; otherwise generation fails naming the type", guard)
				case *ssa.Lookup:
					if isSupplier(x.X) != nil {
						nLook++
					}
				case *ssa.Call:
					// bulk insertion: members arrive without the duplicate test
					if cal := calleeOf(x.Common()); (cal == "maps.Copy" || cal == "maps.Insert") && len(x.Common().Args) >= 1 && isSupplier(x.Common().Args[0]) != nil {
						c.fail(rule, fnName(f2)+":supplier-bulk-insert", L.pos(x.Pos()), "suppliers are recorded one by one under the duplicate test; "+cal+" adds members to the supplier table without it")
					}
				}
			}
		}
	}
	// the key must identify the type: types.Type.String() (path-qualified) or an equivalent path-based printer.
	// A key that merges distinct types (package *name* qualifier, bare object name) turns two suppliers into a
	// phantom duplicate, or one supplier into the source of an unrelated requirement.
	nKeys := 0
	keyShapes := map[string][]string{}
	for _, f2 := range family(L, ng) {
		for _, b := range f2.Blocks {
			for _, in := range b.Instrs {
				var m, key ssa.Value
				switch x := in.(type) {
				case *ssa.MapUpdate:
					m, key = x.Map, x.Key
				case *ssa.Lookup:
					m, key = x.X, x.Index
				default:
					continue
				}
				if !types.Identical(m.Type().Underlying().(*types.Map).Key(), types.Typ[types.String]) {
					continue
				}
				if isSupplier(m) == nil && !strings.Contains(m.Type().String(), "map[string]*"+genPkg+".node") {
					continue
				}
				nKeys++
				s := newSym(L, map[string]bool{})
				s.stack[ng] = true
				for _, t := range s.eval(key) {
					ok, why := injectiveTypeKey(L, t)
					c.check(ok, rule, fmt.Sprintf("%s:type-key", fnName(f2)), L.pos(in.Pos()),
						"requirements and suppliers are matched by a key that distinguishes types from different packages", why)
					sh := keyShape(t)
					keyShapes[sh] = append(keyShapes[sh], L.pos(in.Pos()))
				}
			}
		}
	}
	// suppliers are recorded and requirements looked up through the same normalisation of the type: a lookup that resolves
	// aliases (or strips pointers) while the insert does not makes a supplied type look unsupplied
	if len(keyShapes) > 1 {
		major, cnt := "", 0
		for k, v := range keyShapes {
			if len(v) > cnt {
				major, cnt = k, len(v)
			}
		}
		for k, v := range keyShapes {
			if k != major {
				c.fail(rule, fnName(ng)+":type-key-normalisation-differs", v[0], "this map operation keys the type differently from the other supplier/argument map operations: suppliers and requirements of one type can miss each other", "here: "+k, fmt.Sprintf("elsewhere (%d sites): %s", cnt, major))
			}
		}
	} else {
		c.ok(rule, "all supplier/argument map operations key the type through the same functions", strings.Join(sortedKeys(keyShapes), " | "))
	}
	c.floor(rule, "keyed operations on the supplier/argument maps", nKeys, 8)
	c.floor(rule, "inserts into the supplier map", nIns, 2)
	c.floor(rule, "lookups of the supplier map", nLook, 5)

	// orphan Struct: the struct-type lookup's not-found edge returns an error
	okOrphan := false
	var ngBlocks []*ssa.BasicBlock
	for _, f2 := range family(L, ng) {
		if f2.Parent() == nil {
			ngBlocks = append(ngBlocks, f2.Blocks...)
		}
	}
	for _, b := range ngBlocks {
		for _, in := range b.Instrs {
			lk, ok := in.(*ssa.Lookup)
			if !ok || !lk.CommaOk || isSupplier(lk.X) == nil {
				continue
			}
			s := newSym(L, map[string]bool{})
			isStructKey := false
			for _, t := range s.eval(lk.Index) {
				if strings.Contains(t, "ProviderSpec.StructType(") {
					isStructKey = true
				}
			}
			if !isStructKey {
				continue
			}
			for _, t := range okTestsOf(lk) {
				if ok2, _ := allPathsReturnNonNil(t.notFound, map[*ssa.BasicBlock]bool{}); ok2 && errorReturnMentions(t.notFound, lk.Index) {
					okOrphan = true
				}
			}
			// and no Struct annotation gets past the test: inside the loop over the expansions the lookup lies on every way to
			// the next iteration (a `continue` in front of it - "nothing to expand" - lets an orphan through)
			var hdr *ssa.BasicBlock
			for d := b.Idom(); d != nil; d = d.Idom() {
				isHeader := false
				for _, pr := range d.Preds {
					if d.Dominates(pr) {
						isHeader = true
					}
				}
				if isHeader && reachable(b, d) {
					hdr = d
					break
				}
			}
			if hdr != nil {
				for _, pr := range hdr.Preds {
					if hdr.Dominates(pr) && !b.Dominates(pr) {
						c.fail(rule, "NewGraph:orphan-struct-bypass", L.pos(pr.Instrs[len(pr.Instrs)-1].Pos()),
							"the next Struct annotation can be reached without the supplier test of this one (an orphan Struct would be accepted silently)")
					}
				}
			}
		}
	}
	c.check(okOrphan, rule, "NewGraph:orphan-struct", L.pos(ng.Pos()), "a Struct expansion whose struct type has no supplier is refused with an error naming the type", "not-found edge of the StructType lookup returns fmt.Errorf(..., key)")
}

// reachableNoLoop: reachable from `from` to `to` without passing through `stop` (the lookup block: the next loop iteration).
func reachableNoLoop(from, to, stop *ssa.BasicBlock) bool {
	seen := map[*ssa.BasicBlock]bool{stop: true}
	var walk func(b *ssa.BasicBlock) bool
	walk = func(b *ssa.BasicBlock) bool {
		if b == to {
			return true
		}
		if seen[b] {
			return false
		}
		seen[b] = true
		for _, s := range b.Succs {
			if walk(s) {
				return true
			}
		}
		return false
	}
	return walk(from)
}

// errorReturnMentions: from block b an fmt.Errorf whose arguments include the key value is reachable (within 3 blocks).
func errorReturnMentions(b *ssa.BasicBlock, key ssa.Value) bool {
	seen := map[*ssa.BasicBlock]bool{}
	var walk func(b *ssa.BasicBlock, d int) bool
	walk = func(b *ssa.BasicBlock, d int) bool {
		if seen[b] || d > 3 {
			return false
		}
		seen[b] = true
		for _, in := range b.Instrs {
			if call, ok := in.(*ssa.Call); ok && calleeOf(call.Common()) == "fmt.Errorf" && len(call.Common().Args) == 2 {
				if elems, ok := variadicElems(call.Common().Args[1]); ok {
					for _, e := range elems {
						if resolve(e) == resolve(key) {
							return true
						}
					}
				}
			}
		}
		for _, s := range b.Succs {
			if walk(s, d+1) {
				return true
			}
		}
		return false
	}
	return walk(b, 0)
}

// injectiveTypeKey decides whether a key term is a path-qualified rendering of a types.Type.
func injectiveTypeKey(L *Loaded, term string) (bool, string) {
	if strings.HasPrefix(term, "invoke (go/types.Type).String(") {
		return true, "key is types.Type.String() (qualifies named types by import path)"
	}
	if strings.HasPrefix(term, "go/types.TypeString(") {
		if strings.HasSuffix(term, ", nil)") {
			return true, "key is types.TypeString(t, nil) (path-qualified)"
		}
		if i := strings.LastIndex(term, ", closure:"); i >= 0 || strings.Contains(term, ", func:") {
			name := term[strings.LastIndex(term, ":")+1 : len(term)-1]
			for fn := range L.NonTest {
				if fn.String() == name {
					ok := len(returnsOf(fn)) > 0
					for _, r := range returnsOf(fn) {
						if callResultOf(r.Results[0], "(*go/types.Package).Path", 0) == nil {
							ok = false
						}
					}
					if ok {
						return true, "key is types.TypeString with a qualifier returning Package.Path()"
					}
					return false, "key is types.TypeString with a qualifier that does not return the import path (" + name + "): types of same-named packages collide"
				}
			}
		}
		return false, "key is types.TypeString with an unrecognised qualifier: " + term
	}
	return false, "key is not a path-qualified type rendering: " + term
}

// keyShape: the chain of function applications between the map key and the data access that yields the type
// ("invoke (go/types.Type).String" for t.String(); "...String < go/types.Unalias" for types.Unalias(t).String()).
func keyShape(t string) string {
	var chain []string
	for {
		i := strings.Index(t, "(")
		if i <= 0 {
			break
		}
		head := t[:i]
		if strings.HasPrefix(head, "field:") || head == "index" || head == "lookup" || head == "typeassert" || strings.HasPrefix(head, "param:") || strings.HasPrefix(head, "extract") || strings.HasPrefix(head, "phi") {
			break
		}
		chain = append(chain, head)
		t = t[i+1:]
	}
	return strings.Join(chain, " < ")
}

// errorBlockBelow: some block dominated by b returns a non-nil error on all its paths (b guards a refusal).
func errorBlockBelow(b *ssa.BasicBlock) bool {
	for _, d := range b.Dominees() {
		if ok, _ := allPathsReturnNonNil(d, map[*ssa.BasicBlock]bool{}); ok {
			return true
		}
		if errorBlockBelow(d) {
			return true
		}
	}
	return false
}
