package main

import (
	"fmt"
	"go/ast"
	"go/token"
	"go/types"
	"strings"

	"golang.org/x/tools/go/packages"

	"golang.org/x/tools/go/ssa"
)

// Third-round rules (added after the third sweep of independently seeded changes).

// ruleSetVariableInitializer (C02.9): a Set held in a variable is resolved to the initializer of THAT variable: the element
// of ValueSpec.Values that getVarDecl returns is indexed by the position at which the variable's own name was found in
// ValueSpec.Names (`var A, B = Set(..), Set(..)` declares two different Sets).
func ruleSetVariableInitializer(c *Ctx, rule string) {
	L := c.L
	fn := genFn(c, rule, "(*Parser).getVarDecl")
	if fn == nil {
		return
	}
	n := 0
	for _, r := range returnsOf(fn) {
		if len(r.Results) != 1 || isNilConst(r.Results[0]) {
			continue
		}
		ld, ok := r.Results[0].(*ssa.UnOp)
		if !ok || ld.Op != token.MUL {
			c.fail(rule, "getVarDecl:returned-initializer", L.pos(r.Pos()), "the returned expression is not an element of the declaring spec's Values", describe(r.Results[0]))
			continue
		}
		ia, ok := ld.X.(*ssa.IndexAddr)
		if !ok || !loadsField(ia.X, "go/ast.ValueSpec.Values") {
			c.fail(rule, "getVarDecl:returned-initializer", L.pos(r.Pos()), "the returned expression is not an element of the declaring spec's Values", describe(ld.X))
			continue
		}
		n++
		// the index is the one at which Names[idx].Name == obj.Name() was established
		okIdx, why := false, "no name comparison guards the returned initializer"
		for _, iff := range controllingIfs(r) {
			if iff.Block().Succs[0] != r.Block() && !iff.Block().Succs[0].Dominates(r.Block()) {
				continue
			}
			bo, isB := iff.Cond.(*ssa.BinOp)
			if !isB || bo.Op != token.EQL {
				continue
			}
			for _, side := range [][2]ssa.Value{{bo.X, bo.Y}, {bo.Y, bo.X}} {
				nameLd, isL := side[0].(*ssa.UnOp)
				if !isL || nameLd.Op != token.MUL {
					continue
				}
				fa, isF := nameLd.X.(*ssa.FieldAddr)
				if !isF || fieldKey(fa) != "go/ast.Ident.Name" {
					continue
				}
				idLd, isL2 := fa.X.(*ssa.UnOp)
				if !isL2 {
					continue
				}
				nia, isI := idLd.X.(*ssa.IndexAddr)
				if !isI || !loadsField(nia.X, "go/ast.ValueSpec.Names") {
					continue
				}
				objName, isC := side[1].(*ssa.Call)
				if !isC || objName.Common().StaticCallee() == nil || objName.Common().StaticCallee().Name() != "Name" {
					continue
				}
				if nia.Index == ia.Index && sameSpec(nia.X, ia.X) {
					okIdx, why = true, fmt.Sprintf("Values[%s] under Names[%s].Name == obj.Name() of the same spec", ia.Index.Name(), nia.Index.Name())
				} else {
					why = fmt.Sprintf("the initializer index %s is not the index %s at which the variable's name was matched", describe(ia.Index), describe(nia.Index))
				}
			}
		}
		c.check(okIdx, rule, "getVarDecl:initializer-of-the-named-variable", L.pos(r.Pos()),
			"a Set variable resolves to its own initializer (the Values element at the index of its name in the spec)", why)
	}
	c.floor(rule, "initializer returns in getVarDecl", n, 1)
}

// loadsField: v is a load of the given struct field.
func loadsField(v ssa.Value, key string) bool {
	ld, ok := v.(*ssa.UnOp)
	if !ok || ld.Op != token.MUL {
		return false
	}
	fa, ok := ld.X.(*ssa.FieldAddr)
	return ok && fieldKey(fa) == key
}

// sameSpec: two field loads read fields of the same struct value.
func sameSpec(a, b ssa.Value) bool {
	la, ok1 := a.(*ssa.UnOp)
	lb, ok2 := b.(*ssa.UnOp)
	if !ok1 || !ok2 {
		return false
	}
	fa, ok1 := la.X.(*ssa.FieldAddr)
	fb, ok2 := lb.X.(*ssa.FieldAddr)
	return ok1 && ok2 && resolve(fa.X) == resolve(fb.X)
}

var _ = strings.Contains

// emittedCensus lists what the generator can emit, read off its templates: node kinds, constant selector names, constant
// callee identifiers. The happens-before analysis of the checked-in outputs (CO) and the template rules are arguments about
// a closed grammar; an emitted construct outside it is not covered by either.
type census struct {
	kinds     map[string][]*tmplSite
	selectors map[string][]*tmplSite // constant Sel of an emitted SelectorExpr
	callees   map[string][]*tmplSite // constant identifier in the Fun slot of an emitted CallExpr
}

func emittedCensus(L *Loaded) *census {
	p := L.Pkgs[genPkg]
	cs := &census{kinds: map[string][]*tmplSite{}, selectors: map[string][]*tmplSite{}, callees: map[string][]*tmplSite{}}
	for _, s := range collectTemplates(p) {
		cs.kinds[s.kind] = append(cs.kinds[s.kind], s)
		switch s.kind {
		case "SelectorExpr":
			if sel, ok := s.fields["Sel"]; ok {
				if name, isC := identConst(p, s.fn, sel); isC {
					cs.selectors[name] = append(cs.selectors[name], s)
				} else {
					cs.selectors["<computed>"] = append(cs.selectors["<computed>"], s)
				}
			}
		case "CallExpr":
			if fun, ok := s.fields["Fun"]; ok {
				if name, isC := identConst(p, s.fn, fun); isC {
					cs.callees[name] = append(cs.callees[name], s)
				}
			}
		}
	}
	return cs
}

// ruleClosedEmission: the emitted grammar is the one the concurrency argument was made for.
func ruleClosedEmission(c *Ctx, rule string) {
	L := c.L
	cs := emittedCensus(L)
	okKinds := map[string]bool{}
	for _, k := range strings.Fields("AssignStmt BasicLit BinaryExpr BlockStmt CallExpr CaseClause ChanType CommClause CompositeLit DeclStmt EmptyStmt ExprStmt Field FieldList FuncDecl FuncLit FuncType GenDecl Ident IfStmt ImportSpec IndexExpr IndexListExpr KeyValueExpr ReturnStmt SelectStmt SelectorExpr StarExpr StructType UnaryExpr ValueSpec ArrayType MapType Ellipsis InterfaceType File ParenExpr RangeStmt") {
		okKinds[k] = true
	}
	okSel := map[string]bool{"Context": true, "Fn": true, "Go": true, "Wait": true, "WithContext": true, "Group": true, "Done": true, "Err": true, "<computed>": true}
	okCallee := map[string]bool{"close": true, "make": true}
	n := 0
	for k, sites := range cs.kinds {
		n++
		if !okKinds[k] {
			c.fail(rule, "emitted-node-kind:"+k, L.pos(sites[0].lit.Pos()), "the generator emits a node kind ("+k+") that the analysed grammar of generated injectors does not contain; the concurrency rules do not cover it", sites[0].fnName())
		}
	}
	for k, sites := range cs.selectors {
		n++
		if !okSel[k] {
			c.fail(rule, "emitted-selector:"+k, L.pos(sites[0].lit.Pos()), "the generator emits a call/selection ."+k+" that is outside the analysed grammar (errgroup: WithContext/Go/Wait, context: Done/Err); its effect on scheduling is not covered", sites[0].fnName())
		}
	}
	for k, sites := range cs.callees {
		n++
		if !okCallee[k] {
			c.fail(rule, "emitted-callee:"+k, L.pos(sites[0].lit.Pos()), "the generator emits a call of "+k+" that is outside the analysed grammar (close, make)", sites[0].fnName())
		}
	}
	c.ok(rule, fmt.Sprintf("emitted grammar census: %d node kinds, %d constant selectors, %d constant callees, all inside the analysed grammar", len(cs.kinds), len(cs.selectors), len(cs.callees)), fmt.Sprintf("kinds=%v selectors=%v callees=%v", sortedKeys(cs.kinds), sortedKeys(cs.selectors), sortedKeys(cs.callees)))
	c.floor(rule, "census entries", n, 15)
}


// ruleRangeChannelDirection (C04.11): a generated `for _, ch := range []<dir>chan T{...} { body }` only does with ch what its
// element type permits: no close(ch) when the element type is receive-only, no receive when it is send-only. The body may
// be spliced in through a parameter of a template helper; the templates at the helper's call sites are then the body.
func ruleRangeChannelDirection(c *Ctx, rule string) {
	L := c.L
	p := L.Pkgs[genPkg]
	sites := collectTemplates(p)
	within := func(s *tmplSite, e ast.Expr) bool { return e != nil && s.lit.Pos() >= e.Pos() && s.lit.End() <= e.End() }
	under := func(s, anc *tmplSite, slot string) bool {
		for q := s; q.parent != nil; q = q.parent {
			if q.parent == anc {
				return q.slot == slot
			}
		}
		return false
	}
	// parameters from which some function builds a receive expression
	recvParam := map[types.Object]bool{}
	for _, s := range sites {
		if s.kind == "UnaryExpr" && tokenSet(p, s.fn, s.fields["Op"])["<-"] {
			if id, ok := ast.Unparen(s.fields["X"]).(*ast.Ident); ok {
				if o := p.TypesInfo.Uses[id]; o != nil {
					recvParam[o] = true
				}
			}
		}
	}
	dirName := func(e ast.Expr) string {
		switch exprString(e) {
		case "ast.SEND":
			return "send-only"
		case "ast.RECV":
			return "receive-only"
		case "ast.SEND | ast.RECV", "ast.RECV | ast.SEND":
			return "both"
		}
		return "unknown:" + exprString(e)
	}
	n := 0
	for _, r := range sites {
		if r.kind != "RangeStmt" {
			continue
		}
		valName, isC := identConst(p, r.fn, r.fields["Value"])
		if !isC {
			continue
		}
		var chanSite *tmplSite
		for _, s := range sites {
			if s.kind == "ChanType" && under(s, r, "X") {
				chanSite = s
			}
		}
		if chanSite == nil {
			continue
		}
		n++
		// which slots are filled from parameters of the enclosing helper
		dirParam, bodyParam, bodyVariadic := -1, -1, false
		if de, ok := chanSite.fields["Dir"]; ok {
			if id, isId := ast.Unparen(de).(*ast.Ident); isId {
				dirParam, _ = astParamIndex(p, r.fn, p.TypesInfo.Uses[id])
			}
		}
		for _, s := range sites {
			if s.kind == "BlockStmt" && s.parent == r && s.slot == "Body" {
				if id, ok := ast.Unparen(s.fields["List"]).(*ast.Ident); ok {
					bodyParam, bodyVariadic = astParamIndex(p, r.fn, p.TypesInfo.Uses[id])
					if bodyParam < 0 {
						c.undecided(rule, r.fnName()+":range-body", "the loop body is a computed statement list: "+exprString(s.fields["List"]))
					}
				}
			}
		}
		type instance struct {
			where string
			dir   string
			body  []ast.Expr
		}
		var insts []instance
		base := instance{where: r.fnName(), dir: "both"}
		if de, ok := chanSite.fields["Dir"]; ok && dirParam < 0 {
			base.dir = dirName(de)
		}
		if be := r.fields["Body"]; be != nil && bodyParam < 0 {
			base.body = []ast.Expr{be}
		}
		if dirParam < 0 && bodyParam < 0 {
			insts = append(insts, base)
		} else {
			for _, f := range p.Syntax {
				ast.Inspect(f, func(m ast.Node) bool {
					call, ok := m.(*ast.CallExpr)
					if !ok || calleeDecl(p, call) != r.fn {
						return true
					}
					in := base
					in.where = r.fnName() + " called at " + L.pos(call.Pos())
					for i, a := range call.Args {
						if i == dirParam {
							in.dir = dirName(a)
						}
						if bodyParam >= 0 && (i == bodyParam || (bodyVariadic && i > bodyParam)) {
							in.body = append(in.body, a)
						}
					}
					insts = append(insts, in)
					return true
				})
			}
		}
		for _, in := range insts {
			uses := map[string]string{}
			for _, s := range sites {
				inBody := false
				for _, be := range in.body {
					if within(s, be) {
						inBody = true
					}
				}
				if !inBody {
					continue
				}
				if s.kind == "CallExpr" {
					if fn, ok := identConst(p, s.fn, s.fields["Fun"]); ok && fn == "close" {
						if args, ok := ast.Unparen(s.fields["Args"]).(*ast.CompositeLit); ok {
							for _, a := range args.Elts {
								if nm, ok := identConst(p, s.fn, a); ok && nm == valName {
									uses["close"] = L.pos(s.lit.Pos())
								}
							}
						}
					}
				}
				if s.kind == "UnaryExpr" && tokenSet(p, s.fn, s.fields["Op"])["<-"] {
					if nm, ok := identConst(p, s.fn, s.fields["X"]); ok && nm == valName {
						uses["receive"] = L.pos(s.lit.Pos())
					}
				}
			}
			// a call in the body that hands NewIdent(valName) to a helper which builds a receive from that parameter
			for _, be := range in.body {
				ast.Inspect(be, func(m ast.Node) bool {
					call, ok := m.(*ast.CallExpr)
					if !ok {
						return true
					}
					fd := calleeDecl(p, call)
					if fd == nil || fd.Type.Params == nil {
						return true
					}
					var params []types.Object
					for _, fl := range fd.Type.Params.List {
						for _, nm := range fl.Names {
							params = append(params, p.TypesInfo.Defs[nm])
						}
					}
					for i, a := range call.Args {
						if nm, ok := identConst(p, r.fn, a); ok && nm == valName && i < len(params) && recvParam[params[i]] {
							uses["receive"] = L.pos(call.Pos())
						}
					}
					return true
				})
			}
			bad := ""
			switch {
			case in.dir == "receive-only" && uses["close"] != "":
				bad = "close(" + valName + ") at " + uses["close"] + " on an element of a receive-only channel slice (does not compile)"
			case in.dir == "send-only" && uses["receive"] != "":
				bad = "receive from " + valName + " at " + uses["receive"] + " on an element of a send-only channel slice (does not compile)"
			case strings.HasPrefix(in.dir, "unknown"):
				bad = "channel direction " + in.dir
			}
			c.check(bad == "", rule, r.fnName()+":range-over-channels:"+in.dir, L.pos(r.lit.Pos()),
				"a generated range over done-channels uses its element only as the element type ("+in.dir+") permits", fmt.Sprintf("%s: uses=%v %s", in.where, sortedKeys(uses), bad))
		}
	}
	c.floor(rule, "generated range-over-channel loops", n, 1)
}

// astParamIndex: obj is the idx-th parameter of fn (variadic tells whether it is the variadic one); -1 otherwise.
func astParamIndex(p *packages.Package, fn *ast.FuncDecl, obj types.Object) (int, bool) {
	if fn == nil || fn.Type.Params == nil || obj == nil {
		return -1, false
	}
	i := 0
	for _, fl := range fn.Type.Params.List {
		_, isVar := fl.Type.(*ast.Ellipsis)
		for _, nm := range fl.Names {
			if p.TypesInfo.Defs[nm] == obj {
				return i, isVar
			}
			i++
		}
	}
	return -1, false
}

// calleeDecl: the package-level function or method declaration a call resolves to (nil for others).
func calleeDecl(p *packages.Package, call *ast.CallExpr) *ast.FuncDecl {
	var id *ast.Ident
	switch f := ast.Unparen(call.Fun).(type) {
	case *ast.Ident:
		id = f
	case *ast.SelectorExpr:
		id = f.Sel
	}
	if id == nil {
		return nil
	}
	obj := p.TypesInfo.Uses[id]
	if obj == nil {
		return nil
	}
	for _, f := range p.Syntax {
		for _, d := range f.Decls {
			if fd, ok := d.(*ast.FuncDecl); ok && p.TypesInfo.Defs[fd.Name] == obj {
				return fd
			}
		}
	}
	return nil
}

// rulePoolsAppendOnly: a pool (one sequential lane) only grows at its end, in the order in which the topological sort yields
// providers. The wait computation (same pool => no wait), the backward scan of findOptimalPool and "a lane starts with its
// first provider" all read a pool as "earlier element runs earlier".
func rulePoolsAppendOnly(c *Ctx, rule string) {
	L := c.L
	build := genFn(c, rule, "(*Graph).Build")
	if build == nil {
		return
	}
	isPool := func(t types.Type) bool {
		return strings.HasSuffix(t.String(), "[]*"+genPkg+".node") && !strings.HasPrefix(t.String(), "[][]") && !strings.HasPrefix(t.String(), "*")
	}
	n := 0
	for _, fn := range withClosures(build) {
		for _, b := range fn.Blocks {
			for _, in := range b.Instrs {
				st, ok := in.(*ssa.Store)
				if !ok {
					continue
				}
				ia, ok := st.Addr.(*ssa.IndexAddr)
				if !ok || !isPool(st.Val.Type()) {
					continue
				}
				if !strings.HasSuffix(ia.X.Type().String(), "[][]*"+genPkg+".node") {
					continue
				}
				n++
				okA, why := false, "the pool is rebuilt by "+describe(st.Val)
				if call, isC := st.Val.(*ssa.Call); isC {
					if bi, isB := call.Common().Value.(*ssa.Builtin); isB && bi.Name() == "append" && len(call.Common().Args) == 2 {
						if ld, isL := call.Common().Args[0].(*ssa.UnOp); isL && ld.Op == token.MUL {
							if ia0, isI := ld.X.(*ssa.IndexAddr); isI && ia0.Index == ia.Index && sameCell(ia0.X, ia.X) {
								okA, why = true, "pools[i] = append(pools[i], ...)"
							} else {
								why = "append to a different pool than the one stored"
							}
						}
					}
				}
				c.check(okA, rule, fnName(build)+":pool-grows-at-its-end", L.pos(st.Pos()),
					"a provider is added to its pool by appending (pool order = topological order; no insertion or reordering inside a lane)", why)
			}
		}
	}
	c.floor(rule, "stores into a pool slot in Build", n, 1)
}

// sameCell: two values are loads of the same variable cell (or the same value).
func sameCell(a, b ssa.Value) bool {
	if a == b {
		return true
	}
	la, ok1 := a.(*ssa.UnOp)
	lb, ok2 := b.(*ssa.UnOp)
	return ok1 && ok2 && la.Op == token.MUL && lb.Op == token.MUL && la.X == lb.X
}
