package main

import (
	"go/constant"
	"fmt"
	"go/ast"
	"go/token"
	"go/types"
	"os"
	"regexp"
	"sort"
	"strings"

	"golang.org/x/tools/go/packages"

	"golang.org/x/tools/go/ssa"
)

// Third-round rules (added after the third sweep of independently seeded changes).

// ruleSetVariableInitializer (C02.9): a Set held in a variable is resolved to the initializer of THAT variable: the element
// of ValueSpec.Values that getVarDecl returns is indexed by the position at which the variable's own name was found in
// ValueSpec.Names (`var A, B = Set(..), Set(..)` declares two different Sets).
func ruleSetVariableInitializer(c *Ctx, rule string) {
	L := c.L
	fn := genFn(c, rule, "(*Parser).getVarDecl")
	if fn == nil {
		return
	}
	n := 0
	for _, r := range returnsOf(fn) {
		if len(r.Results) != 1 || isNilConst(r.Results[0]) {
			continue
		}
		ld, ok := r.Results[0].(*ssa.UnOp)
		if !ok || ld.Op != token.MUL {
			c.fail(rule, "getVarDecl:returned-initializer", L.pos(r.Pos()), "the returned expression is not an element of the declaring spec's Values", describe(r.Results[0]))
			continue
		}
		ia, ok := ld.X.(*ssa.IndexAddr)
		if !ok || !loadsField(ia.X, "go/ast.ValueSpec.Values") {
			c.fail(rule, "getVarDecl:returned-initializer", L.pos(r.Pos()), "the returned expression is not an element of the declaring spec's Values", describe(ld.X))
			continue
		}
		n++
		// the index is the one at which Names[idx].Name == obj.Name() was established
		okIdx, why := false, "no name comparison guards the returned initializer"
		for _, iff := range controllingIfs(r) {
			if iff.Block().Succs[0] != r.Block() && !iff.Block().Succs[0].Dominates(r.Block()) {
				continue
			}
			bo, isB := iff.Cond.(*ssa.BinOp)
			if !isB || bo.Op != token.EQL {
				continue
			}
			for _, side := range [][2]ssa.Value{{bo.X, bo.Y}, {bo.Y, bo.X}} {
				nameLd, isL := side[0].(*ssa.UnOp)
				if !isL || nameLd.Op != token.MUL {
					continue
				}
				fa, isF := nameLd.X.(*ssa.FieldAddr)
				if !isF || fieldKey(fa) != "go/ast.Ident.Name" {
					continue
				}
				idLd, isL2 := fa.X.(*ssa.UnOp)
				if !isL2 {
					continue
				}
				nia, isI := idLd.X.(*ssa.IndexAddr)
				if !isI || !loadsField(nia.X, "go/ast.ValueSpec.Names") {
					continue
				}
				objName, isC := side[1].(*ssa.Call)
				if !isC || objName.Common().StaticCallee() == nil || objName.Common().StaticCallee().Name() != "Name" {
					continue
				}
				if nia.Index == ia.Index && sameSpec(nia.X, ia.X) {
					okIdx, why = true, fmt.Sprintf("Values[%s] under Names[%s].Name == obj.Name() of the same spec", ia.Index.Name(), nia.Index.Name())
				} else {
					why = fmt.Sprintf("the initializer index %s is not the index %s at which the variable's name was matched", describe(ia.Index), describe(nia.Index))
				}
			}
		}
		// the library form of the same search: i := slices.IndexFunc(spec.Names, func(id) bool { return id.Name == obj.Name() })
		if !okIdx {
			if call, isCall := resolve(ia.Index).(*ssa.Call); isCall {
				if cal := call.Common().StaticCallee(); cal != nil && fnPkgPath(cal) == "slices" && strings.HasPrefix(cal.Name(), "IndexFunc") && len(call.Common().Args) == 2 {
					if loadsField(call.Common().Args[0], "go/ast.ValueSpec.Names") && sameSpec(call.Common().Args[0], ia.X) {
						if mc, isMC := resolve(call.Common().Args[1]).(*ssa.MakeClosure); isMC {
							pf := mc.Fn.(*ssa.Function)
							rs := returnsOf(pf)
							if len(rs) == 1 && len(pf.Params) == 1 {
								if bo, isB := rs[0].Results[0].(*ssa.BinOp); isB && bo.Op == token.EQL {
									for _, side := range [][2]ssa.Value{{bo.X, bo.Y}, {bo.Y, bo.X}} {
										nameLd, isL := side[0].(*ssa.UnOp)
										if !isL {
											continue
										}
										fa, isF := nameLd.X.(*ssa.FieldAddr)
										if !isF || fieldKey(fa) != "go/ast.Ident.Name" || resolve(fa.X) != ssa.Value(pf.Params[0]) {
											continue
										}
										if objName, isC := side[1].(*ssa.Call); isC && objName.Common().StaticCallee() != nil && objName.Common().StaticCallee().Name() == "Name" {
											okIdx, why = true, "Values[slices.IndexFunc(Names, name == obj.Name())] of the same spec"
										}
									}
								}
							}
						}
					}
				}
			}
		}
		c.check(okIdx, rule, "getVarDecl:initializer-of-the-named-variable", L.pos(r.Pos()),
			"a Set variable resolves to its own initializer (the Values element at the index of its name in the spec)", why)
	}
	c.floor(rule, "initializer returns in getVarDecl", n, 1)
}

// loadsField: v is a load of the given struct field.
func loadsField(v ssa.Value, key string) bool {
	ld, ok := v.(*ssa.UnOp)
	if !ok || ld.Op != token.MUL {
		return false
	}
	fa, ok := ld.X.(*ssa.FieldAddr)
	return ok && fieldKey(fa) == key
}

// sameSpec: two field loads read fields of the same struct value.
func sameSpec(a, b ssa.Value) bool {
	la, ok1 := a.(*ssa.UnOp)
	lb, ok2 := b.(*ssa.UnOp)
	if !ok1 || !ok2 {
		return false
	}
	fa, ok1 := la.X.(*ssa.FieldAddr)
	fb, ok2 := lb.X.(*ssa.FieldAddr)
	return ok1 && ok2 && resolve(fa.X) == resolve(fb.X)
}

var _ = strings.Contains

// emittedCensus lists what the generator can emit, read off its templates: node kinds, constant selector names, constant
// callee identifiers. The happens-before analysis of the checked-in outputs (CO) and the template rules are arguments about
// a closed grammar; an emitted construct outside it is not covered by either.
type census struct {
	kinds     map[string][]*tmplSite
	selectors map[string][]*tmplSite // constant Sel of an emitted SelectorExpr
	callees   map[string][]*tmplSite // constant identifier in the Fun slot of an emitted CallExpr
}

func emittedCensus(L *Loaded) *census {
	p := L.Pkgs[genPkg]
	cs := &census{kinds: map[string][]*tmplSite{}, selectors: map[string][]*tmplSite{}, callees: map[string][]*tmplSite{}}
	for _, s := range collectTemplates(p) {
		cs.kinds[s.kind] = append(cs.kinds[s.kind], s)
		switch s.kind {
		case "SelectorExpr":
			if sel, ok := s.fields["Sel"]; ok {
				if name, isC := identConst(p, s.fn, sel); isC {
					cs.selectors[name] = append(cs.selectors[name], s)
				} else {
					cs.selectors["<computed>"] = append(cs.selectors["<computed>"], s)
				}
			}
		case "CallExpr":
			if fun, ok := s.fields["Fun"]; ok {
				if name, isC := identConst(p, s.fn, fun); isC {
					cs.callees[name] = append(cs.callees[name], s)
				}
			}
		}
	}
	return cs
}

// ruleClosedEmission: the emitted grammar is the one the concurrency argument was made for.
func ruleClosedEmission(c *Ctx, rule string) {
	L := c.L
	cs := emittedCensus(L)
	okKinds := map[string]bool{}
	for _, k := range strings.Fields("AssignStmt BasicLit BinaryExpr BlockStmt CallExpr CaseClause ChanType CommClause CompositeLit DeclStmt EmptyStmt ExprStmt Field FieldList FuncDecl FuncLit FuncType GenDecl Ident IfStmt ImportSpec IndexExpr IndexListExpr KeyValueExpr ReturnStmt SelectStmt SelectorExpr StarExpr StructType UnaryExpr ValueSpec ArrayType MapType Ellipsis InterfaceType File ParenExpr RangeStmt") {
		okKinds[k] = true
	}
	okSel := map[string]bool{"Context": true, "Fn": true, "Go": true, "Wait": true, "WithContext": true, "Group": true, "Done": true, "Err": true, "<computed>": true}
	okCallee := map[string]bool{"close": true, "make": true}
	n := 0
	for k, sites := range cs.kinds {
		n++
		if !okKinds[k] {
			c.fail(rule, "emitted-node-kind:"+k, L.pos(sites[0].lit.Pos()), "the generator emits a node kind ("+k+") that the analysed grammar of generated injectors does not contain; the concurrency rules do not cover it", sites[0].fnName())
		}
	}
	for k, sites := range cs.selectors {
		n++
		if !okSel[k] {
			c.fail(rule, "emitted-selector:"+k, L.pos(sites[0].lit.Pos()), "the generator emits a call/selection ."+k+" that is outside the analysed grammar (errgroup: WithContext/Go/Wait, context: Done/Err); its effect on scheduling is not covered", sites[0].fnName())
		}
	}
	for k, sites := range cs.callees {
		n++
		if !okCallee[k] {
			c.fail(rule, "emitted-callee:"+k, L.pos(sites[0].lit.Pos()), "the generator emits a call of "+k+" that is outside the analysed grammar (close, make)", sites[0].fnName())
		}
	}
	c.ok(rule, fmt.Sprintf("emitted grammar census: %d node kinds, %d constant selectors, %d constant callees, all inside the analysed grammar", len(cs.kinds), len(cs.selectors), len(cs.callees)), fmt.Sprintf("kinds=%v selectors=%v callees=%v", sortedKeys(cs.kinds), sortedKeys(cs.selectors), sortedKeys(cs.callees)))
	c.floor(rule, "census entries", n, 15)
}

// ruleRangeChannelDirection (C04.11): a generated `for _, ch := range []<dir>chan T{...} { body }` only does with ch what its
// element type permits: no close(ch) when the element type is receive-only, no receive when it is send-only. The body may
// be spliced in through a parameter of a template helper; the templates at the helper's call sites are then the body.
func ruleRangeChannelDirection(c *Ctx, rule string) {
	L := c.L
	p := L.Pkgs[genPkg]
	sites := collectTemplates(p)
	within := func(s *tmplSite, e ast.Expr) bool {
		return e != nil && s.lit.Pos() >= e.Pos() && s.lit.End() <= e.End()
	}
	under := func(s, anc *tmplSite, slot string) bool {
		for q := s; q.parent != nil; q = q.parent {
			if q.parent == anc {
				return q.slot == slot
			}
		}
		return false
	}
	// parameters from which some function builds a receive expression
	recvParam := map[types.Object]bool{}
	for _, s := range sites {
		if s.kind == "UnaryExpr" && tokenSet(p, s.fn, s.fields["Op"])["<-"] {
			if id, ok := ast.Unparen(s.fields["X"]).(*ast.Ident); ok {
				if o := p.TypesInfo.Uses[id]; o != nil {
					recvParam[o] = true
				}
			}
		}
	}
	dirName := func(e ast.Expr) string {
		switch exprString(e) {
		case "ast.SEND":
			return "send-only"
		case "ast.RECV":
			return "receive-only"
		case "ast.SEND | ast.RECV", "ast.RECV | ast.SEND":
			return "both"
		}
		return "unknown:" + exprString(e)
	}
	n := 0
	for _, r := range sites {
		if r.kind != "RangeStmt" {
			continue
		}
		valName, isC := identConst(p, r.fn, r.fields["Value"])
		if !isC {
			continue
		}
		var chanSite *tmplSite
		for _, s := range sites {
			if s.kind == "ChanType" && under(s, r, "X") {
				chanSite = s
			}
		}
		if chanSite == nil {
			continue
		}
		n++
		// which slots are filled from parameters of the enclosing helper
		dirParam, bodyParam, bodyVariadic := -1, -1, false
		if de, ok := chanSite.fields["Dir"]; ok {
			if id, isId := ast.Unparen(de).(*ast.Ident); isId {
				dirParam, _ = astParamIndex(p, r.fn, p.TypesInfo.Uses[id])
			}
		}
		for _, s := range sites {
			if s.kind == "BlockStmt" && s.parent == r && s.slot == "Body" {
				if id, ok := ast.Unparen(s.fields["List"]).(*ast.Ident); ok {
					bodyParam, bodyVariadic = astParamIndex(p, r.fn, p.TypesInfo.Uses[id])
					if bodyParam < 0 {
						c.undecided(rule, r.fnName()+":range-body", "the loop body is a computed statement list: "+exprString(s.fields["List"]))
					}
				}
			}
		}
		type instance struct {
			where string
			dir   string
			body  []ast.Expr
		}
		var insts []instance
		base := instance{where: r.fnName(), dir: "both"}
		if de, ok := chanSite.fields["Dir"]; ok && dirParam < 0 {
			base.dir = dirName(de)
		}
		if be := r.fields["Body"]; be != nil && bodyParam < 0 {
			base.body = []ast.Expr{be}
		}
		if dirParam < 0 && bodyParam < 0 {
			insts = append(insts, base)
		} else {
			for _, f := range p.Syntax {
				ast.Inspect(f, func(m ast.Node) bool {
					call, ok := m.(*ast.CallExpr)
					if !ok || calleeDecl(p, call) != r.fn {
						return true
					}
					in := base
					in.where = r.fnName() + " called at " + L.pos(call.Pos())
					for i, a := range call.Args {
						if i == dirParam {
							in.dir = dirName(a)
						}
						if bodyParam >= 0 && (i == bodyParam || (bodyVariadic && i > bodyParam)) {
							in.body = append(in.body, a)
						}
					}
					insts = append(insts, in)
					return true
				})
			}
		}
		for _, in := range insts {
			uses := map[string]string{}
			for _, s := range sites {
				inBody := false
				for _, be := range in.body {
					if within(s, be) {
						inBody = true
					}
				}
				// a loop built by a builder helper and read at its call site: the body's templates hang below this very site
				if r.inst && under(s, r, "Body") {
					inBody = true
				}
				if !inBody {
					continue
				}
				if s.kind == "CallExpr" {
					if fn, ok := identConst(p, s.fn, s.fields["Fun"]); ok && fn == "close" {
						if args, ok := ast.Unparen(s.fields["Args"]).(*ast.CompositeLit); ok {
							for _, a := range args.Elts {
								if nm, ok := identConst(p, s.fn, a); ok && nm == valName {
									uses["close"] = L.pos(s.lit.Pos())
								}
							}
						}
					}
				}
				if s.kind == "UnaryExpr" && tokenSet(p, s.fn, s.fields["Op"])["<-"] {
					if nm, ok := identConst(p, s.fn, s.fields["X"]); ok && nm == valName {
						uses["receive"] = L.pos(s.lit.Pos())
					}
				}
			}
			// a call in the body that hands NewIdent(valName) to a helper which builds a receive from that parameter
			for _, be := range in.body {
				ast.Inspect(be, func(m ast.Node) bool {
					call, ok := m.(*ast.CallExpr)
					if !ok {
						return true
					}
					fd := calleeDecl(p, call)
					if fd == nil || fd.Type.Params == nil {
						return true
					}
					var params []types.Object
					for _, fl := range fd.Type.Params.List {
						for _, nm := range fl.Names {
							params = append(params, p.TypesInfo.Defs[nm])
						}
					}
					for i, a := range call.Args {
						if nm, ok := identConst(p, r.fn, a); ok && nm == valName && i < len(params) && recvParam[params[i]] {
							uses["receive"] = L.pos(call.Pos())
						}
					}
					return true
				})
			}
			bad := ""
			switch {
			case in.dir == "receive-only" && uses["close"] != "":
				bad = "close(" + valName + ") at " + uses["close"] + " on an element of a receive-only channel slice (does not compile)"
			case in.dir == "send-only" && uses["receive"] != "":
				bad = "receive from " + valName + " at " + uses["receive"] + " on an element of a send-only channel slice (does not compile)"
			case strings.HasPrefix(in.dir, "unknown"):
				bad = "channel direction " + in.dir
			}
			c.check(bad == "", rule, r.fnName()+":range-over-channels:"+in.dir, L.pos(r.lit.Pos()),
				"a generated range over done-channels uses its element only as the element type ("+in.dir+") permits", fmt.Sprintf("%s: uses=%v %s", in.where, sortedKeys(uses), bad))
		}
	}
	c.floor(rule, "generated range-over-channel loops", n, 1)
}

// astParamIndex: obj is the idx-th parameter of fn (variadic tells whether it is the variadic one); -1 otherwise.
func astParamIndex(p *packages.Package, fn *ast.FuncDecl, obj types.Object) (int, bool) {
	if fn == nil || fn.Type.Params == nil || obj == nil {
		return -1, false
	}
	i := 0
	for _, fl := range fn.Type.Params.List {
		_, isVar := fl.Type.(*ast.Ellipsis)
		for _, nm := range fl.Names {
			if p.TypesInfo.Defs[nm] == obj {
				return i, isVar
			}
			i++
		}
	}
	return -1, false
}

// calleeDecl: the package-level function or method declaration a call resolves to (nil for others).
func calleeDecl(p *packages.Package, call *ast.CallExpr) *ast.FuncDecl {
	var id *ast.Ident
	switch f := ast.Unparen(call.Fun).(type) {
	case *ast.Ident:
		id = f
	case *ast.SelectorExpr:
		id = f.Sel
	}
	if id == nil {
		return nil
	}
	obj := p.TypesInfo.Uses[id]
	if obj == nil {
		return nil
	}
	for _, f := range p.Syntax {
		for _, d := range f.Decls {
			if fd, ok := d.(*ast.FuncDecl); ok && p.TypesInfo.Defs[fd.Name] == obj {
				return fd
			}
		}
	}
	return nil
}

// rulePoolsAppendOnly: a pool (one sequential lane) only grows at its end, in the order in which the topological sort yields
// providers. The wait computation (same pool => no wait), the backward scan of findOptimalPool and "a lane starts with its
// first provider" all read a pool as "earlier element runs earlier".
func rulePoolsAppendOnly(c *Ctx, rule string) {
	L := c.L
	build := genFn(c, rule, "(*Graph).Build")
	if build == nil {
		return
	}
	isPool := func(t types.Type) bool {
		return strings.HasSuffix(t.String(), "[]*"+genPkg+".node") && !strings.HasPrefix(t.String(), "[][]") && !strings.HasPrefix(t.String(), "*")
	}
	n := 0
	for _, fn := range family(L, build) {
		for _, b := range fn.Blocks {
			for _, in := range b.Instrs {
				st, ok := in.(*ssa.Store)
				if !ok {
					continue
				}
				ia, ok := st.Addr.(*ssa.IndexAddr)
				if !ok || !isPool(st.Val.Type()) {
					continue
				}
				if !strings.HasSuffix(ia.X.Type().String(), "[][]*"+genPkg+".node") {
					continue
				}
				n++
				// the node's lane is recorded where it is assigned: the wait flags are computed from that record
				if call, isC := st.Val.(*ssa.Call); isC {
					if bi, isB := call.Common().Value.(*ssa.Builtin); isB && bi.Name() == "append" && len(call.Common().Args) == 2 {
						if elems, okE := variadicElems(call.Common().Args[1]); okE && len(elems) == 1 {
							recorded := false
							for _, b2 := range fn.Blocks {
								for _, in2 := range b2.Instrs {
									mu, isMU := in2.(*ssa.MapUpdate)
									if !isMU || mu.Map.Type().String() != "map[*"+genPkg+".node]int" {
										continue
									}
									sameIdx := sameValueOrigin(mu.Value, ia.Index)
									if ph, isPhi := resolve(mu.Value).(*ssa.Phi); isPhi {
										// recorded after the branches join: the index on the branch that appended
										for k, e := range ph.Edges {
											pred := ph.Block().Preds[k]
											if sameValueOrigin(e, ia.Index) && (pred == st.Block() || st.Block().Dominates(pred)) {
												sameIdx = true
											}
										}
									}
									if sameValueOrigin(mu.Key, elems[0]) && sameIdx {
										// on every path that goes on after the append (in either order within one block)
										every := instrDominates(mu, st) || mu.Block() == st.Block()
										if !every {
											every = true
											seenB := map[*ssa.BasicBlock]bool{}
											var walk func(b *ssa.BasicBlock)
											walk = func(b *ssa.BasicBlock) {
												if seenB[b] || b == mu.Block() {
													return
												}
												seenB[b] = true
												if len(b.Instrs) > 0 {
													if _, isR := b.Instrs[len(b.Instrs)-1].(*ssa.Return); isR && b != st.Block() {
														if okE, _ := allPathsReturnNonNil(b, map[*ssa.BasicBlock]bool{}); !okE {
															every = false
														}
													}
												}
												for _, sc := range b.Succs {
													walk(sc)
												}
											}
											for _, sc := range st.Block().Succs {
												walk(sc)
											}
										}
										if every {
											recorded = true
										}
									}
								}
							}
							c.check(recorded, rule, fnName(fn)+":lane-recorded-with-the-append", L.pos(st.Pos()),
								"wherever a node is appended to a pool, its pool index is recorded for it (same node, same index): the second pass decides every wait from that record", "node-to-pool record next to the append")
						}
					}
				}
				okA, why := false, "the pool is rebuilt by "+describe(st.Val)
				if call, isC := st.Val.(*ssa.Call); isC {
					if bi, isB := call.Common().Value.(*ssa.Builtin); isB && bi.Name() == "append" && len(call.Common().Args) == 2 {
						if ld, isL := call.Common().Args[0].(*ssa.UnOp); isL && ld.Op == token.MUL {
							if ia0, isI := ld.X.(*ssa.IndexAddr); isI && ia0.Index == ia.Index && sameCell(ia0.X, ia.X) {
								okA, why = true, "pools[i] = append(pools[i], ...)"
							} else {
								why = "append to a different pool than the one stored"
							}
						}
					}
				}
				c.check(okA, rule, fnName(build)+":pool-grows-at-its-end", L.pos(st.Pos()),
					"a provider is added to its pool by appending (pool order = topological order; no insertion or reordering inside a lane)", why)
			}
		}
	}
	c.floor(rule, "stores into a pool slot in Build", n, 1)
	// and nothing rearranges a list of nodes in place afterwards: no element store into a []*node, no library call that
	// permutes one (a later pass that "improves" the order inside a lane breaks what the wait flags were computed for)
	nodeListT := func(t types.Type) bool { return t.String() == "[]*"+genPkg+".node" }
	// a lane or the graph's node list: a pool read from the pool table, a list handed in as a parameter, a field of the
	// graph - not a list the function has just built for itself (a path for an error message, a work list)
	var shared func(v ssa.Value, d int) bool
	shared = func(v ssa.Value, d int) bool {
		if d > 4 {
			return false
		}
		switch x := resolve(v).(type) {
		case *ssa.Parameter:
			return true
		case *ssa.UnOp:
			if x.Op == token.MUL {
				switch a := x.X.(type) {
				case *ssa.IndexAddr:
					return strings.HasSuffix(a.X.Type().String(), "[][]*"+genPkg+".node")
				case *ssa.FieldAddr:
					return true
				}
			}
		case *ssa.Slice:
			return shared(x.X, d+1)
		case *ssa.Phi:
			for _, e := range x.Edges {
				if shared(e, d+1) {
					return true
				}
			}
		}
		return false
	}
	nodeList := func(t types.Type) bool { return nodeListT(t) }
	for _, fn := range pkgFuncs(L, genPkg) {
		for _, b := range fn.Blocks {
			for _, in := range b.Instrs {
				switch x := in.(type) {
				case *ssa.Store:
					ia, ok := x.Addr.(*ssa.IndexAddr)
					if !ok || !nodeList(ia.X.Type()) {
						continue
					}
					if al, isAl := ia.X.(*ssa.Alloc); isAl && (al.Comment == "varargs" || al.Comment == "slicelit") {
						continue
					}
					if sl, isSl := ia.X.(*ssa.Slice); isSl {
						if _, isAl := sl.X.(*ssa.Alloc); isAl {
							continue // the backing array of a literal or of variadic arguments
						}
					}
					if !shared(ia.X, 0) {
						continue
					}
					c.fail(rule, fnName(fn)+":node-list-rearranged", L.pos(x.Pos()), "an element of a list of nodes is overwritten in place: the order of a lane (or of the node list) is changed after it was decided", describe(ia.X))
				case *ssa.Call:
					cal := x.Common().StaticCallee()
					if cal == nil || (fnPkgPath(cal) != "slices" && fnPkgPath(cal) != "sort") {
						continue
					}
					switch {
					case strings.HasPrefix(cal.Name(), "Sort"), strings.HasPrefix(cal.Name(), "Reverse"), strings.HasPrefix(cal.Name(), "Insert"), strings.HasPrefix(cal.Name(), "Delete"), strings.HasPrefix(cal.Name(), "Replace"), strings.HasPrefix(cal.Name(), "Compact"), cal.Name() == "Slice", cal.Name() == "SliceStable", cal.Name() == "Stable":
						for _, a := range x.Common().Args {
							if nodeList(a.Type()) && shared(a, 0) {
								c.fail(rule, fnName(fn)+":node-list-rearranged", L.pos(x.Pos()), "a list of nodes is permuted by "+cal.Name()+": the order of a lane (or of the node list) is changed after it was decided", describe(a))
							}
						}
					}
				}
			}
		}
	}
}

// sameCell: two values are loads of the same variable cell (or the same value).
func sameCell(a, b ssa.Value) bool {
	if a == b {
		return true
	}
	la, ok1 := a.(*ssa.UnOp)
	lb, ok2 := b.(*ssa.UnOp)
	return ok1 && ok2 && la.Op == token.MUL && lb.Op == token.MUL && la.X == lb.X
}

// ruleHandlerDiscipline: (a) where an error branch is emitted, its body is exactly what the handler returns - nothing is put
// in front of the return (no close that would release dependants of a failed provider, no blocking call); (b) the injector-
// level handlers themselves emit only the zero declaration and the return.
func ruleHandlerDiscipline(c *Ctx, rule string) {
	L := c.L
	p := L.Pkgs[genPkg]
	gs := genFn(c, rule, "generateStmts")
	bws := genFn(c, rule, "(*InjectorProviderCallStmt).buildWaitStatement")
	beh := genFn(c, rule, "(*InjectorProviderCallStmt).buildErrorHandlingStatement")
	if gs == nil || bws == nil || beh == nil {
		return
	}
	// (a)
	n := 0
	for _, fn := range []*ssa.Function{bws, beh} {
		for _, cs := range callsIn(fn) {
			if cs.common.StaticCallee() != nil || cs.common.IsInvoke() || cs.value() == nil {
				continue
			}
			if _, isB := cs.common.Value.(*ssa.Builtin); isB {
				continue
			}
			if _, isP := resolve(cs.common.Value).(*ssa.Parameter); !isP {
				continue
			}
			n++
			call := cs.value()
			okUse, why := true, "stored as the branch body"
			stored := false
			var follow func(v ssa.Value, depth int)
			follow = func(v ssa.Value, depth int) {
				if v.Referrers() == nil || depth > 4 {
					return
				}
				for _, r := range *v.Referrers() {
					switch x := r.(type) {
					case *ssa.Store:
						if fa, ok := x.Addr.(*ssa.FieldAddr); ok && x.Val == v {
							k := fieldKey(fa)
							if k == "go/ast.BlockStmt.List" || k == "go/ast.CommClause.Body" || k == "go/ast.CaseClause.Body" {
								stored = true
								continue
							}
						}
						if al, ok := x.Addr.(*ssa.Alloc); ok && x.Val == v {
							// spilled into a local: follow its loads
							for _, rr := range *al.Referrers() {
								if ld, ok := rr.(*ssa.UnOp); ok && ld.Op == token.MUL {
									follow(ld, depth+1)
								}
							}
							continue
						}
						okUse, why = false, "the handler's statements are stored into "+describe(x.Addr)
					case *ssa.DebugRef:
					case *ssa.Phi:
						follow(x, depth+1)
					default:
						okUse, why = false, "the handler's statements are passed to "+describe2(r)+" before they become the branch body"
					}
				}
			}
			follow(call, 0)
			c.check(okUse && stored, rule, fnName(fn)+":error-branch-is-the-handler's-statements", L.pos(call.Pos()),
				"the emitted failure branch consists of exactly the statements the error handler returns (a failed provider closes nothing and waits for nothing before returning)", why)
		}
	}
	c.floor(rule, "handler invocations in the error-branch builders", n, 2)
	// (b)
	// every function or closure of the handler type func(ast.Expr) []ast.Stmt, wherever it is defined
	m := 0
	hasReturn := map[ast.Node]bool{}
	where := map[ast.Node]*tmplSite{}
	for _, s := range collectTemplates(p) {
		if s.fn == nil || s.parent != nil || !strings.HasSuffix(s.kind, "Stmt") {
			continue
		}
		var owner ast.Node
		if s.fnLit != nil {
			if t := p.TypesInfo.TypeOf(s.fnLit); t != nil && isHandlerSig(t) {
				owner = s.fnLit
			}
		} else if o := p.TypesInfo.Defs[s.fn.Name]; o != nil && isHandlerSig(o.Type()) {
			owner = s.fn
		}
		if owner == nil {
			continue
		}
		m++
		if _, seen := hasReturn[owner]; !seen {
			hasReturn[owner] = false
			where[owner] = s
		}
		if s.kind == "ReturnStmt" {
			hasReturn[owner] = true
		}
		c.check(s.kind == "DeclStmt" || s.kind == "ReturnStmt", rule, "template:error-handler-emits:"+s.kind, L.pos(s.lit.Pos()),
			"an error handler emits only `var zero T` and the return (it neither blocks, releases nor records anything before the enclosing function returns the error)", s.kind+" in "+s.fnName())
	}
	for owner, ok := range hasReturn {
		c.check(ok, rule, "template:error-handler-returns", L.pos(owner.Pos()), "every error handler ends the enclosing function with a return", where[owner].fnName())
	}
	c.floor(rule, "statements emitted by error handlers", m, 3)
	// (c) a handler reports the error expression it was given: the parameter is never reassigned, the emitted return's last
	// result is the parameter, and a handler that delegates passes the parameter on unchanged
	nH := 0
	checkHandler := func(ftype *ast.FuncType, body *ast.BlockStmt, name string, pos token.Pos) {
		if ftype.Params == nil || len(ftype.Params.List) != 1 || len(ftype.Params.List[0].Names) != 1 {
			return
		}
		param := p.TypesInfo.Defs[ftype.Params.List[0].Names[0]]
		if param == nil {
			return
		}
		nH++
		bad := ""
		ast.Inspect(body, func(n ast.Node) bool {
			switch x := n.(type) {
			case *ast.FuncLit:
				return false
			case *ast.AssignStmt:
				for _, l := range x.Lhs {
					if id, ok := l.(*ast.Ident); ok && p.TypesInfo.Uses[id] == param {
						bad = "the error expression parameter is reassigned at " + L.pos(x.Pos())
					}
				}
			case *ast.CompositeLit:
				if astTypeName(p, x) == "ReturnStmt" {
					for _, el := range x.Elts {
						kv, ok := el.(*ast.KeyValueExpr)
						if !ok {
							continue
						}
						if k, ok := kv.Key.(*ast.Ident); !ok || k.Name != "Results" {
							continue
						}
						if cl, ok := ast.Unparen(kv.Value).(*ast.CompositeLit); ok && len(cl.Elts) > 0 {
							last := cl.Elts[len(cl.Elts)-1]
							if id, ok := ast.Unparen(last).(*ast.Ident); !ok || p.TypesInfo.Uses[id] != param {
								bad = "the emitted return reports " + exprString(last) + " instead of the error expression it was given (" + L.pos(x.Pos()) + ")"
							}
						}
					}
				}
			case *ast.CallExpr:
				if t := p.TypesInfo.TypeOf(x.Fun); t != nil && isHandlerSig(t) && len(x.Args) == 1 {
					if id, ok := ast.Unparen(x.Args[0]).(*ast.Ident); !ok || p.TypesInfo.Uses[id] != param {
						bad = "delegates to another handler with " + exprString(x.Args[0]) + " instead of its own error expression (" + L.pos(x.Pos()) + ")"
					}
				}
			}
			return true
		})
		c.check(bad == "", rule, "template:error-handler-reports-its-argument:"+name, L.pos(pos), "an error handler returns exactly the error expression it is given (a provider's error variable or ctx.Err())", bad)
	}
	for _, f := range p.Syntax {
		for _, d := range f.Decls {
			fd, ok := d.(*ast.FuncDecl)
			if !ok || fd.Body == nil {
				continue
			}
			if o := p.TypesInfo.Defs[fd.Name]; o != nil && isHandlerSig(o.Type()) {
				checkHandler(fd.Type, fd.Body, "func", fd.Pos())
			}
			ast.Inspect(fd.Body, func(n ast.Node) bool {
				if fl, ok := n.(*ast.FuncLit); ok {
					if t := p.TypesInfo.TypeOf(fl); t != nil && isHandlerSig(t) {
						checkHandler(fl.Type, fl.Body, "closure", fl.Pos())
					}
				}
				return true
			})
		}
	}
	c.floor(rule, "error handler functions", nH, 2)
}

func isHandlerSig(t types.Type) bool {
	sig, ok := t.Underlying().(*types.Signature)
	if !ok || sig.Params().Len() != 1 || sig.Results().Len() != 1 {
		return false
	}
	return sig.Params().At(0).Type().String() == "go/ast.Expr" && sig.Results().At(0).Type().String() == "[]go/ast.Stmt"
}

func describe2(in ssa.Instruction) string {
	if v, ok := in.(ssa.Value); ok {
		return describe(v)
	}
	return in.String()
}

// ruleSameContextPredicate: every site that asks "is this injector argument the context?" asks the same question of the same
// value. Build (injectContextArg) decides whether a context parameter exists; the generator decides per site whether the
// errgroup is derived from it and whether waits get their ctx.Done() case. A site that normalises the type differently
// (alias resolution, pointer stripping) makes the sites disagree.
func ruleSameContextPredicate(c *Ctx, rule string) {
	L := c.L
	pred := resolveRole(c, genPkg, "isContextType")
	if pred == nil {
		c.undecided(rule, "isContextType", "function not found")
		return
	}
	re := regexp.MustCompile(`param:[A-Za-z_0-9]+`)
	shapes := map[string][]string{}
	n := 0
	for _, fn := range pkgFuncs(L, genPkg) {
		for _, cs := range callsIn(fn) {
			if cs.common.StaticCallee() != pred || len(cs.common.Args) != 1 {
				continue
			}
			s := newSym(L, map[string]bool{})
			s.maxD = 0
			for _, t := range s.eval(cs.arg(0)) {
				if !strings.Contains(t, "InjectorArgument.Type(") {
					continue
				}
				n++
				// which argument is tested is the scan's business (loop element or predicate parameter); the rule compares what is
				// done to its type
				k := re.ReplaceAllString(elideCallArg(t, "InjectorArgument.Type("), "param:_")
				shapes[k] = append(shapes[k], fnName(fn)+" at "+L.pos(cs.instr.Pos()))
			}
		}
	}
	c.floor(rule, "isContextType(arg.Type) sites over injector arguments", n, 2)
	if len(shapes) <= 1 {
		c.ok(rule, fmt.Sprintf("all %d sites test the same expression of the argument's type", n), strings.Join(sortedKeys(shapes), " | "))
		return
	}
	// report the minority shapes
	major, cnt := "", 0
	for k, v := range shapes {
		if len(v) > cnt {
			major, cnt = k, len(v)
		}
	}
	for k, v := range shapes {
		if k == major {
			continue
		}
		c.fail(rule, "isContextType:argument-shape-differs", v[0], "the context argument is recognised through a different expression here than at the other sites: the graph and the generator can disagree on whether the injector has a context (errgroup without context, waits without ctx.Done())", "here: "+k, "elsewhere: "+major+" ("+strings.Join(shapes[major], "; ")+")")
	}
}

// elideCallArg replaces the (balanced) argument text after each occurrence of marker by "_".
func elideCallArg(t, marker string) string {
	out := ""
	for {
		i := strings.Index(t, marker)
		if i < 0 {
			return out + t
		}
		out += t[:i+len(marker)] + "_"
		rest := t[i+len(marker):]
		depth, j := 0, 0
		for j = 0; j < len(rest); j++ {
			if rest[j] == '(' {
				depth++
			}
			if rest[j] == ')' {
				if depth == 0 {
					break
				}
				depth--
			}
		}
		t = rest[j:]
	}
}

// rulePackagelessRendererOnlyAsFallback (migrate): the standalone type printer knows nothing about the output file's import
// names and registers no import; it may only run when there is no TypeConverter. Every other call prints a qualified type
// under a qualifier the output does not import (or leaves it unqualified).
func rulePackagelessRendererOnlyAsFallback(c *Ctx, rule string) {
	L := c.L
	r := resolveRole(c, migPkg, "typeToExpr")
	if r == nil {
		c.undecided(rule, "typeToExpr", "standalone type printer not found")
		return
	}
	c.seen(fnName(r))
	n := 0
	for _, fn := range pkgFuncs(L, migPkg) {
		if fn == r {
			continue
		}
		for _, cs := range callsIn(fn) {
			if cs.common.StaticCallee() != r {
				continue
			}
			n++
			ok, why := false, "the call is not on the `converter == nil` side of a test"
			for _, iff := range controllingIfs(cs.instr) {
				bo, isB := iff.Cond.(*ssa.BinOp)
				if !isB || (bo.Op != token.EQL && bo.Op != token.NEQ) {
					continue
				}
				var other ssa.Value
				switch {
				case isNilConst(bo.X):
					other = bo.Y
				case isNilConst(bo.Y):
					other = bo.X
				default:
					continue
				}
				if !strings.HasSuffix(other.Type().String(), migPkg+".TypeConverter") {
					continue
				}
				nilSide := iff.Block().Succs[0]
				if bo.Op == token.NEQ {
					nilSide = iff.Block().Succs[1]
				}
				if nilSide == cs.instr.Block() || nilSide.Dominates(cs.instr.Block()) {
					ok, why = true, fmt.Sprintf("on the nil side of the converter test in block %d", iff.Block().Index)
				}
			}
			c.check(ok, rule, fnName(fn)+":package-less-type-printer", L.pos(cs.instr.Pos()),
				"the converter-unaware type printer is only the fallback when no TypeConverter exists (otherwise types are printed through the converter, which qualifies them and registers their imports)", why)
		}
	}
	c.floor(rule, "fallback calls of the standalone type printer", n, 2)
}

// ruleImportSnapshotLast (migrate): the import list of the output is read from the converter after every step that can
// still register an import (pattern import collection, declaration building).
func ruleImportSnapshotLast(c *Ctx, rule string) map[*ssa.Function]bool {
	L := c.L
	const field = "internal/migrate.TypeConverter.imports"
	// functions that write the converter's import table, and everything in the package that can reach them
	writers := map[*ssa.Function]bool{}
	fns := pkgFuncs(L, migPkg)
	for _, fn := range fns {
		for _, b := range fn.Blocks {
			for _, in := range b.Instrs {
				if mu, ok := in.(*ssa.MapUpdate); ok {
					if ld, ok := mu.Map.(*ssa.UnOp); ok {
						if fa, ok := ld.X.(*ssa.FieldAddr); ok && fieldKey(fa) == field {
							writers[fn] = true
						}
					}
				}
			}
		}
	}
	c.floor(rule, "functions that record an import in the converter", len(writers), 1)
	cg := L.callgraph()
	calleesAt := func(cs callSite) []*ssa.Function {
		if f := cs.common.StaticCallee(); f != nil {
			return []*ssa.Function{f}
		}
		var out []*ssa.Function
		if nd := cg.Nodes[cs.fn]; nd != nil {
			for _, e := range nd.Out {
				if e.Site == cs.instr {
					out = append(out, e.Callee.Func)
				}
			}
		}
		return out
	}
	changed := true
	for changed {
		changed = false
		for _, fn := range fns {
			if writers[fn] {
				continue
			}
			for _, w := range withClosures(fn) {
				for _, cs := range callsIn(w) {
					for _, cal := range calleesAt(cs) {
						if writers[cal] && !writers[fn] {
							writers[fn] = true
							changed = true
						}
					}
				}
			}
		}
	}
	snap := resolveRole(c, migPkg, "(*TypeConverter).Imports")
	if snap == nil {
		c.undecided(rule, "TypeConverter.Imports", "method not found")
		return writers
	}
	n := 0
	for _, fn := range fns {
		for _, s := range callsIn(fn) {
			if s.common.StaticCallee() != snap {
				continue
			}
			n++
			bad := ""
			for _, t := range callsIn(fn) {
				if t.instr == s.instr {
					continue
				}
				for _, cal := range calleesAt(t) {
					if writers[cal] && reachableAfter(s.instr, t.instr) {
						bad = fmt.Sprintf("%s at %s can still register an import after the list was read", cal.Name(), L.pos(t.instr.Pos()))
					}
				}
			}
			c.check(bad == "", rule, fnName(fn)+":import-list-read-last", L.pos(s.instr.Pos()),
				"the output's import list is read from the converter only after every step that can register an import (pattern collection, declaration building)", bad)
		}
	}
	c.floor(rule, "reads of the converter's import list", n, 1)
	return writers
}

// ruleNoImportForSkippedFields (migrate): while the struct transforms select fields, a call that registers an import (type
// printing through the converter) is made only for a field that is then included: every path from such a call to the next
// field (loop header, or return of a range-over-func body) passes the append to the selected-field list. Otherwise the
// output imports packages that only skipped fields mention.
func ruleNoImportForSkippedFields(c *Ctx, rule string, writers map[*ssa.Function]bool) {
	L := c.L
	n := 0
	for _, name := range []string{"(*Transformer).transformStruct", "(*Transformer).transformFieldsOf"} {
		top := resolveRole(c, migPkg, name)
		if top == nil {
			c.undecided(rule, name, "function not found")
			continue
		}
		for _, fn := range withClosures(top) {
			n++
			include := map[*ssa.BasicBlock]ssa.Instruction{}
			for _, cs := range callsIn(fn) {
				if bi, ok := cs.common.Value.(*ssa.Builtin); ok && bi.Name() == "append" && cs.value() != nil && strings.HasSuffix(cs.value().Type().String(), "[]"+migPkg+".fieldInfo") {
					include[cs.instr.Block()] = cs.instr
				}
			}
			for _, cs := range callsIn(fn) {
				cal := cs.common.StaticCallee()
				if cal == nil || !writers[cal] {
					continue
				}
				b := cs.instr.Block()
				// the next field: innermost loop header, or (range-over-func body) any return
				var hdr *ssa.BasicBlock
				for d := b.Idom(); d != nil; d = d.Idom() {
					if reachable(b, d) {
						hdr = d
						break
					}
				}
				if hdr == nil && fn.Parent() == nil {
					continue // not per field
				}
				if inc, ok := include[b]; ok && instrBefore(cs.instr, inc) {
					c.ok(rule, fnName(fn)+": "+cal.Name()+" is evaluated as part of the append of an included field", "same block")
					continue
				}
				escapes := false
				seen := map[*ssa.BasicBlock]bool{}
				stack := append([]*ssa.BasicBlock{}, b.Succs...)
				if len(b.Succs) == 0 {
					escapes = true
				}
				for len(stack) > 0 && !escapes {
					x := stack[len(stack)-1]
					stack = stack[:len(stack)-1]
					if seen[x] {
						continue
					}
					seen[x] = true
					if _, inc := include[x]; inc {
						continue
					}
					if x == hdr {
						escapes = true
						break
					}
					if hdr == nil && len(x.Succs) == 0 {
						escapes = true
						break
					}
					stack = append(stack, x.Succs...)
				}
				c.check(!escapes, rule, fnName(top)+":import-registered-for-skipped-field", L.pos(cs.instr.Pos()),
					"a type is printed through the converter (which records its package as an import) only for fields that are included in the generated constructor/accessor", cal.Name()+" can be followed by the next field without the field being selected")
			}
		}
	}
	c.floor(rule, "field-selection functions scanned", n, 2)
}

func instrBefore(a, b ssa.Instruction) bool {
	if a.Block() != b.Block() {
		return false
	}
	for _, in := range a.Block().Instrs {
		if in == a {
			return true
		}
		if in == b {
			return false
		}
	}
	return false
}

// ruleAllFilesProcessed (C09.3): the files named on the command line reach the processor unfiltered, and the processor
// handles every one of them in order until the first error.
func ruleAllFilesProcessed(c *Ctx, rule string) {
	L := c.L
	run := L.fn(cfgPkg, "(*GenerateCmd).Run")
	pfs := resolveRole(c, genPkg, "(*Processor).ProcessFiles")
	one := resolveRole(c, genPkg, "(*Processor).processFile")
	if run == nil || pfs == nil || one == nil {
		c.undecided(rule, "ProcessFiles", "GenerateCmd.Run / ProcessFiles / processFile not found")
		return
	}
	c.seen(fnName(pfs))
	for _, cs := range callsIn(run) {
		if cs.common.StaticCallee() != pfs {
			continue
		}
		s := newSym(L, map[string]bool{})
		s.maxD = 0
		t := strings.Join(s.eval(cs.arg(1)), "|")
		c.check(t == "field:internal/config.GenerateCmd.Files(param:c)" || regexp.MustCompile(`^field:internal/config\.GenerateCmd\.Files\(param:\w+\)$`).MatchString(t), rule, "GenerateCmd.Run:files-unfiltered", L.pos(cs.instr.Pos()),
			"the processor receives exactly the file arguments of the command line", t)
	}
	ruleNoEarlyExit(c, rule, "(*Processor).ProcessFiles")
	n := 0
	for _, cs := range callsIn(pfs) {
		if cs.common.StaticCallee() != one {
			continue
		}
		n++
		// the argument is the loop element of the files parameter
		okArg := false
		if ld, ok := cs.arg(1).(*ssa.UnOp); ok && ld.Op == token.MUL {
			if ia, ok := ld.X.(*ssa.IndexAddr); ok {
				if p, ok := resolve(ia.X).(*ssa.Parameter); ok && p.Parent() == pfs {
					okArg = true
				}
			}
		}
		if p, ok := resolve(cs.arg(1)).(*ssa.Parameter); ok && p.Parent() != pfs {
			okArg = true // range-over-func / closure element
		}
		c.check(okArg, rule, "ProcessFiles:processes-the-element", L.pos(cs.instr.Pos()), "each iteration processes the file it iterates over", describe(cs.arg(1)))
		// every iteration reaches the call: its block dominates every latch of the loop
		okDom := false
		for _, h := range pfs.Blocks {
			if !strings.HasPrefix(h.Comment, "rangeindex.loop") && !strings.HasPrefix(h.Comment, "rangeiter.loop") && !strings.HasPrefix(h.Comment, "for.loop") {
				continue
			}
			okDom = true
			for _, p := range h.Preds {
				if h.Dominates(p) && p != h && !(cs.instr.Block() == p || cs.instr.Block().Dominates(p)) {
					okDom = false
				}
			}
		}
		c.check(okDom, rule, "ProcessFiles:no-file-skipped", L.pos(cs.instr.Pos()), "no iteration continues without processing its file (the call dominates every back edge of the loop)", fmt.Sprintf("call in block %d", cs.instr.Block().Index))
		if cs.value() != nil {
			ok, why := errorBranchReturnsNonNil(cs.value())
			c.check(ok, rule, "ProcessFiles:first-error-returned", L.pos(cs.instr.Pos()), "a failing file makes ProcessFiles fail", why)
		}
	}
	c.floor(rule, "processFile call sites in ProcessFiles", n, 1)
}

// ruleUsedMarkingMatchesEmission (C04.13): an import is marked "used" (and therefore printed in the import block) exactly
// for what is then printed. Every loop `for _, imp := range M { imp.IsUsed = true }` is classified by where M comes from,
// and the function must then emit the expression that belongs to the same owner:
//
//	P.ReferencedImports (P an InjectorParam)      -> createASTTypeExpr(.., P.Type(), ..)      (all of P's printed type)
//	A.Param.ReferencedImports (A an argument)     -> A.ASTTypeExpr   (premise: both built from one type, checked)
//	S.Provider.ReferencedImports                  -> S.Provider.ASTExpr (the provider expression is always printed)
//	local map filled by collectImportsFromType(R.Type) -> R.ASTTypeExpr
//
// and no path leads from the marking to the next iteration / the function's exit without that emission (error exits aside).
func ruleUsedMarkingMatchesEmission(c *Ctx, rule string) {
	L := c.L
	n := 0
	type site struct {
		fn     *ssa.Function
		anchor ssa.Instruction
		m      ssa.Value
	}
	var sites []site
	helpers := map[*ssa.Function]int{} // marking helper -> index of the map parameter
	for _, fn := range pkgFuncs(L, genPkg) {
		for _, b := range fn.Blocks {
			for _, in := range b.Instrs {
				st, ok := in.(*ssa.Store)
				if !ok {
					continue
				}
				fa, ok := st.Addr.(*ssa.FieldAddr)
				if !ok || fieldKey(fa) != "internal/kessoku.Import.IsUsed" {
					continue
				}
				if k, isC := st.Val.(*ssa.Const); !isC || k.Value == nil || k.Value.String() != "true" {
					continue
				}
				ex, ok := fa.X.(*ssa.Extract)
				if !ok {
					continue // single import looked up by path: covered by the qualifier rules
				}
				nx, ok := ex.Tuple.(*ssa.Next)
				if !ok {
					continue
				}
				rg, ok := nx.Iter.(*ssa.Range)
				if !ok {
					continue
				}
				if p, isP := resolve(rg.X).(*ssa.Parameter); isP && p.Parent() == fn {
					for i, q := range fn.Params {
						if q == p {
							helpers[fn] = i
						}
					}
					continue
				}
				sites = append(sites, site{fn, nx, rg.X})
			}
		}
	}
	for _, fn := range pkgFuncs(L, genPkg) {
		for _, cs := range callsIn(fn) {
			if cal := cs.common.StaticCallee(); cal != nil {
				if idx, ok := helpers[cal]; ok && idx < len(cs.common.Args) {
					sites = append(sites, site{fn, cs.instr, cs.common.Args[idx]})
				}
			}
		}
	}
	for _, sx := range sites {
		fn, anchor, mval := sx.fn, sx.anchor, sx.m
		{
			{
				n++
				s := newSym(L, map[string]bool{})
				s.maxD = 0
				mterm := strings.Join(s.eval(mval), "|")
				construct := fnName(fn) + ":used-marking"
				var want []string // sub-terms, one of which must be emitted after the marking
				what := ""
				switch {
				case strings.HasPrefix(mterm, "field:internal/kessoku.InjectorParam.ReferencedImports("):
					owner := strings.TrimSuffix(strings.TrimPrefix(mterm, "field:internal/kessoku.InjectorParam.ReferencedImports("), ")")
					want = append(want, ".InjectorParam).Type("+owner+")")
					if strings.HasPrefix(owner, "field:internal/kessoku.InjectorArgument.Param(") {
						arg := strings.TrimSuffix(strings.TrimPrefix(owner, "field:internal/kessoku.InjectorArgument.Param("), ")")
						want = append(want, "field:internal/kessoku.InjectorArgument.ASTTypeExpr("+arg+")")
					}
					what = "the parameter " + owner
				case strings.HasPrefix(mterm, "field:internal/kessoku.ProviderSpec.ReferencedImports("):
					owner := strings.TrimSuffix(strings.TrimPrefix(mterm, "field:internal/kessoku.ProviderSpec.ReferencedImports("), ")")
					want = append(want, "field:internal/kessoku.ProviderSpec.ASTExpr("+owner+")")
					what = "the provider " + owner
				default:
					// a local map: filled by collectImportsFromType(T, ...)
					for _, cs := range callsIn(fn) {
						// the import walker: no results, one go/types.Type parameter; the set and the type are found by
						// what they are, not by their position
						cal := cs.common.StaticCallee()
						if cal == nil || cal.Signature.Results().Len() != 0 || fnPkgPath(cal) != genPkg {
							continue
						}
						typeIdx, fills := -1, false
						for i, prm := range cal.Params {
							if prm.Type().String() == "go/types.Type" && typeIdx < 0 {
								typeIdx = i
							}
							if i < len(cs.common.Args) && resolve(cs.arg(i)) == resolve(mval) {
								fills = true
							}
							// the set handed over inside a carrier struct (collector := &importCollector{referenced: set, ...})
							if i < len(cs.common.Args) {
								if cal2, isAl := cs.arg(i).(*ssa.Alloc); isAl && cal2.Referrers() != nil {
									for _, r := range *cal2.Referrers() {
										if fa, isFA := r.(*ssa.FieldAddr); isFA && fa.Referrers() != nil {
											for _, rr := range *fa.Referrers() {
												if st2, isSt := rr.(*ssa.Store); isSt && st2.Addr == ssa.Value(fa) && resolve(st2.Val) == resolve(mval) {
													fills = true
												}
											}
										}
									}
								}
							}
						}
						if typeIdx >= 0 && typeIdx < len(cs.common.Args) && fills {
							t := strings.Join(s.eval(cs.arg(typeIdx)), "|")
							// the marking lives in a helper that gets the type as a parameter: the helper's only call is the
							// marking site, in its caller
							if prm, isP := resolve(cs.arg(typeIdx)).(*ssa.Parameter); isP && prm.Parent() == fn {
								var sitesOf []callSite
								for _, g := range pkgFuncs(L, genPkg) {
									for _, cs3 := range callsIn(g) {
										if c3 := cs3.common.StaticCallee(); c3 != nil && originOf(c3) == fn {
											sitesOf = append(sitesOf, cs3)
										}
									}
								}
								if len(sitesOf) == 1 {
									up := sitesOf[0]
									idx := paramIndex(fn, prm)
									if idx >= 0 && idx < len(up.common.Args) {
										t = strings.Join(s.eval(up.common.Args[idx]), "|")
										fn, anchor = up.fn, up.instr
										construct = fnName(fn) + ":used-marking"
									}
								}
							}
							if strings.HasPrefix(t, "field:internal/kessoku.Return.Type(") {
								owner := strings.TrimSuffix(strings.TrimPrefix(t, "field:internal/kessoku.Return.Type("), ")")
								want = append(want, "field:internal/kessoku.Return.ASTTypeExpr("+owner+")")
								what = "the requested type of " + owner
							}
						}
					}
				}
				if len(want) == 0 {
					c.fail(rule, construct, L.pos(anchor.Pos()), "imports are marked used from a set whose owner the rule cannot tie to an emitted expression", mterm)
					continue
				}
				// emission sites in fn: instructions whose operand terms contain one of the wanted sub-terms
				var emits []ssa.Instruction
				for _, b2 := range fn.Blocks {
					for _, in2 := range b2.Instrs {
						var vals []ssa.Value
						switch x := in2.(type) {
						case *ssa.Store:
							if fa2, ok := x.Addr.(*ssa.FieldAddr); ok && strings.HasPrefix(fieldKey(fa2), "go/ast.") {
								vals = append(vals, x.Val)
							}
						case *ssa.Call:
							if cal := x.Common().StaticCallee(); cal != nil && (cal.Name() == "createASTTypeExpr" || strings.HasPrefix(cal.Name(), "build")) {
								vals = append(vals, x.Common().Args...)
							}
						}
						for _, v := range vals {
							t := strings.Join(s.eval(v), "|")
							for _, wsub := range want {
								if strings.Contains(t, wsub) {
									emits = append(emits, in2)
								}
							}
						}
					}
				}
				// the provider expression is printed by buildProviderCall for every call statement (C02.2 checks the template)
				if strings.Contains(what, "the provider field:internal/kessoku.InjectorProviderCallStmt.Provider(") && len(emits) == 0 {
					c.ok(rule, fnName(fn)+": provider imports are marked where the provider expression is printed (call template, C02.2)", mterm)
					continue
				}
				if len(emits) == 0 {
					c.fail(rule, construct, L.pos(anchor.Pos()), "imports of "+what+" are marked used, but the function prints something else: the import block can name a package the output never mentions", "marked from "+mterm, "expected an emission containing one of "+strings.Join(want, " / "))
					continue
				}
				// already printed on every path that reaches the marking
				before := false
				for _, e := range emits {
					if instrDominates(e, anchor) {
						before = true
					}
				}
				if before {
					c.ok(rule, fnName(fn)+": what is marked was printed before the marking on every path ("+what+")", "an emission dominates the marking")
					continue
				}
				// path condition: from the marking, the next iteration / exit is not reachable without an emission
				emitBlocks := map[*ssa.BasicBlock]bool{}
				for _, e := range emits {
					emitBlocks[e.Block()] = true
				}
				var outer *ssa.BasicBlock // header of the loop that encloses the marking
				inner := anchor.Block()
				if nx, isNext := anchor.(*ssa.Next); isNext {
					inner = nx.Iter.(*ssa.Range).Block()
				}
				for d := inner.Idom(); d != nil; d = d.Idom() {
					if reachable(inner, d) {
						outer = d
						break
					}
				}
				escapes := ""
				seen := map[*ssa.BasicBlock]bool{}
				stack := []*ssa.BasicBlock{anchor.Block()}
				for len(stack) > 0 && escapes == "" {
					x := stack[len(stack)-1]
					stack = stack[:len(stack)-1]
					if seen[x] {
						continue
					}
					seen[x] = true
					if emitBlocks[x] {
						continue
					}
					if x == outer {
						escapes = fmt.Sprintf("the next iteration (block %d) is reached without the emission", x.Index)
						break
					}
					if len(x.Succs) == 0 {
						if r, ok := x.Instrs[len(x.Instrs)-1].(*ssa.Return); ok && len(r.Results) > 0 && isErrorType(r.Results[len(r.Results)-1].Type()) && !returnsNilError(r) {
							continue // failing exit: nothing is written
						}
						if outer == nil {
							escapes = fmt.Sprintf("the function returns (block %d) without the emission", x.Index)
						}
						continue
					}
					stack = append(stack, x.Succs...)
				}
				c.check(escapes == "", rule, construct+":always-emitted", L.pos(anchor.Pos()),
					"what is marked as used is printed on every path that goes on ("+what+")", escapes)
			}
		}
	}
	c.floor(rule, "loops that mark a set of imports as used", n, 4)
	// premise of the argument pair: Param and ASTTypeExpr of an injector argument are built from one and the same type
	fns := pkgFuncs(L, genPkg)
	type pair struct {
		typ, expr string
		pos       token.Pos
	}
	byAlloc := func(typeField, exprField string) map[ssa.Value]*pair {
		out := map[ssa.Value]*pair{}
		s := newSym(L, map[string]bool{})
		s.maxD = 0
		for _, st := range storesToField(fns, typeField) {
			if fa, ok := st.Addr.(*ssa.FieldAddr); ok {
				p := out[fa.X]
				if p == nil {
					p = &pair{}
					out[fa.X] = p
				}
				p.typ, p.pos = strings.Join(s.eval(st.Val), "|"), st.Pos()
			}
		}
		for _, st := range storesToField(fns, exprField) {
			if fa, ok := st.Addr.(*ssa.FieldAddr); ok {
				p := out[fa.X]
				if p == nil {
					p = &pair{}
					out[fa.X] = p
				}
				p.expr, p.pos = strings.Join(s.eval(st.Val), "|"), st.Pos()
			}
		}
		return out
	}
	nP := 0
	for _, p := range byAlloc("internal/kessoku.argument.Type", "internal/kessoku.argument.ASTTypeExpr") {
		nP++
		ok := p.typ != "" && strings.Contains(p.expr, "createASTTypeExpr#0(") && strings.Contains(p.expr, ", "+p.typ+", ")
		c.check(ok, rule, "argument:type-and-expression-from-one-type", L.pos(p.pos), "an argument node's printed type expression is rendered from the node's own type", "Type="+p.typ+" ASTTypeExpr="+p.expr)
	}
	for _, p := range byAlloc("internal/kessoku.InjectorArgument.Param", "internal/kessoku.InjectorArgument.ASTTypeExpr") {
		nP++
		// Param = NewInjectorParamWithImports([]{X.Type}), ASTTypeExpr = X.ASTTypeExpr for the same argument node X; the context
		// argument is the one hand-built pair (context.Context under the context import, which is marked separately)
		ok := false
		why := "Param=" + p.typ + " ASTTypeExpr=" + p.expr
		if i := strings.Index(p.typ, "field:internal/kessoku.argument.Type("); i >= 0 && strings.HasPrefix(p.expr, "field:internal/kessoku.argument.ASTTypeExpr(") {
			x := elideAfter(p.typ[i+len("field:internal/kessoku.argument.Type("):])
			ok = strings.HasPrefix(p.expr, "field:internal/kessoku.argument.ASTTypeExpr("+x+")")
		}
		if strings.Contains(p.expr, "go/ast.SelectorExpr") && strings.Contains(p.typ, `go/types.NewPackage("context", "context"), "Context"`) {
			ok = true
			why = "hand-built context argument: " + why
		}
		c.check(ok, rule, "InjectorArgument:param-and-expression-of-one-argument", L.pos(p.pos), "an injector argument's parameter (whose imports are marked used) and its printed type expression belong to the same argument node", why)
	}
	c.floor(rule, "argument / InjectorArgument constructions", nP, 2)
}

// elideAfter returns the balanced prefix of t up to (not including) the parenthesis that closes the enclosing call.
func elideAfter(t string) string {
	depth := 0
	for i := 0; i < len(t); i++ {
		switch t[i] {
		case '(':
			depth++
		case ')':
			if depth == 0 {
				return t[:i]
			}
			depth--
		}
	}
	return t
}

// reachableWithin: to is reachable from from without passing stop (from itself may be stop's neighbour).
func reachableWithin(from, to, stop *ssa.BasicBlock) bool {
	seen := map[*ssa.BasicBlock]bool{}
	stack := []*ssa.BasicBlock{from}
	for len(stack) > 0 {
		x := stack[len(stack)-1]
		stack = stack[:len(stack)-1]
		if seen[x] {
			continue
		}
		seen[x] = true
		if x == to {
			return true
		}
		if x == stop {
			continue
		}
		stack = append(stack, x.Succs...)
	}
	return false
}

// ruleLaneIntegrity: a pool is emitted as one lane, whole and in pool order. The wait computation in Build decided "no wait"
// for every same-pool edge on the premise that the producer runs earlier on the same thread; the emission must not break it.
//
//	(a) buildPoolStmtsSimple returns one statement per pool element, appended in range order to a single list
//	(b) a chain's Statements are exactly one buildPoolStmtsSimple result and are never modified afterwards
//	(c) the main-thread list only grows by spreading whole buildPoolStmtsSimple results
func ruleLaneIntegrity(c *Ctx, rule string) {
	L := c.L
	bs := genFn(c, rule, "(*Graph).buildStmts")
	bps := resolveRole(c, genPkg, "(*Graph).buildPoolStmtsSimple")
	if bs == nil || bps == nil {
		c.undecided(rule, "buildPoolStmtsSimple", "function not found")
		return
	}
	c.seen(fnName(bps))
	// the pool is walked as it was given: the elements read are elements of the pool parameter itself, not of a list
	// re-ordered or filtered from it (the wait flags were computed for the order the pool has)
	nWalk := 0
	for _, f := range family(L, bps) {
		for _, b := range f.Blocks {
			for _, in := range b.Instrs {
				ia, ok := in.(*ssa.IndexAddr)
				if !ok || ia.X.Type().String() != "[]*"+genPkg+".node" || !isRangeIndex(ia.Index) {
					continue
				}
				prm, isP := resolve(ia.X).(*ssa.Parameter)
				if f != bps {
					continue
				}
				nWalk++
				c.check(isP && prm.Parent() == bps, rule, fnName(bps)+":pool-walked-as-given", L.pos(ia.Pos()),
					"the statements of a lane are emitted in the order of the pool that was scheduled (no re-ordered or filtered copy)", "the walk reads "+describe(ia.X))
			}
		}
	}
	c.floor(rule, "range reads of a node list in buildPoolStmtsSimple", nWalk, 1)
	isPoolResult := func(v ssa.Value) bool {
		v = resolve(v)
		if ex, ok := v.(*ssa.Extract); ok && ex.Index == 0 {
			if call, ok := ex.Tuple.(*ssa.Call); ok && call.Common().StaticCallee() == bps {
				return true
			}
		}
		return false
	}
	// (a)
	var single func(v ssa.Value, seen map[ssa.Value]bool) (bool, string)
	single = func(v ssa.Value, seen map[ssa.Value]bool) (bool, string) {
		if seen[v] {
			return true, ""
		}
		seen[v] = true
		switch x := v.(type) {
		case *ssa.MakeSlice:
			return true, ""
		case *ssa.Const:
			return x.Value == nil, "constant"
		case *ssa.Phi:
			for _, e := range x.Edges {
				if ok, why := single(e, seen); !ok {
					return false, why
				}
			}
			return true, ""
		case *ssa.Call:
			if bi, ok := x.Common().Value.(*ssa.Builtin); ok && bi.Name() == "append" {
				if ok, why := single(x.Common().Args[0], seen); !ok {
					return false, why
				}
				elems, ok := variadicElems(x.Common().Args[1])
				if !ok || len(elems) != 1 {
					return false, "append of " + describe(x.Common().Args[1]) + " (not one statement)"
				}
				isStmtAlloc := func(v ssa.Value) (bool, string) {
					al, ok := resolve(v).(*ssa.Alloc)
					if !ok {
						return false, "appended element is " + describe(v)
					}
					if n, _ := isAstNodeType(al.Type()); n != "InjectorFieldAccessStmt" && n != "InjectorProviderCallStmt" {
						return false, "appended element is a " + n
					}
					return true, ""
				}
				// the element's statement may be built by a private helper of the pool walk (a method on the node): it returns
				// one of the two statement kinds, or nil for a node without a provider
				if hc, isCall := resolve(elems[0]).(*ssa.Call); isCall {
					if h := hc.Common().StaticCallee(); h != nil && h.Pkg == bps.Pkg && len(h.Blocks) > 0 {
						for _, r := range returnsOf(h) {
							if len(r.Results) != 1 {
								return false, "helper " + h.Name() + " has an unexpected result"
							}
							if isNilConst(r.Results[0]) {
								continue
							}
							if ok, why := isStmtAlloc(r.Results[0]); !ok {
								return false, "helper " + h.Name() + ": " + why
							}
						}
						c.seen(fnName(h))
						return true, ""
					}
				}
				if mi, isMI := resolve(elems[0]).(*ssa.MakeInterface); isMI {
					return isStmtAlloc(mi.X)
				}
				return isStmtAlloc(elems[0])
			}
			return false, "the list is produced by " + describe(x)
		}
		return false, "the list is " + describe(v)
	}
	nRet := 0
	for _, r := range returnsOf(bps) {
		if !returnsNilError(r) {
			continue
		}
		nRet++
		ok, why := single(resolve(r.Results[0]), map[ssa.Value]bool{})
		c.check(ok, rule, fnName(bps)+":one-statement-per-element-in-pool-order", L.pos(r.Pos()),
			"a pool's statements are its elements' statements in pool order (appended one by one to the returned list; nothing is grouped, moved or concatenated)", why)
	}
	c.floor(rule, "success returns of buildPoolStmtsSimple", nRet, 1)
	// (b)
	nSt := 0
	inBuild := map[*ssa.Function]bool{}
	for _, f := range chainBuilders(L, bs) {
		inBuild[f] = true
	}
	for _, fn := range pkgFuncs(L, genPkg) {
		for _, st := range storesToField([]*ssa.Function{fn}, "internal/kessoku.InjectorChainStmt.Statements") {
			nSt++
			c.check(inBuild[fn] && isPoolResult(st.Val), rule, fnName(fn)+":chain-is-one-whole-pool", L.pos(st.Pos()),
				"the statements of a goroutine are exactly the statements of one pool, set once", "stored value: "+describe(resolve(st.Val)))
		}
	}
	c.floor(rule, "stores to InjectorChainStmt.Statements", nSt, 1)
	// (c) the main-thread list
	var spreads func(v ssa.Value, seen map[ssa.Value]bool) (bool, string)
	spreads = func(v ssa.Value, seen map[ssa.Value]bool) (bool, string) {
		if seen[v] {
			return true, ""
		}
		seen[v] = true
		if isPoolResult(v) {
			return true, "" // the list starts as one whole pool
		}
		// the list handed through a private helper (as an argument, or back as one of its results)
		if vs, ok := threaded(L, v); ok {
			for _, w := range vs {
				if ok, why := spreads(w, seen); !ok {
					return false, why
				}
			}
			return true, ""
		}
		switch x := v.(type) {
		case *ssa.MakeSlice:
			return true, ""
		case *ssa.Const:
			return x.Value == nil, "constant"
		case *ssa.Phi:
			for _, e := range x.Edges {
				if ok, why := spreads(e, seen); !ok {
					return false, why
				}
			}
			return true, ""
		case *ssa.UnOp:
			// a captured / address-taken accumulator
			if al := allocOf(x.X); al != nil {
				for _, st := range storesTo(al) {
					if ok, why := spreads(st.Val, seen); !ok {
						return false, why
					}
				}
				return true, ""
			}
		case *ssa.Call:
			if bi, ok := x.Common().Value.(*ssa.Builtin); ok && bi.Name() == "append" {
				if ok, why := spreads(x.Common().Args[0], seen); !ok {
					return false, why
				}
				if _, isLit := variadicElems(x.Common().Args[1]); isLit {
					return false, "single statements are appended to the main-thread list"
				}
				if !isPoolResult(x.Common().Args[1]) {
					return false, "appended: " + describe(resolve(x.Common().Args[1])) + " (not a whole pool)"
				}
				return true, ""
			}
		}
		return false, "the main-thread list is " + describe(v)
	}
	nMain := 0
	for _, r := range returnsOf(bs) {
		if !returnsNilError(r) {
			continue
		}
		if call, ok := resolve(r.Results[0]).(*ssa.Call); ok {
			if bi, isB := call.Common().Value.(*ssa.Builtin); isB && bi.Name() == "append" && len(call.Common().Args) == 2 {
				nMain++
				ok, why := spreads(call.Common().Args[1], map[ssa.Value]bool{})
				c.check(ok, rule, fnName(bs)+":main-thread-is-whole-pools", L.pos(r.Pos()), "the main thread's statements are whole pools, spread in the order they became ready", why)
			}
		}
	}
	c.floor(rule, "main-thread lists in buildStmts", nMain, 1)
}

// ruleOneNodePerProvider (C02.10): a provider is invoked once because it has one graph node: a node for provider P is
// created only on the not-found edge of a lookup of P itself (the *ProviderSpec, not one of the types it provides - a
// provider provides several types, e.g. the concrete type and the Bind interface) and is recorded under P.
func ruleOneNodePerProvider(c *Ctx, rule string) {
	L := c.L
	ng := genFn(c, rule, "NewGraph")
	if ng == nil {
		return
	}
	type site struct {
		fn   *ssa.Function
		at   ssa.Instruction
		prov ssa.Value // the provider the node is created for
		node ssa.Value // the created node
	}
	var sites []site
	// constructor helpers: allocate a node, store their parameter as its providerSpec, return it
	ctors := map[*ssa.Function]int{}
	for _, fn := range family(L, ng) {
		for _, st := range storesToField([]*ssa.Function{fn}, "internal/kessoku.node.providerSpec") {
			fa, ok := st.Addr.(*ssa.FieldAddr)
			if !ok {
				continue
			}
			al, ok := fa.X.(*ssa.Alloc)
			if !ok {
				continue
			}
			if p, isP := st.Val.(*ssa.Parameter); isP && fn.Parent() == nil && fn != ng {
				returnsIt := false
				for _, r := range returnsOf(fn) {
					if len(r.Results) == 1 && resolve(r.Results[0]) == ssa.Value(al) {
						returnsIt = true
					}
				}
				if returnsIt {
					for i, q := range fn.Params {
						if q == p {
							ctors[fn] = i
						}
					}
					continue
				}
			}
			sites = append(sites, site{fn, st, st.Val, al})
		}
	}
	for _, fn := range withClosures(ng) {
		for _, cs := range callsIn(fn) {
			if cal := cs.common.StaticCallee(); cal != nil && cs.value() != nil {
				if idx, ok := ctors[cal]; ok && idx < len(cs.common.Args) {
					sites = append(sites, site{fn, cs.instr, cs.common.Args[idx], cs.value()})
				}
			}
		}
	}
	n := 0
	for _, sx := range sites {
		fn := sx.fn
		n++
		// the root node: created once, outside every loop, and handed to graph.returnValue
		if fn == ng && outermostLoopHeader(sx.at.Block()) == nil {
			isRoot := false
			if refs := sx.node.Referrers(); refs != nil {
				for _, r := range *refs {
					if s2, ok := r.(*ssa.Store); ok && s2.Val == sx.node {
						if fa2, ok := s2.Addr.(*ssa.FieldAddr); ok && fieldKey(fa2) == "internal/kessoku.returnVal.node" {
							isRoot = true
						}
						// spilled into a local first
						if al2, ok := s2.Addr.(*ssa.Alloc); ok {
							for _, r2 := range *al2.Referrers() {
								if ld, ok := r2.(*ssa.UnOp); ok && ld.Referrers() != nil {
									for _, r3 := range *ld.Referrers() {
										if s3, ok := r3.(*ssa.Store); ok {
											if fa3, ok := s3.Addr.(*ssa.FieldAddr); ok && fieldKey(fa3) == "internal/kessoku.returnVal.node" {
												isRoot = true
											}
										}
									}
								}
							}
						}
					}
				}
			}
			if isRoot {
				c.ok(rule, "the root node is created once, outside the walk", L.pos(sx.at.Pos()))
				continue
			}
		}
		okGuard, okRecord := false, false
		why := "no lookup keyed by the provider guards the creation"
		for _, b := range fn.Blocks {
			for _, in := range b.Instrs {
				lk, ok := in.(*ssa.Lookup)
				if !ok || !lk.CommaOk {
					continue
				}
				mt, ok := lk.X.Type().Underlying().(*types.Map)
				if !ok || !strings.HasSuffix(mt.Key().String(), "internal/kessoku.ProviderSpec") {
					continue
				}
				if !sameValueOrigin(lk.Index, sx.prov) {
					why = "the guarding lookup is keyed by another provider than the one the node is created for"
					continue
				}
				for _, t := range okTestsOf(lk) {
					if (t.notFound == sx.at.Block() || t.notFound.Dominates(sx.at.Block())) && len(t.notFound.Preds) == 1 {
						okGuard = true
					}
				}
				for _, b2 := range fn.Blocks {
					for _, in2 := range b2.Instrs {
						if mu, ok := in2.(*ssa.MapUpdate); ok && sameCell(mu.Map, lk.X) && sameValueOrigin(mu.Key, sx.prov) && resolve(mu.Value) == resolve(sx.node) && sx.at.Block().Dominates(b2) {
							okRecord = true
						}
					}
				}
			}
		}
		c.check(okGuard && okRecord, rule, fnName(fn)+":one-node-per-provider", L.pos(sx.at.Pos()),
			"a provider node is created only when the provider itself (not one of its result types) has no node yet, and is recorded under the provider", fmt.Sprintf("guarded=%v recorded=%v; %s", okGuard, okRecord, why))
	}
	c.floor(rule, "provider node creations in NewGraph", n, 2)
}

// sameValueOrigin: two SSA values denote the same thing (same value after resolve, or loads of the same field of the same base).
func sameValueOrigin(a, b ssa.Value) bool {
	a, b = resolve(a), resolve(b)
	if a == b {
		return true
	}
	la, ok1 := a.(*ssa.UnOp)
	lb, ok2 := b.(*ssa.UnOp)
	if ok1 && ok2 && la.Op == token.MUL && lb.Op == token.MUL {
		fa, ok1 := la.X.(*ssa.FieldAddr)
		fb, ok2 := lb.X.(*ssa.FieldAddr)
		if ok1 && ok2 && fa.Field == fb.Field {
			return sameValueOrigin(fa.X, fb.X)
		}
		// the same constant element of the same list (fun.Indices[0])
		ia, ok1 := la.X.(*ssa.IndexAddr)
		ib, ok2 := lb.X.(*ssa.IndexAddr)
		if ok1 && ok2 {
			ka, okA := constInt(ia.Index)
			kb, okB := constInt(ib.Index)
			if okA && okB && ka == kb {
				return sameValueOrigin(ia.X, ib.X)
			}
		}
	}
	// the same checked type assertion of the same value (the symbolic variable of one type-switch clause)
	ta, ok1 := a.(*ssa.TypeAssert)
	tb, ok2 := b.(*ssa.TypeAssert)
	if ok1 && ok2 && types.Identical(ta.AssertedType, tb.AssertedType) {
		return sameValueOrigin(ta.X, tb.X)
	}
	ea, ok1 := a.(*ssa.Extract)
	eb, ok2 := b.(*ssa.Extract)
	if ok1 && ok2 && ea.Index == eb.Index {
		if xa, isA := ea.Tuple.(*ssa.TypeAssert); isA {
			if xb, isB := eb.Tuple.(*ssa.TypeAssert); isB && types.Identical(xa.AssertedType, xb.AssertedType) {
				return sameValueOrigin(xa.X, xb.X)
			}
		}
	}
	return false
}

// ruleReturnByRecordedIndex (C02.11): the injector returns the result of the root provider that was recorded for the
// requested type when the graph was built (the supplier map's result index), not a result chosen again by another criterion.
func ruleReturnByRecordedIndex(c *Ctx, rule string) {
	L := c.L
	build := genFn(c, rule, "(*Graph).Build")
	ng := genFn(c, rule, "NewGraph")
	if build == nil || ng == nil {
		return
	}
	n := 0
	for _, st := range storesToField(withClosures(build), "internal/kessoku.InjectorReturn.Param") {
		n++
		ok, why := false, "the returned parameter is "+describe(st.Val)
		if ld, isL := st.Val.(*ssa.UnOp); isL && ld.Op == token.MUL {
			if ia, isI := ld.X.(*ssa.IndexAddr); isI {
				if idx, isL2 := ia.Index.(*ssa.UnOp); isL2 && idx.Op == token.MUL {
					if fa, isF := idx.X.(*ssa.FieldAddr); isF && fieldKey(fa) == "internal/kessoku.returnVal.returnIndex" {
						ok, why = true, "returnValues[g.returnValue.returnIndex]"
					}
				}
				if !ok {
					why = "the result index is " + describe(ia.Index) + ", not the index recorded in the graph"
				}
			}
		}
		c.check(ok, rule, "Build:returned-result-is-the-recorded-one", L.pos(st.Pos()), "the injector returns the root provider's result at the index recorded for the requested type", why)
	}
	c.floor(rule, "stores of the injector's returned parameter", n, 1)
	// an index left at its zero value (a literal without the field) is the explicit 0: the obligation that cannot be met
	// by leaving stores out is that some store records the supplier map's index
	m, fromSupplier := 0, false
	for _, st := range storesToField(withClosures(ng), "internal/kessoku.returnVal.returnIndex") {
		m++
		s := newSym(L, map[string]bool{})
		s.maxD = 0
		ts := s.eval(st.Val)
		ok := true
		for _, t := range ts {
			if strings.Contains(t, "fnProvider.returnIndex(") {
				fromSupplier = true
			} else if t != "0" {
				ok = false
			}
		}
		c.check(ok, rule, "NewGraph:recorded-return-index", L.pos(st.Pos()), "the recorded index is the supplier map's result index for the requested type (0 for an argument)", strings.Join(ts, " | "))
	}
	c.check(fromSupplier, rule, "NewGraph:recorded-return-index-from-supplier-table", L.pos(ng.Pos()), "the supplier map's result index is what NewGraph records for a returned provider result", fmt.Sprintf("%d stores of returnVal.returnIndex", m))
	c.floor(rule, "stores of the recorded return index", m, 1)
}

// ruleEveryStmtEmittedInPlace: generateStmts (and a chain's Stmt) emits each element of its statement list through that
// element's own Stmt method, once, in list order: no element is skipped, and no statement is emitted from anywhere else
// (a goroutine's statements are only ever emitted inside its eg.Go wrapper).
func ruleEveryStmtEmittedInPlace(c *Ctx, rule string) {
	L := c.L
	for _, spec := range []struct{ fn, list string }{
		{"generateStmts", "field:internal/kessoku.Injector.Stmts("},
		{"(*InjectorChainStmt).Stmt#emits", "field:internal/kessoku.InjectorChainStmt.Statements("},
	} {
		fn := genFn(c, rule, spec.fn)
		if fn == nil {
			continue
		}
		n := 0
		for _, cs := range callsIn(fn) {
			if !cs.common.IsInvoke() || cs.common.Method.Name() != "Stmt" || len(cs.common.Args) != 3 {
				continue
			}
			n++
			s := newSym(L, map[string]bool{})
			s.maxD = 0
			t := strings.Join(s.eval(cs.common.Value), "|")
			okRecv := strings.HasPrefix(t, "index("+spec.list)
			c.check(okRecv, rule, fnName(fn)+":emits-its-own-list", L.pos(cs.instr.Pos()), "the statement emitted is the element of the list being walked", t)
			// no iteration without the emission
			okDom := false
			for _, h := range fn.Blocks {
				if !strings.HasPrefix(h.Comment, "rangeindex.loop") && !strings.HasPrefix(h.Comment, "rangeiter.loop") && !strings.HasPrefix(h.Comment, "for.loop") {
					continue
				}
				if !h.Dominates(cs.instr.Block()) {
					continue
				}
				okDom = true
				for _, p := range h.Preds {
					if h.Dominates(p) && p != h && !(cs.instr.Block() == p || cs.instr.Block().Dominates(p)) {
						okDom = false
					}
				}
			}
			c.check(okDom, rule, fnName(fn)+":no-statement-skipped", L.pos(cs.instr.Pos()), "every element of the list is emitted (the Stmt call dominates every back edge of its loop)", fmt.Sprintf("call in block %d", cs.instr.Block().Index))
		}
		c.check(n == 1, rule, fnName(fn)+":single-emission-site", L.pos(fn.Pos()), "statements are emitted at exactly one place, in list order", fmt.Sprintf("%d Stmt invocations", n))
	}
}

// ruleSourcesSeededFirst: the topological iteration starts from ALL nodes without requirements (providers without inputs and
// injector arguments alike), seeded before the first node is yielded. The pool heuristic gives an input-free Async provider
// its own pool only while empty pools are left; that works because every source chooses before any dependant does.
func ruleSourcesSeededFirst(c *Ctx, rule string) {
	L := c.L
	ts := genFn(c, rule, "(*Graph).topologicalSortIter")
	if ts == nil {
		return
	}
	var pushes []callSite
	for _, cs := range callsIn(ts) {
		if cal := cs.common.StaticCallee(); cal != nil && strings.HasSuffix(cal.Name(), "Push") && strings.Contains(cal.String(), "collection.Queue") {
			pushes = append(pushes, cs)
		}
	}
	c.check(len(pushes) == 1, rule, "topologicalSortIter:one-seed-queue", L.pos(ts.Pos()), "the sources are seeded into one work queue", fmt.Sprintf("%d Push sites before the iteration starts", len(pushes)))
	for _, cs := range pushes {
		hdr := outermostLoopHeader(cs.instr.Block())
		var conds []string
		ok := hdr != nil
		for _, iff := range controllingIfs(cs.instr) {
			if iff.Block() == hdr || !hdr.Dominates(iff.Block()) {
				continue // the loop condition itself / code before the loop
			}
			s := newSym(L, map[string]bool{})
			s.maxD = 0
			t := strings.Join(s.eval(iff.Cond), "|")
			// the count read back from the counter record that was just filled: what was stored there
			if bo, isB := iff.Cond.(*ssa.BinOp); isB && bo.Op == token.EQL {
				if k, isC := constInt(bo.Y); isC && k == 0 {
					if rv := resolve(bo.X); rv != bo.X {
						t = "bin==(" + strings.Join(s.eval(rv), "|") + ", 0)"
					} else if u, isU := bo.X.(*ssa.UnOp); isU && u.Op == token.MUL {
						// a field of the record allocated in this iteration: the one store into that field of that allocation
						if fa, isF := u.X.(*ssa.FieldAddr); isF {
							if al, isA := fa.X.(*ssa.Alloc); isA {
								var vals []ssa.Value
								for _, st := range storesInto(al) {
									if fa2, ok2 := st.Addr.(*ssa.FieldAddr); ok2 && fa2.Field == fa.Field {
										vals = append(vals, st.Val)
									}
								}
								if len(vals) == 1 {
									t = "bin==(" + strings.Join(s.eval(vals[0]), "|") + ", 0)"
								}
							}
						}
					}
				}
			}
			conds = append(conds, t)
			if !(strings.HasPrefix(t, "bin==(builtin len(lookup(field:internal/kessoku.Graph.reverseEdges(") && strings.HasSuffix(t, ", 0)") && iff.Block().Succs[0].Dominates(cs.instr.Block())) {
				ok = false
			}
		}
		c.check(ok && len(conds) == 1, rule, "topologicalSortIter:every-source-is-seeded", L.pos(cs.instr.Pos()),
			"a node is seeded exactly when it has no requirements (no further distinction between arguments and input-free providers)", strings.Join(conds, " ; "))
		// the seeded queue is the one the iteration consumes
		okQ := false
		if ld, isL := cs.arg(0).(*ssa.UnOp); isL {
			for _, cl := range ts.AnonFuncs {
				for _, fv := range cl.FreeVars {
					if freeVarBinding(fv) == ld.X {
						for _, r := range *fv.Referrers() {
							if u, ok := r.(*ssa.UnOp); ok && u.Referrers() != nil {
								for _, r2 := range *u.Referrers() {
									if mc, ok := r2.(*ssa.MakeClosure); ok && strings.Contains(mc.Fn.Name(), "Iter") {
										okQ = true
									}
								}
							}
						}
					}
				}
			}
		}
		// the walk's state carried in a struct: the queue is a field, the iteration a method that ranges over that field's Iter
		if !okQ {
			if ld, isL := cs.arg(0).(*ssa.UnOp); isL {
				if fa, isF := ld.X.(*ssa.FieldAddr); isF {
					key := fieldKey(fa)
					for _, g := range pkgFuncs(L, genPkg) {
						for _, b := range g.Blocks {
							for _, in := range b.Instrs {
								mc, isMC := in.(*ssa.MakeClosure)
								if !isMC || !strings.Contains(mc.Fn.Name(), "Iter") || len(mc.Bindings) != 1 {
									continue
								}
								if l2, isL2 := mc.Bindings[0].(*ssa.UnOp); isL2 {
									if fa2, isF2 := l2.X.(*ssa.FieldAddr); isF2 && fieldKey(fa2) == key {
										// and that method is what topologicalSortIter hands out
										for _, r := range returnsOf(ts) {
											if rmc, isR := resolve(r.Results[0]).(*ssa.MakeClosure); isR {
												if bf, isB := rmc.Fn.(*ssa.Function); isB && strings.HasPrefix(bf.Synthetic, "bound method wrapper") {
													if m, isM := bf.Object().(*types.Func); isM && L.Prog.FuncValue(m) == g {
														okQ = true
													}
												}
											}
										}
									}
								}
							}
						}
					}
				}
			}
		}
		c.check(okQ, rule, "topologicalSortIter:seed-queue-is-iterated", L.pos(cs.instr.Pos()), "the iteration consumes the queue the sources were seeded into", "Push receiver cell is the cell whose Iter the closure ranges over")
	}
}

// ruleSchedulerReadsAsyncFlag: every async/sync distinction findOptimalPool makes is the provider's IsAsync flag - the flag
// buildStmts (goroutine or caller) and Build (context, waits) read. A private notion of "async" in the scheduler makes them disagree.
func ruleSchedulerReadsAsyncFlag(c *Ctx, rule string) {
	L := c.L
	fn := genFn(c, rule, "(*Graph).findOptimalPool")
	if fn == nil {
		return
	}
	n := 0
	fam := family(L, fn)
	for _, g := range fam {
		if g.Parent() != nil {
			continue
		}
		for _, b := range g.Blocks {
			if len(b.Instrs) == 0 {
				continue
			}
			iff, ok := b.Instrs[len(b.Instrs)-1].(*ssa.If)
			if !ok {
				continue
			}
			s := newSym(L, map[string]bool{})
			s.maxD = 2 // a pure accessor helper is looked through
			ts := s.eval(iff.Cond)
			if g != fn {
				ts = liftParams(L, fam, g, ts) // a phase helper that is handed the flag (or the node) by findOptimalPool
			}
			t := strings.Join(ts, "|")
			if strings.Contains(t, "field:internal/kessoku.ProviderSpec.IsAsync(") {
				n++
			}
			if (strings.Contains(t, genPkg+".") || strings.Contains(t, "(*"+genPkg)) && condRootedAtModuleCall(iff.Cond) {
				c.fail(rule, fnName(g)+":scheduling-predicate", L.pos(iff.Cond.Pos()), "findOptimalPool decides through a predicate of its own instead of the provider's IsAsync flag (the flag buildStmts and Build read)", t)
			}
		}
	}
	c.floor(rule, "decisions on ProviderSpec.IsAsync in findOptimalPool", n, 3)
}

// ruleWaitCheckedWhenFallible: whenever the injector has an error result, the error of eg.Wait() is tested and returned; the
// form that discards it is selected by "no error result" alone (goroutines also run fallible synchronous providers that the
// scheduler placed behind an Async one, so no narrower predicate is sound).
func ruleWaitCheckedWhenFallible(c *Ctx, rule string) {
	L := c.L
	fn := genFn(c, rule, "generateAsyncWaitStatements")
	if fn == nil {
		return
	}
	n := 0
	for _, r := range returnsOf(fn) {
		if len(r.Results) != 1 {
			continue
		}
		// does the returned list contain an if statement (the checked form)?
		checked := false
		if elems, ok := variadicElems(resolve(r.Results[0])); ok {
			for _, e := range elems {
				if al, ok := resolve(e).(*ssa.Alloc); ok {
					if nm, _ := isAstNodeType(al.Type()); nm == "IfStmt" {
						checked = true
					}
				}
			}
			// one exit returning a statement chosen before (`var w ast.Stmt; if ... { w = checked } else { w = discarding }`):
			// each way into the join is one form, decided at the end of the block it comes from
			if ph, isPhi := resolve(elems[0]).(*ssa.Phi); isPhi && len(elems) == 1 {
				for i, e := range ph.Edges {
					n++
					al, isA := resolve(e).(*ssa.Alloc)
					if !isA {
						c.undecided(rule, "generateAsyncWaitStatements:returned-list", "a way into the returned statement is not a literal: "+describe(e))
						continue
					}
					if nm, _ := isAstNodeType(al.Type()); nm == "IfStmt" {
						continue
					}
					pred := ph.Block().Preds[i]
					rows, ids, err := truthTable(L, fn.Blocks[0], pred.Instrs[len(pred.Instrs)-1], nil)
					if err != "" {
						c.undecided(rule, "generateAsyncWaitStatements:table", err)
						continue
					}
					ire, bad := "", ""
					for _, id := range ids {
						if strings.Contains(id, "Injector.IsReturnError(") {
							ire = id
						}
					}
					for _, row := range rows {
						if row.reached && ire != "" && row.atoms[ire].b {
							bad = rowString(row, ids)
						}
					}
					c.check(ire != "" && bad == "", rule, "generateAsyncWaitStatements:discarding-form-only-without-error-result", L.pos(al.Pos()),
						"the form that discards the result of eg.Wait() is emitted only when the injector has no error result", "counterexample: "+bad)
				}
				continue
			}
		} else {
			c.undecided(rule, "generateAsyncWaitStatements:returned-list", "the returned statement list is not a literal: "+describe(r.Results[0]))
			continue
		}
		n++
		if checked {
			continue
		}
		rows, ids, err := truthTable(L, fn.Blocks[0], r, nil)
		if err != "" {
			c.undecided(rule, "generateAsyncWaitStatements:table", err)
			continue
		}
		ire := ""
		for _, id := range ids {
			if strings.Contains(id, "Injector.IsReturnError(") {
				ire = id
			}
		}
		bad := ""
		for _, row := range rows {
			if row.reached && ire != "" && row.atoms[ire].b {
				bad = rowString(row, ids)
			}
		}
		c.check(ire != "" && bad == "", rule, "generateAsyncWaitStatements:discarding-form-only-without-error-result", L.pos(r.Pos()),
			"the form that discards the result of eg.Wait() is emitted only when the injector has no error result", "counterexample: "+bad)
	}
	c.floor(rule, "forms of the final Wait", n, 2)
}

// ruleTemplatesNotPatched: an emitted node is complete when its literal is built. Nothing overwrites a slot of a node that
// was produced elsewhere (a call result, a parameter, a loaded field) or an element of one of its lists: the template rules
// read the literals, so a later patch (`decl.Lhs[1] = ast.NewIdent("_")`) would change the output behind their back.
func ruleTemplatesNotPatched(c *Ctx, rule string) {
	L := c.L
	n := 0
	for _, fn := range pkgFuncs(L, genPkg) {
		// the parser rewrites the USER's copied expressions (package qualifiers are renamed to the allocated import names);
		// those are not generated templates. They are recognised by where the patched node comes from: a node handed in
		// (parameter, type assertion of a visited node), never the result of a function that builds nodes.
		root := fn
		for root.Parent() != nil {
			root = root.Parent()
		}
		userSyntax := func(v ssa.Value) bool {
			for i := 0; i < 8; i++ {
				switch x := resolve(v).(type) {
				case *ssa.Parameter, *ssa.FreeVar:
					return true
				case *ssa.TypeAssert:
					v = x.X
					continue
				case *ssa.Extract:
					if ta, ok := x.Tuple.(*ssa.TypeAssert); ok {
						v = ta.X
						continue
					}
					return recvIs(root, "Parser") // result of the parser's own rewriting helper
				case *ssa.UnOp:
					if fa, ok := x.X.(*ssa.FieldAddr); ok {
						v = fa.X
						continue
					}
					return false
				case *ssa.Call:
					return recvIs(root, "Parser") && x.Common().StaticCallee() != nil && recvIs(x.Common().StaticCallee(), "Parser")
				}
				return false
			}
			return false
		}
		for _, b := range fn.Blocks {
			for _, in := range b.Instrs {
				st, ok := in.(*ssa.Store)
				if !ok {
					continue
				}
				switch a := st.Addr.(type) {
				case *ssa.IndexAddr:
					// element of a list that was loaded from a go/ast node's field
					if ld, ok := a.X.(*ssa.UnOp); ok && ld.Op == token.MUL {
						if fa, ok := ld.X.(*ssa.FieldAddr); ok && strings.HasPrefix(fieldKey(fa), "go/ast.") {
							if userSyntax(fa.X) {
								continue
							}
							n++
							c.fail(rule, fnName(fn)+":patches-"+fieldKey(fa), L.pos(st.Pos()), "an element of "+fieldKey(fa)+" of an already built node is overwritten", describe(st.Val))
						}
					}
				case *ssa.FieldAddr:
					k := fieldKey(a)
					if !strings.HasPrefix(k, "go/ast.") {
						continue
					}
					n++
					if _, fresh := a.X.(*ssa.Alloc); fresh {
						continue // slot of the literal being built
					}
					if al, ok := resolve(a.X).(*ssa.Alloc); ok && al.Parent() == fn {
						continue // a local literal completed in place
					}
					if userSyntax(a.X) {
						continue
					}
					c.fail(rule, fnName(fn)+":patches-"+k, L.pos(st.Pos()), "the slot "+k+" of a node built elsewhere ("+describe(a.X)+") is overwritten", describe(st.Val))
				}
			}
		}
	}
	c.floor(rule, "stores into go/ast node slots", n, 50)
}

// ruleRequestedTypeIsPrinted (C10.4): the first result of the generated signature is the type the declaration asks for:
// InjectorReturn.Return is the graph's returnType, which is the directive's Return, whose Type and ASTTypeExpr are the type
// and the expression of the same type argument of kessoku.Inject. (The returned parameter may provide more types than that -
// a Bind provides the concrete type first.)
func ruleRequestedTypeIsPrinted(c *Ctx, rule string) {
	L := c.L
	chain := []struct{ fn, field, want, desc string }{
		{"(*Graph).Build", "internal/kessoku.InjectorReturn.Return", "field:internal/kessoku.Graph.returnType(", "the injector's printed result type is the graph's requested type"},
		{"NewGraph", "internal/kessoku.Graph.returnType", "field:internal/kessoku.BuildDirective.Return(param:build)", "the graph's requested type is the declaration's"},
	}
	for _, ch := range chain {
		fn := genFn(c, rule, ch.fn)
		if fn == nil {
			continue
		}
		n := 0
		for _, st := range storesToField(withClosures(fn), ch.field) {
			n++
			s := newSym(L, map[string]bool{})
			s.maxD = 0
			t := strings.Join(s.eval(st.Val), "|")
			c.check(strings.HasPrefix(t, ch.want), rule, shortFn(ch.fn)+":"+ch.field, L.pos(st.Pos()), ch.desc+" (copied, not re-rendered from the supplier's types)", t)
		}
		c.floor(rule, "stores of "+ch.field, n, 1)
	}
	// the directive's Return: Type and ASTTypeExpr come from the same type-argument expression
	if pic := genFn(c, rule, "(*Parser).parseInjectCall"); pic != nil {
		s := newSym(L, map[string]bool{})
		s.maxD = 0
		types_ := map[ssa.Value]string{}
		exprs := map[ssa.Value]string{}
		for _, st := range storesToField([]*ssa.Function{pic}, "internal/kessoku.Return.Type") {
			if fa, ok := st.Addr.(*ssa.FieldAddr); ok {
				types_[fa.X] = strings.Join(s.eval(st.Val), "|")
			}
		}
		for _, st := range storesToField([]*ssa.Function{pic}, "internal/kessoku.Return.ASTTypeExpr") {
			if fa, ok := st.Addr.(*ssa.FieldAddr); ok {
				exprs[fa.X] = strings.Join(s.eval(st.Val), "|")
			}
		}
		n := 0
		for al, t := range types_ {
			n++
			e := exprs[al]
			ok := e != "" && strings.Contains(t, "TypeOf(") && strings.Contains(t, e)
			c.check(ok, rule, "parseInjectCall:requested-type-and-expression-agree", L.pos(al.Pos()), "the requested type and its printed expression are the type and the syntax of the same type argument", "Type="+t+" ASTTypeExpr="+e)
		}
		c.floor(rule, "Return literals in parseInjectCall", n, 2)
	}
}

// ruleLoadedPackageReadOnly (C11.8): what go/packages loaded is the declared input. The generator does not edit it (the
// file list and the syntax list are index-aligned; removing an entry pairs a file name with another file's tree) and does
// not make its behaviour depend on the package's error list (a stale or truncated earlier output in the directory is a
// syntax or type error of the package; regeneration must still happen - and heal it).
func ruleLoadedPackageReadOnly(c *Ctx, rule string) {
	L := c.L
	nReads := 0
	for _, fn := range pkgFuncs(L, genPkg) {
		for _, b := range fn.Blocks {
			for _, in := range b.Instrs {
				switch x := in.(type) {
				case *ssa.Store:
					if fa, ok := x.Addr.(*ssa.FieldAddr); ok && strings.HasPrefix(fieldKey(fa), "golang.org/x/tools/go/packages.Package.") {
						c.fail(rule, fnName(fn)+":edits-"+fieldKey(fa), L.pos(x.Pos()), "the loaded package is modified ("+fieldKey(fa)+"): Syntax and GoFiles are index-aligned and shared by every later walk", describe(x.Val))
					}
				case *ssa.FieldAddr:
					k := fieldKey(x)
					if strings.HasPrefix(k, "golang.org/x/tools/go/packages.Package.") {
						nReads++
						if k == "golang.org/x/tools/go/packages.Package.Errors" || k == "golang.org/x/tools/go/packages.Package.TypeErrors" || k == "golang.org/x/tools/go/packages.Package.IllTyped" {
							c.fail(rule, fnName(fn)+":reads-"+k, L.pos(x.Pos()), "generation depends on the package's error list: a stale or truncated earlier output (a syntax/type error of the package) would change or block regeneration", k)
						}
					}
				}
			}
		}
	}
	c.floor(rule, "reads of loaded-package fields", nReads, 5)
}

// ruleMigrateRendererFidelity: every kind of type the migration prints structurally (a case of TypeConverter.TypeToExpr)
// carries over what identifies the type - kessoku later matches providers and requirements by types.Type.String(), which
// for function types includes the parameter names, for arrays the length, for channels the direction, for instantiated
// generics the type arguments. Kinds without a case use the String() fallback.
func ruleMigrateRendererFidelity(c *Ctx, rule string) {
	L := c.L
	p := L.Pkgs[migPkg]
	fd, _ := L.funcDecl(migPkg, "TypeConverter", "TypeToExpr")
	if fd == nil || p == nil {
		if fn := resolveRole(c, migPkg, "(*TypeConverter).TypeToExpr"); fn != nil {
			fd = funcDeclOfSSA(L, fn)
		}
	}
	if fd == nil {
		c.undecided(rule, "TypeToExpr", "converter type printer not found")
		return
	}
	w := analyseWalkerDecl(L, p, fd)
	table := map[string][]string{}
	for k, v := range fidelityTable {
		table[k] = v
	}
	table["Signature"] = append(append([]string{}, fidelityTable["Signature"]...), "*.Name|Params.At.Name")
	n := 0
	kinds := sortedKeys(table)
	for _, k := range kinds {
		if !w.handled[k] {
			continue
		}
		for _, req := range table[k] {
			n++
			if k == "Interface" {
				acc := w.perKind[k]
				okI := hasAny(acc, "Methods|Method|NumMethods") || (hasAny(acc, "ExplicitMethod|ExplicitMethods|NumExplicitMethods") && hasAny(acc, "EmbeddedType|EmbeddedTypes|Embeddeds|NumEmbeddeds")) || hasAny(acc, "String")
				c.check(okI, rule, "TypeToExpr:Interface:Methods", L.pos(fd.Pos()), "interface types keep all their methods", fmt.Sprintf("accessors: %v", sortedKeys(acc)))
				continue
			}
			c.check(hasAny(w.perKind[k], req) || hasAny(w.perKind[k], "String"), rule, "TypeToExpr:"+k+":"+strings.Split(req, "|")[0], L.pos(fd.Pos()),
				fmt.Sprintf("the migration's type printer carries over %s of *types.%s (part of what kessoku's type key prints)", req, k), fmt.Sprintf("accessors used in the case: %v", sortedKeys(w.perKind[k])))
		}
	}
	c.floor(rule, "fidelity obligations of TypeToExpr", n, 6)
}

// ruleFieldsMergedPerStruct (C13.10): when several wire.FieldsOf of one set are merged, a field is left out only because the
// SAME struct's merged entry already has it. The test that guards the append of a field name is a membership test in the
// Fields of the entry it is appended to (or a table whose key includes the struct type).
func ruleFieldsMergedPerStruct(c *Ctx, rule string) {
	L := c.L
	fn := resolveRole(c, migPkg, "(*Transformer).mergeFieldsOf")
	if fn == nil {
		c.undecided(rule, "mergeFieldsOf", "function not found")
		return
	}
	c.seen(fnName(fn))
	n := 0
	for _, st := range storesToField([]*ssa.Function{fn}, "internal/migrate.WireFieldsOf.Fields") {
		call, ok := st.Val.(*ssa.Call)
		if !ok {
			continue
		}
		// the merge may live in a private helper: entry.Fields = h(entry.Fields, more) where h appends to its first
		// parameter exactly the elements of the second that the growing list does not contain yet
		if h := call.Common().StaticCallee(); h != nil && len(call.Common().Args) == 2 && len(h.Blocks) > 0 && h.Pkg == fn.Pkg {
			if ld, isL := call.Common().Args[0].(*ssa.UnOp); isL {
				if fa0, isF := ld.X.(*ssa.FieldAddr); isF && fieldKey(fa0) == "internal/migrate.WireFieldsOf.Fields" && resolve(fa0.X) == resolve(st.Addr.(*ssa.FieldAddr).X) {
					n++
					okH, whyH := dedupAppendHelper(h)
					c.check(okH, rule, "mergeFieldsOf:duplicate-test-per-struct", L.pos(st.Pos()), "a merged field is dropped only when the same struct's entry already lists it", "through helper "+h.Name()+": "+whyH)
					continue
				}
			}
		}
		bi, ok := call.Common().Value.(*ssa.Builtin)
		if !ok || bi.Name() != "append" {
			continue
		}
		elems, isLit := variadicElems(call.Common().Args[1])
		if !isLit || len(elems) != 1 {
			continue // the initial copy of a whole list
		}
		n++
		entry := st.Addr.(*ssa.FieldAddr).X
		hdr := outermostLoopHeader(st.Block())
		okAll, why := true, ""
		guards := 0
		for _, iff := range controllingIfs(st) {
			// only tests inside the loop over the fields being merged
			inner := false
			for d := st.Block(); d != nil; d = d.Idom() {
				if d == iff.Block() {
					inner = true
				}
			}
			if !inner || iff.Block() == hdr {
				continue
			}
			if bo, isB := iff.Cond.(*ssa.BinOp); isB && (bo.Op == token.LSS || bo.Op == token.GTR) {
				continue // loop condition
			}
			if _, isExt := iff.Cond.(*ssa.Extract); isExt {
				// comma-ok of the per-type lookup / type assertion: fine if not keyed by the field
				if ex := iff.Cond.(*ssa.Extract); ex != nil {
					if lk, isLk := ex.Tuple.(*ssa.Lookup); isLk && sameValueOrigin(lk.Index, elems[0]) {
						okAll, why = false, "the field is looked up in a table keyed by the bare field name (shared by all struct types)"
					}
				}
				continue
			}
			switch x := iff.Cond.(type) {
			case *ssa.Call:
				if cal := x.Common().StaticCallee(); cal != nil && len(x.Common().Args) == 2 && sameValueOrigin(x.Common().Args[1], elems[0]) {
					guards++
					hay := x.Common().Args[0]
					if ld, ok := hay.(*ssa.UnOp); ok {
						if fa, ok := ld.X.(*ssa.FieldAddr); ok && fieldKey(fa) == "internal/migrate.WireFieldsOf.Fields" && resolve(fa.X) == resolve(entry) {
							continue
						}
					}
					okAll, why = false, "membership is tested in "+describe(hay)+", not in the Fields of the entry being extended"
				}
			case *ssa.Lookup:
				if sameValueOrigin(x.Index, elems[0]) {
					guards++
					okAll, why = false, "the field is looked up in a table keyed by the bare field name (shared by all struct types)"
				}
			case *ssa.UnOp:
				if lk, ok := x.X.(*ssa.Lookup); ok && sameValueOrigin(lk.Index, elems[0]) {
					guards++
					okAll, why = false, "the field is looked up in a table keyed by the bare field name (shared by all struct types)"
				}
			}
		}
		c.check(okAll, rule, "mergeFieldsOf:duplicate-test-per-struct", L.pos(st.Pos()), "a merged field is dropped only when the same struct's entry already lists it", fmt.Sprintf("%d membership guard(s); %s", guards, why))
	}
	c.floor(rule, "single-field appends in mergeFieldsOf", n, 1)
}

// rulePackageMismatchRefused (C14): results from different packages are never merged into one file: the mismatch refusal
// depends on the package comparison alone, for every result (it does not hide behind "the result declares a set").
func rulePackageMismatchRefused(c *Ctx, rule string) {
	L := c.L
	mr := resolveRole(c, migPkg, "(*Migrator).mergeResults")
	if mr == nil {
		c.undecided(rule, "mergeResults", "function not found")
		return
	}
	n := 0
	for _, st := range storesToField(family(L, mr), "internal/migrate.MergeError.Kind") {
		s := newSym(L, map[string]bool{})
		s.maxD = 0
		k := strings.Join(s.eval(st.Val), "|")
		if !strings.Contains(k, "package") && !strings.Contains(strings.ToLower(k), "mismatch") {
			// identify by the constant's name through the types info instead of its value
			if cst, ok := st.Val.(*ssa.Const); !ok || cst.Value == nil {
				continue
			}
		}
		if !isPackageMismatchKind(L, st.Val) {
			continue
		}
		n++
		okAll, sawCmp := true, false
		var conds []string
		for _, iff := range controllingIfs(st) {
			if outermostLoopHeader(iff.Block()) == nil && !strings.Contains(iff.Block().Comment, "loop") {
				continue // before the loop (e.g. len(results) == 0)
			}
			t := strings.Join(s.eval(iff.Cond), "|")
			c.Notes = append(c.Notes, "mergeResults mismatch guard: "+t)
			switch {
			case strings.Contains(t, "MigrationResult.Package"):
				sawCmp = true
			case strings.HasPrefix(t, "bin<(") || strings.HasPrefix(t, "bin>(") || strings.Contains(t, "next#") || strings.HasPrefix(t, "extract#0(next"):
				// loop conditions
			default:
				okAll = false
				conds = append(conds, t)
			}
		}
		c.check(okAll && sawCmp, rule, "mergeResults:package-mismatch-refused-for-every-result", L.pos(st.Pos()),
			"a result from another package is refused whatever it declares (the refusal is guarded by the package comparison only)", fmt.Sprintf("package comparison seen=%v; further conditions: %s", sawCmp, strings.Join(conds, " ; ")))
	}
	c.floor(rule, "package-mismatch refusals in mergeResults", n, 1)
}

func isPackageMismatchKind(L *Loaded, v ssa.Value) bool {
	cst, ok := v.(*ssa.Const)
	if !ok || cst.Value == nil {
		return false
	}
	p := L.Pkgs[migPkg]
	if p == nil {
		return false
	}
	o := p.Types.Scope().Lookup("MergeErrorPackageMismatch")
	if o == nil {
		return false
	}
	kc, ok := o.(*types.Const)
	return ok && kc.Val().ExactString() == cst.Value.ExactString() && types.Identical(kc.Type(), cst.Type())
}

// ruleInspectVisitsEverything: the import collector of the migration walks the whole copied expression: its ast.Inspect
// callback never prunes (a `return false` would leave package references in the skipped subtree unresolved and unimported).
func ruleInspectVisitsEverything(c *Ctx, rule string) {
	L := c.L
	fn := resolveRole(c, migPkg, "(*TypeConverter).CollectExprImports")
	if fn == nil {
		c.undecided(rule, "CollectExprImports", "function not found")
		return
	}
	c.seen(fnName(fn))
	n := 0
	for _, cs := range callsIn(fn) {
		if cs.callee != "go/ast.Inspect" {
			continue
		}
		var cb *ssa.Function
		switch f := resolve(cs.arg(1)).(type) {
		case *ssa.MakeClosure:
			cb = f.Fn.(*ssa.Function)
		case *ssa.Function:
			cb = f
		}
		if cb == nil {
			c.undecided(rule, "CollectExprImports:callback", "the Inspect callback is not a function literal")
			continue
		}
		n++
		bad := ""
		var alwaysTrue func(f *ssa.Function, d int)
		alwaysTrue = func(f *ssa.Function, d int) {
			for _, r := range returnsOf(f) {
				if k, isC := r.Results[0].(*ssa.Const); isC && k.Value != nil && k.Value.String() == "true" {
					continue
				}
				// the body moved into a method the callback only forwards to
				if call, isCall := r.Results[0].(*ssa.Call); isCall && d < 2 {
					if g := call.Common().StaticCallee(); g != nil && len(g.Blocks) > 0 && g.Pkg == fn.Pkg && g.Signature.Results().Len() == 1 {
						alwaysTrue(g, d+1)
						continue
					}
				}
				bad = "returns " + describe(r.Results[0]) + " at " + L.pos(r.Pos())
			}
		}
		alwaysTrue(cb, 0)
		c.check(bad == "", rule, "CollectExprImports:walks-whole-expression", L.pos(cs.instr.Pos()), "every sub-expression is visited (the callback always returns true)", bad)
	}
	c.floor(rule, "ast.Inspect walks in CollectExprImports", n, 1)
}

// ruleInstallWalksBeforeSuccess: Install reports success only after it walked the embedded tree (checked call).
func ruleInstallWalksBeforeSuccess(c *Ctx, rule string, install *ssa.Function) {
	L := c.L
	if install == nil {
		c.undecided(rule, "Install", "function not found")
		return
	}
	walks := findCalls(install, "io/fs.WalkDir")
	// a helper of Install that walks: every success of the helper is the walk's success (checked before, or returned directly)
	for _, cs := range callsIn(install) {
		h := cs.common.StaticCallee()
		if h == nil || len(h.Blocks) == 0 || h.Pkg != install.Pkg || errorResultIndex(h) < 0 {
			continue
		}
		hw := findCalls(h, "io/fs.WalkDir")
		if len(hw) == 0 {
			continue
		}
		okH := true
		for _, r := range returnsOf(h) {
			okR := false
			for _, w := range hw {
				if w.value() == nil {
					continue
				}
				if returnsNilError(r) {
					if o, _ := checkedBefore(w.value(), r); o {
						okR = true
					}
				} else if rr := resolve(r.Results[len(r.Results)-1]); rr == ssa.Value(w.value()) {
					okR = true // return fs.WalkDir(...)
				}
			}
			if !returnsNilError(r) && !okR {
				// a failing return before the walk is fine
				if ok2, _ := allPathsReturnNonNil(r.Block(), map[*ssa.BasicBlock]bool{}); ok2 {
					okR = true
				}
			}
			if !okR {
				okH = false
			}
		}
		if okH {
			walks = append(walks, cs)
		}
	}
	n := 0
	for _, r := range returnsOf(install) {
		if !returnsNilError(r) {
			continue
		}
		n++
		ok := false
		for _, w := range walks {
			if w.value() != nil {
				if o, _ := checkedBefore(w.value(), r); o {
					ok = true
				}
			}
		}
		c.check(ok, rule, "Install:success-only-after-the-walk", L.pos(r.Pos()), "Install reports success only after the whole embedded tree was walked without error (no shortcut that trusts what is already there)", fmt.Sprintf("%d WalkDir call(s)", len(walks)))
	}
	c.floor(rule, "success returns of Install", n, 1)
}

// ruleCallerLaneChoice: which pool runs on the caller's goroutine is decided by two facts only - the first ready pool whose
// head is synchronous, else the first ready pool. (Every other ready pool is a goroutine; pools that become ready later are
// emitted in pool order.) The choice matters: a failing provider on the caller returns without cancelling the group (recorded
// finding C08.1), and the caller's waits decide deadlock-freedom of the lanes; another criterion moves inputs between those
// cases and has to be argued anew.
func ruleCallerLaneChoice(c *Ctx, rule string) {
	L := c.L
	bs := genFn(c, rule, "(*Graph).buildStmts")
	bps := resolveRole(c, genPkg, "(*Graph).buildPoolStmtsSimple")
	if bs == nil || bps == nil {
		return
	}
	// underAsyncTest: the block is reached only through a test of a pool head's IsAsync flag (and through no other predicate)
	underAsyncTest := func(b *ssa.BasicBlock) bool {
		under := false
		for d := b; d != nil; d = d.Idom() {
			if len(d.Instrs) == 0 {
				continue
			}
			if iff, ok := d.Instrs[len(d.Instrs)-1].(*ssa.If); ok {
				s := newSym(L, map[string]bool{})
				s.maxD = 0
				t := strings.Join(s.eval(iff.Cond), "|")
				if strings.Contains(t, "field:internal/kessoku.ProviderSpec.IsAsync(field:internal/kessoku.node.providerSpec(index(") && !strings.Contains(t, genPkg+".") {
					under = true
				}
				if strings.Contains(t, genPkg+".") || strings.Contains(t, "slices.") {
					return false
				}
			}
		}
		return under
	}
	combine := func(kinds map[string]bool) string {
		delete(kinds, "ok")
		if kinds["first"] && kinds["sync-elem"] && len(kinds) == 2 {
			return "first" // default first ready pool, overridden by the first ready pool with a synchronous head
		}
		if kinds["sync-elem"] {
			delete(kinds, "sync-elem")
			kinds["elem"] = true
		}
		if len(kinds) == 1 {
			for k := range kinds {
				return k
			}
		}
		if len(kinds) == 0 {
			return "ok"
		}
		return "mixed:" + strings.Join(sortedKeys(kinds), "+")
	}
	var classify func(v ssa.Value, seen map[ssa.Value]bool) string
	classify = func(v ssa.Value, seen map[ssa.Value]bool) string {
		if seen[v] {
			return "ok"
		}
		seen[v] = true
		switch x := v.(type) {
		case *ssa.Const:
			if n, ok := constInt(x); ok && n == -1 {
				return "ok" // "none found"
			}
			return "constant " + x.String()
		case *ssa.UnOp:
			if ia, ok := x.X.(*ssa.IndexAddr); ok && x.Op == token.MUL {
				if n, isC := constInt(ia.Index); isC {
					if n == 0 {
						return "first" // first ready pool
					}
					return fmt.Sprintf("ready pool #%d", n)
				}
				return "elem" // element of the ready list visited by a scan
			}
		case *ssa.BinOp:
			if x.Op == token.ADD {
				if _, isPhi := x.X.(*ssa.Phi); isPhi {
					return "loopvar"
				}
			}
		case *ssa.Call:
			// the index found by a private finder helper: what the helper returns, each return read where it stands
			if g := x.Common().StaticCallee(); g != nil && g.Pkg == bs.Pkg && len(g.Blocks) > 0 && g.Signature.Results().Len() == 1 {
				kinds := map[string]bool{}
				for _, r := range returnsOf(g) {
					k := classify(r.Results[0], seen)
					if k == "elem" && underAsyncTest(r.Block()) {
						k = "sync-elem"
					}
					kinds[k] = true
				}
				return combine(kinds)
			}
		case *ssa.Phi:
			kinds := map[string]bool{}
			for i, e := range x.Edges {
				k := classify(e, seen)
				// "the first ready pool, unless a ready pool with a synchronous head is found": the scanned element may
				// replace the default only under the IsAsync test of that pool's head
				if k == "elem" && i < len(x.Block().Preds) && underAsyncTest(x.Block().Preds[i]) {
					k = "sync-elem"
				}
				kinds[k] = true
			}
			return combine(kinds)
		}
		return "computed: " + describe(v)
	}
	n := 0
	for _, cs := range callsIn(bs) {
		if cs.common.StaticCallee() != bps {
			continue
		}
		n++
		kind := "not an element of pools"
		if ld, ok := cs.arg(1).(*ssa.UnOp); ok && ld.Op == token.MUL {
			if ia, ok := ld.X.(*ssa.IndexAddr); ok {
				kind = classify(ia.Index, map[ssa.Value]bool{})
			}
		}
		ok := kind == "first" || kind == "elem" || kind == "loopvar" || kind == "ok"
		c.check(ok, rule, fnName(bs)+":which-pool-is-built-where", L.pos(cs.instr.Pos()),
			"the pool handed to buildPoolStmtsSimple is the first ready pool with a synchronous head, the first ready pool, or the pool the walk is at (no other preference, e.g. for the pool of the result)", "pool index is: "+kind)
	}
	c.floor(rule, "buildPoolStmtsSimple call sites in buildStmts", n, 2)
}

// dedupAppendHelper: h(dst, src) returns dst extended, element by element, by those elements that a membership test in the
// growing dst (rooted at parameter 0) does not find.
func dedupAppendHelper(h *ssa.Function) (bool, string) {
	if len(h.Params) != 2 {
		return false, "not a two-parameter helper"
	}
	var rooted func(v ssa.Value, seen map[ssa.Value]bool) bool
	rooted = func(v ssa.Value, seen map[ssa.Value]bool) bool {
		if seen[v] {
			return true
		}
		seen[v] = true
		switch x := v.(type) {
		case *ssa.Parameter:
			return x == h.Params[0]
		case *ssa.Phi:
			for _, e := range x.Edges {
				if !rooted(e, seen) {
					return false
				}
			}
			return true
		case *ssa.Call:
			if bi, ok := x.Common().Value.(*ssa.Builtin); ok && bi.Name() == "append" {
				return rooted(x.Common().Args[0], seen)
			}
		}
		return false
	}
	n := 0
	for _, cs := range callsIn(h) {
		bi, ok := cs.common.Value.(*ssa.Builtin)
		if !ok || bi.Name() != "append" {
			continue
		}
		elems, isLit := variadicElems(cs.common.Args[1])
		if !isLit || len(elems) != 1 || !rooted(cs.common.Args[0], map[ssa.Value]bool{}) {
			return false, "append of " + describe(cs.common.Args[1])
		}
		n++
		guarded := false
		for _, iff := range controllingIfs(cs.instr) {
			var test *ssa.Call
			switch x := iff.Cond.(type) {
			case *ssa.Call:
				test = x
			case *ssa.UnOp:
				if x.Op == token.NOT {
					test, _ = x.X.(*ssa.Call)
				}
			}
			if test != nil && len(test.Common().Args) == 2 && rooted(test.Common().Args[0], map[ssa.Value]bool{}) && sameValueOrigin(test.Common().Args[1], elems[0]) {
				guarded = true
			}
		}
		if !guarded {
			return false, "an element is appended without a membership test in the growing list"
		}
	}
	for _, r := range returnsOf(h) {
		if len(r.Results) != 1 || !rooted(r.Results[0], map[ssa.Value]bool{}) {
			return false, "returns something else than the extended first parameter"
		}
	}
	return n > 0, fmt.Sprintf("%d guarded append(s)", n)
}

// ruleProviderTypeResultsFresh (C10.7): parseProviderType's wrapper cases (Async, Bind) set flags on the result of the
// recursive call IN PLACE. That is only sound while every result is a fresh value nobody else holds: a result kept in a
// table or a field (a cache) would be modified for all its other users (a plain provider would inherit Async or a bound type).
func ruleProviderTypeResultsFresh(c *Ctx, rule string) {
	L := c.L
	isRes := func(t types.Type) bool {
		return strings.HasSuffix(t.String(), "*"+genPkg+".parseProviderTypeResult")
	}
	inPlace := 0
	for _, st := range storesToField(pkgFuncs(L, genPkg), "internal/kessoku.parseProviderTypeResult.IsAsync") {
		if fa, ok := st.Addr.(*ssa.FieldAddr); ok {
			if _, fresh := fa.X.(*ssa.Alloc); !fresh {
				inPlace++
			}
		}
	}
	if inPlace == 0 {
		c.ok(rule, "wrapper cases do not modify a received result in place; retention of results is harmless", "no store into a non-fresh parseProviderTypeResult")
		return
	}
	bad := 0
	for _, fn := range pkgFuncs(L, genPkg) {
		for _, b := range fn.Blocks {
			for _, in := range b.Instrs {
				switch x := in.(type) {
				case *ssa.MapUpdate:
					if isRes(x.Value.Type()) {
						bad++
						c.fail(rule, fnName(fn)+":result-retained-in-table", L.pos(x.Pos()), "a parseProviderType result is kept in a table although the Async/Bind cases modify results in place: the cached value changes under its other users")
					}
				case *ssa.Store:
					if !isRes(x.Val.Type()) {
						continue
					}
					switch a := x.Addr.(type) {
					case *ssa.FieldAddr:
						bad++
						c.fail(rule, fnName(fn)+":result-retained-in-field", L.pos(x.Pos()), "a parseProviderType result is kept in "+fieldKey(a)+" although the Async/Bind cases modify results in place")
					case *ssa.Global:
						bad++
						c.fail(rule, fnName(fn)+":result-retained-in-global", L.pos(x.Pos()), "a parseProviderType result is kept in a package variable although the Async/Bind cases modify results in place")
					}
				}
			}
		}
	}
	if bad == 0 {
		c.ok(rule, fmt.Sprintf("parseProviderType results are never retained (%d in-place modification(s) of received results are therefore private)", inPlace), "scan of map updates and stores of *parseProviderTypeResult")
	}
}

// ruleLoopsMakeProgress: a condition-controlled loop of the generator changes at least one of the variables its condition
// reads on every way back to the loop head. A way back that changes none of them repeats forever: the generator neither
// accepts nor refuses its input, it hangs.
func ruleLoopsMakeProgress(c *Ctx, rule string, pkgs ...string) {
	L := c.L
	n := 0
	for _, fn := range pkgFuncs(L, pkgs...) {
		for _, h := range fn.Blocks {
			if !strings.HasPrefix(h.Comment, "for.loop") || len(h.Instrs) == 0 {
				continue
			}
			iff, ok := h.Instrs[len(h.Instrs)-1].(*ssa.If)
			if !ok {
				continue
			}
			// the loop-carried variables the condition depends on
			phis := map[*ssa.Phi]bool{}
			var dep func(v ssa.Value, d int)
			dep = func(v ssa.Value, d int) {
				if d > 8 || v == nil {
					return
				}
				switch x := v.(type) {
				case *ssa.Phi:
					if x.Block() == h {
						phis[x] = true
					}
				case *ssa.BinOp:
					dep(x.X, d+1)
					dep(x.Y, d+1)
				case *ssa.UnOp:
					dep(x.X, d+1)
				case *ssa.Call:
					for _, a := range x.Common().Args {
						dep(a, d+1)
					}
				case *ssa.ChangeInterface:
					dep(x.X, d+1)
				case *ssa.MakeInterface:
					dep(x.X, d+1)
				}
			}
			dep(iff.Cond, 0)
			// compound conditions (a && b) put the second test in another block of the loop head region
			for _, s := range h.Succs {
				if len(s.Instrs) > 0 && h.Dominates(s) && strings.HasPrefix(s.Comment, "cond.") {
					if i2, ok := s.Instrs[len(s.Instrs)-1].(*ssa.If); ok {
						dep(i2.Cond, 0)
					}
				}
			}
			if len(phis) == 0 {
				continue // the condition reads memory or calls (queues, iterators): not decidable here
			}
			n++
			for i, p := range h.Preds {
				if !h.Dominates(p) {
					continue // loop entry
				}
				unchanged := true
				for ph := range phis {
					if i < len(ph.Edges) && ph.Edges[i] != ssa.Value(ph) {
						unchanged = false
					}
				}
				c.check(!unchanged, rule, fnName(fn)+":loop-progress", L.pos(iff.Cond.Pos()),
					"every way back to the head of a condition-controlled loop changes a variable the condition reads", fmt.Sprintf("back edge from block %d (%s) leaves %d loop variable(s) unchanged", p.Index, p.Comment, len(phis)))
			}
		}
	}
	c.floor(rule, "condition-controlled loops over loop-carried variables", n, 1)
}

// ruleVariadicProviderCalls (C04.15): a provider function with a variadic last parameter requires the slice behind it; the
// emitted call must pass that slice as `arg...`. The parser has to look at Signature.Variadic() when it turns parameters
// into requirements, and the call template has to set Ellipsis under that flag.
func ruleVariadicProviderCalls(c *Ctx, rule string) {
	L := c.L
	ppt := resolveRole(c, genPkg, "(*Parser).parseProviderType")
	if ppt == nil {
		c.undecided(rule, "parseProviderType", "function not found")
		return
	}
	consults := false
	for _, fn := range family(L, ppt) {
		for _, cs := range callsIn(fn) {
			if cs.callee == "(*go/types.Signature).Variadic" {
				consults = true
			}
		}
	}
	c.check(consults, rule, "parseProviderType:variadic-consulted", L.pos(ppt.Pos()),
		"the provider signature's variadic flag is read when its parameters become requirements (the last requirement of a variadic provider is a slice that must be spread)", "call of (*types.Signature).Variadic in parseProviderType's family")
	emits := false
	for _, fn := range pkgFuncs(L, genPkg) {
		for _, b := range fn.Blocks {
			for _, in := range b.Instrs {
				st, ok := in.(*ssa.Store)
				if !ok {
					continue
				}
				fa, ok := st.Addr.(*ssa.FieldAddr)
				if !ok || fieldKey(fa) != "go/ast.CallExpr.Ellipsis" {
					continue
				}
				for _, iff := range controllingIfs(st) {
					s := newSym(L, map[string]bool{})
					s.maxD = 0
					if strings.Contains(strings.Join(s.eval(iff.Cond), "|"), "ProviderSpec.IsVariadic(") || condMentionsField(iff.Cond, "internal/kessoku.ProviderSpec.IsVariadic", 6) {
						emits = true
					}
				}
			}
		}
	}
	c.check(emits, rule, "provider-call:ellipsis-for-variadic", "-", "the provider call is emitted with `...` exactly for variadic providers", "store to CallExpr.Ellipsis under ProviderSpec.IsVariadic")
}

// condMentionsField: the branch condition (through &&-chains lowered to earlier branches and phis) reads the given field.
func condMentionsField(v ssa.Value, key string, depth int) bool {
	if depth < 0 || v == nil {
		return false
	}
	switch x := v.(type) {
	case *ssa.UnOp:
		if fa, ok := x.X.(*ssa.FieldAddr); ok && fieldKey(fa) == key {
			return true
		}
		return condMentionsField(x.X, key, depth-1)
	case *ssa.BinOp:
		return condMentionsField(x.X, key, depth-1) || condMentionsField(x.Y, key, depth-1)
	case *ssa.Phi:
		for _, e := range x.Edges {
			if condMentionsField(e, key, depth-1) {
				return true
			}
		}
		// a phi of a short-circuit: look at the branches that feed it
		for _, p := range x.Block().Preds {
			if len(p.Instrs) > 0 {
				if iff, ok := p.Instrs[len(p.Instrs)-1].(*ssa.If); ok && condMentionsField(iff.Cond, key, depth-1) {
					return true
				}
			}
		}
	}
	return false
}

// ruleExprListsFresh: a list of emitted expressions (channel names to wait for / to close, arguments, left-hand sides) is
// built from nothing by the function that returns it. A list that grows from a slice handed in by the caller shares its
// backing array with whatever else the caller builds from that slice: two lists appended "from index 0" overwrite each other.
func ruleExprListsFresh(c *Ctx, rule string) {
	L := c.L
	n := 0
	for _, fn := range pkgFuncs(L, genPkg) {
		for _, cs := range callsIn(fn) {
			bi, ok := cs.common.Value.(*ssa.Builtin)
			if !ok || bi.Name() != "append" || cs.value() == nil || cs.value().Type().String() != "[]go/ast.Expr" {
				continue
			}
			n++
			seen := map[ssa.Value]bool{}
			var root func(v ssa.Value) ssa.Value
			root = func(v ssa.Value) ssa.Value {
				if seen[v] {
					return nil
				}
				seen[v] = true
				switch x := v.(type) {
				case *ssa.Phi:
					for _, e := range x.Edges {
						if r := root(e); r != nil {
							return r
						}
					}
					return nil
				case *ssa.Call:
					if b2, ok := x.Common().Value.(*ssa.Builtin); ok && b2.Name() == "append" {
						return root(x.Common().Args[0])
					}
				case *ssa.Parameter:
					return x
				}
				return nil
			}
			if p := root(cs.common.Args[0]); p != nil {
				c.fail(rule, fnName(fn)+":expression-list-grows-from-parameter:"+p.Name(), L.pos(cs.instr.Pos()), "a list of emitted expressions is appended to a slice the caller handed in ("+p.Name()+"): lists built from the same slice share one backing array and overwrite each other", describe(cs.common.Args[0]))
			}
		}
	}
	c.floor(rule, "appends to []ast.Expr lists in the generator", n, 4)
}

// ruleProviderCallOnlyInItsStatement: the expression that invokes a provider (`<provider>.Fn()(args)`) is emitted only as the
// right-hand side of that provider's own call statement - the one place that is ordered after the statement's waits, inside
// its lane, after the goroutines were spawned. (Evaluated elsewhere - e.g. as the initial value of a var declaration - a
// provider would run before the goroutines exist.)
func ruleProviderCallOnlyInItsStatement(c *Ctx, rule string) {
	L := c.L
	stmtFn := resolveRole(c, genPkg, "(*InjectorProviderCallStmt).Stmt")
	if stmtFn == nil {
		c.undecided(rule, "InjectorProviderCallStmt.Stmt", "function not found")
		return
	}
	fam := map[*ssa.Function]bool{}
	for _, f := range family(L, stmtFn) {
		fam[f] = true
	}
	// functions that build the call template: a SelectorExpr whose X is a ProviderSpec.ASTExpr and whose Sel is "Fn"
	builders := map[*ssa.Function]bool{}
	for _, fn := range pkgFuncs(L, genPkg) {
		for _, st := range storesToField([]*ssa.Function{fn}, "go/ast.SelectorExpr.X") {
			s := newSym(L, map[string]bool{})
			s.maxD = 0
			if strings.Contains(strings.Join(s.eval(st.Val), "|"), "field:internal/kessoku.ProviderSpec.ASTExpr(") {
				root := fn
				for root.Parent() != nil {
					root = root.Parent()
				}
				builders[root] = true
			}
		}
	}
	c.floor(rule, "functions that build the provider-call expression", len(builders), 1)
	for b := range builders {
		if fam[b] || b == stmtFn {
			c.ok(rule, fnName(b)+" builds the provider call inside the call statement's own family", "")
			continue
		}
		// called from elsewhere?
		var outside []string
		for _, fn := range pkgFuncs(L, genPkg) {
			for _, cs := range callsIn(fn) {
				if cs.common.StaticCallee() == b {
					root := fn
					for root.Parent() != nil {
						root = root.Parent()
					}
					if !fam[root] && root != stmtFn {
						outside = append(outside, fnName(fn)+" at "+L.pos(cs.instr.Pos()))
					}
				}
			}
		}
		c.check(len(outside) == 0, rule, fnName(b)+":provider-call-built-outside-its-statement", L.pos(b.Pos()),
			"the provider invocation is emitted only by the provider's call statement", strings.Join(outside, "; "))
	}
	// and the statement always emits it: every success return of Stmt follows the call element
	var callElem ssa.Instruction
	for _, e := range stmtElems(L, stmtFn) {
		if strings.Contains(e.label, "lit:AssignStmt") || strings.Contains(e.label, "call:buildAssignmentStatement") {
			callElem = e.at
		}
	}
	if callElem == nil {
		c.undecided(rule, "InjectorProviderCallStmt.Stmt:call-element", "cannot identify the call statement among the emitted elements")
		return
	}
	for _, r := range returnsOf(stmtFn) {
		c.check(instrDominates(callElem, r), rule, "InjectorProviderCallStmt.Stmt:always-emits-its-call", L.pos(r.Pos()),
			"a call statement never returns without emitting its provider call", fmt.Sprintf("return in block %d", r.Block().Index))
	}
}

// ruleEllipsisOnlyLast (C04.6): inside a rendered function type only the LAST parameter may be printed as ...T, and only
// for variadic signatures.
func ruleEllipsisOnlyLast(c *Ctx, rule string) {
	L := c.L
	n := 0
	for _, fn := range pkgFuncs(L, genPkg) {
		for _, b := range fn.Blocks {
			for _, in := range b.Instrs {
				al, ok := in.(*ssa.Alloc)
				if !ok {
					continue
				}
				if nm, _ := isAstNodeType(al.Type()); nm != "Ellipsis" {
					continue
				}
				n++
				variadic, last := false, false
				var walk func(v ssa.Value, d int)
				walk = func(v ssa.Value, d int) {
					if d > 8 || v == nil {
						return
					}
					switch x := v.(type) {
					case *ssa.Call:
						if calleeOf(x.Common()) == "(*go/types.Signature).Variadic" {
							variadic = true
						}
					case *ssa.BinOp:
						if x.Op == token.EQL {
							for _, side := range []ssa.Value{x.X, x.Y} {
								if sb, ok := side.(*ssa.BinOp); ok && sb.Op == token.SUB {
									if k, ok := constInt(sb.Y); ok && k == 1 {
										if lc, ok := sb.X.(*ssa.Call); ok && strings.HasSuffix(calleeOf(lc.Common()), ").Len") {
											last = true
										}
									}
								}
							}
						}
						walk(x.X, d+1)
						walk(x.Y, d+1)
					case *ssa.UnOp:
						walk(x.X, d+1)
					case *ssa.Parameter:
						// a flag handed in by the callers: every caller passes Signature.Variadic() or the constant false (never ...T)
						pf := x.Parent()
						idx := -1
						for i, pp := range pf.Params {
							if pp == x {
								idx = i
							}
						}
						sites, good := 0, 0
						for _, g := range pkgFuncs(L, genPkg) {
							for _, cs := range callsIn(g) {
								if cal := cs.common.StaticCallee(); cal != nil && originOf(cal) == pf && idx >= 0 && idx < len(cs.common.Args) {
									sites++
									a := cs.common.Args[idx]
									if k, ok := a.(*ssa.Const); ok && k.Value != nil && k.Value.String() == "false" {
										good++
									} else if ac, ok := a.(*ssa.Call); ok && calleeOf(ac.Common()) == "(*go/types.Signature).Variadic" {
										good++
									}
								}
							}
						}
						if sites > 0 && sites == good {
							variadic = true
						}
					case *ssa.Phi:
						for _, e := range x.Edges {
							walk(e, d+1)
						}
						for _, p := range x.Block().Preds {
							if len(p.Instrs) > 0 {
								if iff, ok := p.Instrs[len(p.Instrs)-1].(*ssa.If); ok {
									walk(iff.Cond, d+1)
								}
							}
							for dd := p.Idom(); dd != nil && d < 4; dd = dd.Idom() {
								if len(dd.Instrs) > 0 {
									if iff, ok := dd.Instrs[len(dd.Instrs)-1].(*ssa.If); ok && dd.Dominates(x.Block()) {
										walk(iff.Cond, d+2)
									}
								}
								break
							}
						}
					case *ssa.Extract:
						// the comma-ok of the slice type assertion
					}
				}
				for _, iff := range controllingIfs(al) {
					walk(iff.Cond, 0)
				}
				c.check(variadic && last, rule, fnName(fn)+":ellipsis-only-for-last-variadic-parameter", L.pos(al.Pos()),
					"a parameter is printed as ...T only when the signature is variadic and it is the last parameter", fmt.Sprintf("variadic consulted=%v, last-index test=%v", variadic, last))
			}
		}
	}
	c.floor(rule, "Ellipsis nodes built by the type renderer", n, 1)
}

// ruleWhoMayCall: a function that decides scheduling facts is called only from where those facts are decided.
// whoMayCallByReach: the allowed callers are everything the roots reach (set by ruleWhoMayCallReach), not only their families.
var whoMayCallByReach bool

// ruleWhoMayCallReach: like ruleWhoMayCall, with "what the roots reach through static calls" as the allowed set (for callees
// with many legitimate callers below the roots).
func ruleWhoMayCallReach(c *Ctx, rule, callee, why string, allowedRoots ...string) {
	whoMayCallByReach = true
	defer func() { whoMayCallByReach = false }()
	ruleWhoMayCall(c, rule, callee, why, allowedRoots...)
}

func ruleWhoMayCall(c *Ctx, rule, callee, why string, allowedRoots ...string) {
	L := c.L
	target := resolveRole(c, genPkg, callee)
	if target == nil {
		c.undecided(rule, callee, "function not found")
		return
	}
	allowed := map[*ssa.Function]bool{}
	for _, a := range allowedRoots {
		for _, f := range family(L, resolveRole(c, genPkg, a)) {
			allowed[f] = true
		}
		if !whoMayCallByReach {
			continue
		}
		// and everything the root reaches through static calls inside the package (a helper shared by two allowed roots is
		// not in either one's family)
		work := []*ssa.Function{resolveRole(c, genPkg, a)}
		visited := map[*ssa.Function]bool{}
		for len(work) > 0 {
			f := work[len(work)-1]
			work = work[:len(work)-1]
			if f == nil || visited[f] {
				continue
			}
			visited[f] = true
			for _, w := range withClosures(f) {
				allowed[w] = true
				for _, cs := range callsIn(w) {
					g := cs.common.StaticCallee()
					if g == nil {
						continue
					}
					g = originOf(g)
					if g.Pkg == nil || g.Pkg.Pkg.Path() != genPkg || !L.NonTest[g] || g == target {
						continue
					}
					work = append(work, g)
				}
			}
		}
	}
	n := 0
	for _, fn := range pkgFuncs(L, genPkg) {
		for _, cs := range callsIn(fn) {
			if cs.common.StaticCallee() == nil || originOf(cs.common.StaticCallee()) != target {
				continue
			}
			n++
			c.check(allowed[fn] || fn == target, rule, fnName(fn)+":calls:"+shortFn(callee), L.pos(cs.instr.Pos()), why, "caller "+fnName(fn)+"; allowed: the families of "+strings.Join(allowedRoots, ", "))
		}
	}
	c.floor(rule, "call sites of "+shortFn(callee), n, 1)
}

// ruleDoneAndErrSameContext (C07): the select arm that gives up on cancellation watches and reports ONE context: the receiver
// of .Done() and the receiver of .Err() are the same identifier expression.
func ruleDoneAndErrSameContext(c *Ctx, rule string) {
	L := c.L
	p := L.Pkgs[genPkg]
	recv := map[string]map[string]string{} // function -> selector -> receiver expression
	n := 0
	for _, s := range collectTemplates(p) {
		if s.kind != "SelectorExpr" {
			continue
		}
		sel, ok := identConst(p, s.fn, s.fields["Sel"])
		if !ok || (sel != "Done" && sel != "Err") {
			continue
		}
		n++
		x := "?"
		if nm, isC := identConst(p, s.fn, s.fields["X"]); isC {
			x = "const:" + nm
		} else if a := identArg(p, s.fn, s.fields["X"]); a != nil {
			x = "expr:" + exprString(a)
		} else {
			x = "expr:" + exprString(s.fields["X"])
		}
		if recv[s.fnName()] == nil {
			recv[s.fnName()] = map[string]string{}
		}
		if prev, dup := recv[s.fnName()][sel]; dup && prev != x {
			x = prev + " / " + x
		}
		recv[s.fnName()][sel] = x
	}
	for fn, m := range recv {
		d, hasD := m["Done"]
		e, hasE := m["Err"]
		if hasD && hasE {
			c.check(d == e, rule, "template:done-and-err-of-one-context", "-", "a cancellable wait watches and reports the same context (receiver of .Done() == receiver of .Err())", fmt.Sprintf("%s: Done on %s, Err on %s", fn, d, e))
		}
		// and that context is the one identifier the errgroup declaration binds (`eg, ctx := errgroup.WithContext(..)`): a
		// constant name, not a name computed per statement (a provider's own context argument is the caller's context,
		// which the group never cancels)
		for _, sel := range []string{"Done", "Err"} {
			if x, has := m[sel]; has {
				c.check(strings.HasPrefix(x, "const:"), rule, "template:wait-watches-the-group-context:"+sel, "-",
					"the context a wait watches is the constant identifier bound by the errgroup declaration", fmt.Sprintf("%s: %s on %s", fn, sel, x))
			}
		}
	}
	c.floor(rule, "Done/Err selector templates", n, 2)
}

// ruleArgminOverCandidates: findOptimalPool's "smallest pool" fallback is an argmin over the candidate pools only: the
// running minimum starts from a sentinel (no candidate yet), not from the size of pool 0, which need not be a candidate
// (pool 0 is the caller's lane).
func ruleArgminOverCandidates(c *Ctx, rule string) {
	L := c.L
	fn := genFn(c, rule, "(*Graph).findOptimalPool")
	if fn == nil {
		return
	}
	n := 0
	var famBlocks []*ssa.BasicBlock
	for _, g := range family(L, fn) {
		if g.Parent() == nil {
			famBlocks = append(famBlocks, g.Blocks...)
		}
	}
	for _, b := range famBlocks {
		for _, in := range b.Instrs {
			bo, ok := in.(*ssa.BinOp)
			if !ok || bo.Op != token.LSS {
				continue
			}
			lenOfPool := func(v ssa.Value) (*ssa.IndexAddr, bool) {
				// (a pool's size may be hoisted into a local first)
				v = resolve(v)
				call, ok := v.(*ssa.Call)
				if !ok {
					return nil, false
				}
				if bi, isB := call.Common().Value.(*ssa.Builtin); !isB || bi.Name() != "len" {
					return nil, false
				}
				ld, ok := call.Common().Args[0].(*ssa.UnOp)
				if !ok {
					return nil, false
				}
				ia, ok := ld.X.(*ssa.IndexAddr)
				if !ok || !strings.HasSuffix(ia.X.Type().String(), "[][]*"+genPkg+".node") {
					return nil, false
				}
				return ia, true
			}
			if _, isLen := lenOfPool(bo.X); !isLen {
				continue
			}
			if _, isConst := bo.Y.(*ssa.Const); isConst {
				continue // comparisons with constants are not the running minimum
			}
			n++
			ok2, why := false, "the running minimum is "+describe(bo.Y)
			if ph, isPhi := bo.Y.(*ssa.Phi); isPhi {
				for _, e := range ph.Edges {
					if k, isC := e.(*ssa.Const); isC && k.Value != nil {
						ok2, why = true, "running minimum starts from the sentinel "+k.Value.String()
					}
				}
			}
			if ia, isLen := lenOfPool(bo.Y); isLen {
				why = "each candidate is compared with pools[" + describe(ia.Index) + "], which starts as pool 0 - not necessarily a candidate"
			}
			c.check(ok2, rule, fnName(fn)+":smallest-candidate-pool", L.pos(bo.Pos()), "the smallest-pool fallback is an argmin over the candidate pools (running minimum initialised with a sentinel)", why)
		}
	}
	c.floor(rule, "running-minimum comparisons in findOptimalPool", n, 1)
}

// ruleNoNewSwallowedRefusals (C09): errors created below parseInjectCall are logged and skipped by its caller (recorded
// finding C09.1). Their number is therefore frozen: a refusal added there - however well meant - makes the generator exit 0
// without the declaration's function instead of failing.
func ruleNoNewSwallowedRefusals(c *Ctx, rule string, confirmed int) {
	L := c.L
	pic := resolveRole(c, genPkg, "(*Parser).parseInjectCall")
	if pic == nil {
		c.undecided(rule, "parseInjectCall", "function not found")
		return
	}
	// is the error still dropped by the caller? (if the finding was repaired this rule is moot)
	dropped := false
	for _, fn := range pkgFuncs(L, genPkg) {
		for _, cs := range callsIn(fn) {
			if cs.common.StaticCallee() == pic && cs.value() != nil {
				if ok, _ := errorBranchReturnsNonNil(cs.value()); !ok && !returnsCallDirectly(cs.value()) {
					dropped = true
				}
			}
		}
	}
	if !dropped {
		c.ok(rule, "parseInjectCall's error is handed on by its caller: refusals below it are effective", "")
		return
	}
	seen := map[*ssa.Function]bool{}
	var sites []string
	var visit func(fn *ssa.Function, d int)
	visit = func(fn *ssa.Function, d int) {
		if fn == nil || seen[fn] || d > 6 || len(fn.Blocks) == 0 {
			return
		}
		seen[fn] = true
		for _, w := range withClosures(fn) {
			for _, cs := range callsIn(w) {
				switch cs.callee {
				case "fmt.Errorf", "errors.New":
					// only newly created errors count, not wraps of an error that already exists (%w of a callee's error)
					wraps := false
					if cs.callee == "fmt.Errorf" && len(cs.common.Args) == 2 {
						if elems, ok := variadicElems(cs.common.Args[1]); ok {
							for _, e := range elems {
								if isErrorType(resolve(e).Type()) {
									wraps = true
								}
								if mi, ok := resolve(e).(*ssa.MakeInterface); ok && isErrorType(mi.X.Type()) {
									wraps = true
								}
							}
						}
					}
					if !wraps {
						sites = append(sites, L.pos(cs.instr.Pos()))
					}
				}
				if cal := cs.common.StaticCallee(); cal != nil && cal.Pkg != nil && cal.Pkg.Pkg.Path() == genPkg {
					visit(originOf(cal), d+1)
				}
			}
		}
	}
	visit(pic, 0)
	sort.Strings(sites)
	c.check(len(sites) <= confirmed, rule, "parseInjectCall:error-sources-below-a-swallowed-error", L.pos(pic.Pos()),
		fmt.Sprintf("no new refusal is created below parseInjectCall, whose errors the caller logs and skips (confirmed sources: %d)", confirmed), fmt.Sprintf("%d error-creating sites: %s", len(sites), strings.Join(sites, " ")))
}

// ruleResolutionAfterRegistration (C09): a type is looked up in the supplier map to RESOLVE it (the requested type, a
// requirement) only after every supplier has been registered - function results and expanded struct fields alike - and
// after the registration-time refusals (duplicates, orphan Struct) had their chance.
func ruleResolutionAfterRegistration(c *Ctx, rule string) {
	L := c.L
	ng := genFn(c, rule, "NewGraph")
	if ng == nil {
		return
	}
	isSupplier := func(v ssa.Value) bool {
		u, ok := v.(*ssa.UnOp)
		if !ok {
			return strings.Contains(v.Type().String(), "map[string]*") && strings.Contains(v.Type().String(), "fnProvider")
		}
		return strings.Contains(u.Type().String(), "map[string]*") && strings.Contains(u.Type().String(), "fnProvider")
	}
	var inserts []*ssa.MapUpdate
	var lookups []*ssa.Lookup
	for _, fn := range family(L, ng) {
		for _, b := range fn.Blocks {
			for _, in := range b.Instrs {
				switch x := in.(type) {
				case *ssa.MapUpdate:
					if isSupplier(x.Map) {
						inserts = append(inserts, x)
					}
				case *ssa.Lookup:
					if isSupplier(x.X) {
						lookups = append(lookups, x)
					}
				}
			}
		}
	}
	n := 0
	for _, lk := range lookups {
		// a guard lookup: same key as an insert it guards
		guard := false
		for _, ins := range inserts {
			if ins.Parent() == lk.Parent() && sameValueOrigin(ins.Key, lk.Index) {
				guard = true
			}
		}
		if guard {
			continue
		}
		// a pure existence test (the looked-up value is not used): a validation, not a resolution
		usesValue := false
		if lk.Referrers() != nil {
			for _, r := range *lk.Referrers() {
				if ex, ok := r.(*ssa.Extract); ok && ex.Index == 0 && ex.Referrers() != nil && len(*ex.Referrers()) > 0 {
					usesValue = true
				}
			}
			if !lk.CommaOk {
				usesValue = true
			}
		}
		if !usesValue {
			continue
		}
		n++
		bad := ""
		for _, ins := range inserts {
			if ins.Parent() == lk.Parent() && reachableAfter(lk, ins) {
				bad = "a supplier is still registered at " + L.pos(ins.Pos()) + " after this lookup"
			}
		}
		c.check(bad == "", rule, fnName(lk.Parent())+":resolution-after-registration", L.pos(lk.Pos()),
			"the supplier map is consulted to resolve a type only after all suppliers (expanded struct fields included) were registered", bad)
	}
	c.floor(rule, "resolution lookups of the supplier map", n, 2)
}

// ruleBindAppendsInterface (C10): in the Bind case every provided type that implements the bound interface gets the
// interface added to its group - the only test on the way is types.Implements.
func ruleBindAppendsInterface(c *Ctx, rule string) {
	L := c.L
	ppt := resolveRole(c, genPkg, "(*Parser).parseProviderType")
	if ppt == nil {
		c.undecided(rule, "parseProviderType", "function not found")
		return
	}
	n := 0
	for _, fn := range family(L, ppt) {
		for _, cs := range callsIn(fn) {
			if cs.callee != "go/types.Implements" || cs.value() == nil {
				continue
			}
			n++
			// everything that controls this test inside its loops must be a loop condition
			var extra []string
			for _, iff := range controllingIfs(cs.instr) {
				if outermostLoopHeader(iff.Block()) == nil && !strings.Contains(iff.Block().Comment, "loop") {
					continue // before the loops (case selection, argument checks)
				}
				s := newSym(L, map[string]bool{})
				s.maxD = 0
				t := strings.Join(s.eval(iff.Cond), "|")
				if strings.HasPrefix(t, "bin<(") || strings.HasPrefix(t, "bin>(") || strings.Contains(t, "next#") || strings.HasPrefix(t, "extract#") {
					continue
				}
				extra = append(extra, t)
			}
			c.check(len(extra) == 0, rule, fnName(fn)+":bind-tests-every-provided-type", L.pos(cs.instr.Pos()),
				"every provided type is tested against the bound interface (no provided type is skipped before types.Implements)", strings.Join(extra, " ; "))
		}
	}
	c.floor(rule, "types.Implements tests in parseProviderType", n, 1)
}

// ruleWireAliasThreaded (C13): the name under which a file imports google/wire is handed down to every nested parse: no
// call of the wire-call parser receives a constant alias.
func ruleWireAliasThreaded(c *Ctx, rule string) {
	L := c.L
	pce := resolveRole(c, migPkg, "(*Parser).parseCallExpr")
	if pce == nil {
		c.undecided(rule, "parseCallExpr", "function not found")
		return
	}
	// the alias parameter: the string parameter compared with the selector's qualifier; identified by position of the
	// string parameters (first string parameter after the *types.Info)
	aliasIdx := -1
	for i, p := range pce.Params {
		if p.Type().String() == "string" && comparedWithIdentName(p, 0) {
			aliasIdx = i
			break
		}
	}
	if aliasIdx < 0 {
		for i, p := range pce.Params {
			if p.Type().String() == "string" {
				aliasIdx = i
				break
			}
		}
	}
	if aliasIdx < 0 {
		c.undecided(rule, "parseCallExpr:alias", "no string parameter")
		return
	}
	n := 0
	for _, fn := range pkgFuncs(L, migPkg) {
		for _, cs := range callsIn(fn) {
			if cs.common.StaticCallee() != pce || aliasIdx >= len(cs.common.Args) {
				continue
			}
			n++
			a := resolve(cs.common.Args[aliasIdx])
			_, isConst := a.(*ssa.Const)
			c.check(!isConst, rule, fnName(fn)+":wire-alias-passed-on", L.pos(cs.instr.Pos()), "nested wire calls are recognised under the file's own import name for google/wire", "alias argument: "+describe(a))
		}
	}
	c.floor(rule, "calls of parseCallExpr", n, 2)
}

// ruleProviderFuncResolvedByUses (C13): the function object of a provider reference comes from the type checker's
// identifier tables (ObjectOf / Uses); qualified identifiers are not in Info.Selections.
func ruleProviderFuncResolvedByUses(c *Ctx, rule string) {
	L := c.L
	n := 0
	for _, st := range storesToField(pkgFuncs(L, migPkg), "internal/migrate.WireProviderFunc.Func") {
		n++
		s := newSym(L, map[string]bool{})
		s.maxD = 0
		t := strings.Join(s.eval(st.Val), "|")
		ok := (strings.Contains(t, "Info).ObjectOf(") || strings.Contains(t, "Info.Uses(")) && !strings.Contains(t, "Info.Selections(")
		c.check(ok, rule, fnName(st.Parent())+":provider-func-object", L.pos(st.Pos()), "a provider reference (NewFoo or pkg.NewFoo) is resolved through Info.ObjectOf/Uses", t)
	}
	c.floor(rule, "stores to WireProviderFunc.Func", n, 1)
}

// ruleSyncJoinsItsInputs: a provider that is not Async joins the first pool that provides all its inputs, unconditionally.
// Field reads of an expanded struct are such providers and never emit a wait of their own (ruleFieldAccessSync): they are
// ordered after the struct's producer only because they are queued behind it in its pool. Any further test on the sync
// edge (pool size, what the pool ends with, load balancing) can move a field read to another lane, where nothing orders it.
func ruleSyncJoinsItsInputs(c *Ctx, rule string) {
	L := c.L
	fn := genFn(c, rule, "(*Graph).findOptimalPool")
	if fn == nil {
		return
	}
	// the node being placed: the parameter of type *node (wherever it stands in the parameter list)
	nodeParam := ""
	for _, q := range fn.Params[1:] {
		if q.Type().String() == "*"+genPkg+".node" {
			nodeParam = q.Name()
		}
	}
	isOwnAsync := func(v ssa.Value) bool {
		s := newSym(L, map[string]bool{})
		s.maxD = 2
		for _, t := range s.eval(v) {
			if strings.Contains(t, "field:internal/kessoku.ProviderSpec.IsAsync(field:internal/kessoku.node.providerSpec(param:"+nodeParam+")") {
				return true
			}
		}
		return false
	}
	ok, nTests := false, 0
	detail := []string{}
	// a helper of the package that findOptimalPool hands the node being placed and whose first result it returns as it is,
	// under nothing but the helper's own "found" result: the candidate loop moved out
	helperNode := map[*ssa.Function]string{}
	fnNodeParam := nodeParam
	for _, cs := range callsIn(fn) {
		h := cs.common.StaticCallee()
		call := cs.value()
		if h == nil || call == nil || h.Pkg != fn.Pkg || len(h.Blocks) == 0 || h.Signature.Results().Len() != 2 || call.Referrers() == nil {
			continue
		}
		var ex0, ex1 *ssa.Extract
		for _, r := range *call.Referrers() {
			if ex, isEx := r.(*ssa.Extract); isEx {
				if ex.Index == 0 {
					ex0 = ex
				} else {
					ex1 = ex
				}
			}
		}
		if ex0 == nil || ex1 == nil {
			continue
		}
		handsOn := false
		for _, r := range returnsOf(fn) {
			if len(r.Results) != 1 || r.Results[0] != ssa.Value(ex0) {
				continue
			}
			for _, iff := range controllingIfs(r) {
				if iff.Cond == ssa.Value(ex1) && iff.Block() == call.Block() && (iff.Block().Succs[0] == r.Block()) {
					handsOn = true
				}
				break
			}
		}
		if !handsOn {
			continue
		}
		for i, a := range cs.common.Args {
			if p, isP := resolve(a).(*ssa.Parameter); isP && p.Parent() == fn && p.Name() == nodeParam && i < len(h.Params) {
				helperNode[h] = h.Params[i].Name()
			}
		}
	}
	for _, g := range family(L, fn) {
		if g.Parent() != nil {
			continue
		}
		if hn, isHelper := helperNode[g]; isHelper {
			nodeParam = hn
		} else if g == fn {
			nodeParam = fnNodeParam
		} else {
			continue
		}
		for _, b := range g.Blocks {
			if len(b.Instrs) == 0 {
				continue
			}
			iff, isIf := b.Instrs[len(b.Instrs)-1].(*ssa.If)
			if !isIf {
				continue
			}
			cond, neg := iff.Cond, false
			if u, isU := cond.(*ssa.UnOp); isU && u.Op == token.NOT {
				cond, neg = u.X, true
			}
			if !isOwnAsync(cond) {
				continue
			}
			if _, isLoad := cond.(*ssa.UnOp); !isLoad {
				continue // a compound condition: not the bare flag
			}
			nTests++
			syncEdge := b.Succs[1]
			if neg {
				syncEdge = b.Succs[0]
			}
			// the sync edge returns at once ... (straight-line code only: loads, stores of spilled variables, jumps)
			if len(syncEdge.Preds) != 1 {
				continue
			}
			var ret *ssa.Return
			bare := true
			path := []*ssa.BasicBlock{}
			stored := map[*ssa.Alloc]ssa.Value{}
			for cur, steps := syncEdge, 0; cur != nil && steps < 4 && ret == nil && bare; steps++ {
				path = append(path, cur)
				var next *ssa.BasicBlock
				for _, in := range cur.Instrs {
					switch x := in.(type) {
					case *ssa.Return:
						ret = x
					case *ssa.Jump:
						next = cur.Succs[0]
					case *ssa.Store:
						if al, isA := x.Addr.(*ssa.Alloc); isA {
							stored[al] = x.Val
						} else {
							bare = false
						}
					case *ssa.IndexAddr, *ssa.UnOp, *ssa.DebugRef, *ssa.Phi, *ssa.RunDefers:
					default:
						bare = false
					}
				}
				cur = next
			}
			if ret == nil || !bare || (len(ret.Results) != 1 && !(g != fn && len(ret.Results) == 2)) {
				continue
			}
			if len(ret.Results) == 2 {
				if k, isK := ret.Results[1].(*ssa.Const); !isK || k.Value == nil || k.Value.String() != "true" {
					continue
				}
			}
			// ... the candidate under examination: an element of a local []int list, loaded in the test's block or in the
			// returning block (nothing else was asked about this candidate before)
			rv := ret.Results[0]
			if ph, isPhi := rv.(*ssa.Phi); isPhi && len(path) >= 2 {
				for k, pred := range ph.Block().Preds {
					if pred == path[len(path)-2] {
						rv = ph.Edges[k]
					}
				}
			}
			if ld0, isLd := rv.(*ssa.UnOp); isLd && ld0.Op == token.MUL {
				if al, isA := ld0.X.(*ssa.Alloc); isA {
					if v, okS := stored[al]; okS {
						rv = v
					}
				}
			}
			// the loop variable itself may be spilled (a range-over-func body elsewhere in the function captures it)
			if ld0, isLd := rv.(*ssa.UnOp); isLd && ld0.Op == token.MUL {
				if al, isA := ld0.X.(*ssa.Alloc); isA {
					if sts := storesTo(al); len(sts) == 1 {
						rv = sts[0].Val
					}
				}
			}
			ld, isLd := rv.(*ssa.UnOp)
			if !isLd || ld.Op != token.MUL {
				detail = append(detail, fmt.Sprintf("block %d returns %s", syncEdge.Index, describe(rv)))
				continue
			}
			ia, isIA := ld.X.(*ssa.IndexAddr)
			if !isIA || !strings.HasSuffix(ia.X.Type().String(), "[]int") {
				continue
			}
			if _, isParam := resolve(ia.X).(*ssa.Parameter); isParam && g == fn {
				continue
			}
			inPath := ld.Block() == b
			for _, pb := range path {
				if ld.Block() == pb {
					inPath = true
				}
			}
			if !inPath {
				detail = append(detail, fmt.Sprintf("candidate loaded in block %d, tested in block %d", ld.Block().Index, b.Index))
				continue
			}
			ok = true
			detail = append(detail, fmt.Sprintf("IsAsync test in block %d, sync edge -> block %d returns the candidate %s", b.Index, syncEdge.Index, describe(ret.Results[0])))
		}
	}
	c.check(ok, rule, "findOptimalPool:sync-provider-joins-first-pool-with-all-inputs", L.pos(fn.Pos()),
		"a provider that is not Async joins the first candidate pool providing all its inputs without any further test (struct field reads never wait: they are ordered only by standing behind the struct's producer in its pool)",
		fmt.Sprintf("%d tests of the scheduled provider's IsAsync flag; %s", nTests, strings.Join(detail, "; ")))
}

// ruleUserSyntaxRequalified: every piece of user syntax that is carried into the output (the requested type's expression,
// a provider's expression) is handed to the qualifier rewriter - the one function that replaces the package identifiers the
// user wrote by the import names allocated for the output file (an alias, or a name that had to be suffixed because another
// file or declaration took it). Without the rewrite the emitted expression refers to a name the output does not import.
func ruleUserSyntaxRequalified(c *Ctx, rule string) {
	L := c.L
	// the rewriter(s): module functions that (themselves or in their closures) assign go/ast.Ident.Name
	rewriters := map[*ssa.Function]bool{}
	for _, st := range storesToField(pkgFuncs(L, genPkg), "go/ast.Ident.Name") {
		root := st.Parent()
		for root.Parent() != nil {
			root = root.Parent()
		}
		rewriters[root] = true
	}
	c.floor(rule, "functions that rewrite identifier names of user syntax", len(rewriters), 1)
	// a function that walks the expression it is given with a rewriter (calls it, or hands it to ast.Inspect as a callback or
	// method value) rewrites that expression
	carriers := map[*ssa.Function]bool{}
	for _, key := range []string{"internal/kessoku.Return.ASTTypeExpr", "internal/kessoku.ProviderSpec.ASTExpr"} {
		for _, st := range storesToField(pkgFuncs(L, genPkg), key) {
			carriers[st.Parent()] = true
		}
	}
	takesSyntax := func(f *ssa.Function) bool {
		for _, prm := range f.Params {
			if t := prm.Type().String(); t == "go/ast.Expr" || t == "go/ast.Node" || t == "*go/ast.Ident" {
				return true
			}
		}
		return false
	}
	for round := 0; round < 3; round++ {
		for _, g := range pkgFuncs(L, genPkg) {
			if g.Parent() != nil || rewriters[g] || carriers[g] || !takesSyntax(g) {
				continue
			}
			for _, cs := range callsIn(g) {
				if cal := cs.common.StaticCallee(); cal != nil && rewriters[originOf(cal)] {
					rewriters[g] = true
				}
				for _, a := range cs.common.Args {
					if mc, isMC := resolve(a).(*ssa.MakeClosure); isMC {
						f := mc.Fn.(*ssa.Function)
						if strings.HasPrefix(f.Synthetic, "bound method wrapper") {
							if m, isF := f.Object().(*types.Func); isF {
								if mf := f.Prog.FuncValue(m); mf != nil && rewriters[mf] {
									rewriters[g] = true
								}
							}
						}
					}
				}
			}
		}
	}
	n := 0
	for _, key := range []string{"internal/kessoku.Return.ASTTypeExpr", "internal/kessoku.ProviderSpec.ASTExpr"} {
		for _, st := range storesToField(pkgFuncs(L, genPkg), key) {
			fn := st.Parent()
			v := resolve(st.Val)
			// built by the generator itself (a fresh node, a rendered type): nothing the user wrote
			if _, isAlloc := v.(*ssa.Alloc); isAlloc {
				continue
			}
			if call, isCall := v.(*ssa.Call); isCall {
				if cal := call.Common().StaticCallee(); cal != nil && !rewriters[originOf(cal)] && fnPkgPath(cal) == genPkg {
					if t := cal.Signature.Params(); t.Len() > 0 {
						hasTypes := false
						for i := 0; i < t.Len(); i++ {
							if strings.Contains(t.At(i).Type().String(), "go/types.") {
								hasTypes = true
							}
						}
						if hasTypes {
							continue // rendered from a go/types value
						}
					}
				}
			}
			n++
			ok, why := false, "no call of the qualifier rewriter on this expression in "+fnName(fn)
			// (a) the stored value is what the rewriter returned
			if ex, isEx := v.(*ssa.Extract); isEx {
				if call, isCall := ex.Tuple.(*ssa.Call); isCall {
					if cal := call.Common().StaticCallee(); cal != nil && rewriters[originOf(cal)] {
						ok, why = true, "the stored expression is the rewriter's result"
					}
				}
			}
			if call, isCall := v.(*ssa.Call); isCall && !ok {
				if cal := call.Common().StaticCallee(); cal != nil && rewriters[originOf(cal)] {
					ok, why = true, "the stored expression is the rewriter's result"
				}
			}
			// (b) the rewriter is applied to the same expression (it rewrites in place) on every path that succeeds
			if !ok {
				for _, cs := range callsIn(fn) {
					cal := cs.common.StaticCallee()
					if cal == nil || !rewriters[originOf(cal)] || cs.value() == nil {
						continue
					}
					same := false
					for _, a := range cs.common.Args {
						if sameValueOrigin(a, st.Val) {
							same = true
						}
					}
					if !same {
						continue
					}
					// every path from the store to a successful return passes through the rewriter call (the rewrite is
					// in place, so before or after the store within one block is the same)
					all := true
					if cs.instr.Block() != st.Block() && !instrDominates(cs.instr, st) {
						seenB := map[*ssa.BasicBlock]bool{}
						var walk func(b *ssa.BasicBlock)
						walk = func(b *ssa.BasicBlock) {
							if seenB[b] || b == cs.instr.Block() {
								return
							}
							seenB[b] = true
							if len(b.Instrs) > 0 {
								if r, isR := b.Instrs[len(b.Instrs)-1].(*ssa.Return); isR && returnsNilError(r) {
									all = false
								}
							}
							for _, sc := range b.Succs {
								walk(sc)
							}
						}
						walk(st.Block())
					}
					if all {
						ok, why = true, "the rewriter is applied to the same expression before every successful return"
					}
				}
			}
			c.check(ok, rule, fnName(fn)+":"+key+":requalified", L.pos(st.Pos()),
				"user syntax carried into the output has its package qualifiers replaced by the import names allocated for the output file", why)
		}
	}
	c.floor(rule, "stores of user syntax into emitted fields", n, 2)
}

// ruleQueueIsFIFO: the ready list of the topological iteration is first-in-first-out. The scheduling premises (every
// input-free provider chooses its pool before any dependant does; fallible sources run in declaration order) rest on it.
// Decidable for the list-backed queue only: elements enter with PushBack and leave from Front; a re-implemented queue is
// reported as undecided, its order cannot be read off its shape.
func ruleQueueIsFIFO(c *Ctx, rule string) {
	L := c.L
	colPkg := modPath + "/internal/pkg/collection"
	fns := pkgFuncs(L, colPkg)
	if len(fns) == 0 {
		c.undecided(rule, "collection.Queue", "package "+colPkg+" not loaded")
		return
	}
	nIn, nOut := 0, 0
	for _, fn := range fns {
		if fn.Signature.Recv() == nil || !strings.Contains(fn.Signature.Recv().Type().String(), "collection.Queue") {
			continue
		}
		c.seen(fnName(fn))
		for _, cs := range callsIn(fn) {
			if !strings.HasPrefix(cs.callee, "(*container/list.List).") {
				continue
			}
			m := strings.TrimPrefix(cs.callee, "(*container/list.List).")
			switch m {
			case "PushBack":
				nIn++
			case "Front":
				nOut++
			case "Remove":
				// what is removed is the front element
				okFront := false
				if call, ok := resolve(cs.arg(1)).(*ssa.Call); ok && calleeOf(call.Common()) == "(*container/list.List).Front" {
					okFront = true
				}
				if ph, ok := resolve(cs.arg(1)).(*ssa.Phi); ok {
					okFront = true
					for _, e := range ph.Edges {
						if call, ok := resolve(e).(*ssa.Call); !ok || calleeOf(call.Common()) != "(*container/list.List).Front" {
							okFront = false
						}
					}
				}
				c.check(okFront, rule, fnName(fn)+":removes-the-front", L.pos(cs.instr.Pos()), "the queue hands out and removes the element at the front of its list", "removed element is "+describe(cs.arg(1)))
			case "Len", "Init":
			default:
				c.fail(rule, fnName(fn)+":list-"+m, L.pos(cs.instr.Pos()), "the queue's list is changed by "+m+": elements no longer leave in the order in which they entered")
			}
		}
	}
	if nIn == 0 || nOut == 0 {
		c.undecided(rule, "collection.Queue:list-backed", "the queue is not the container/list-backed one (PushBack in, Front out): the order in which a re-implemented queue hands out its elements cannot be decided from its shape")
		return
	}
	c.ok(rule, "collection.Queue enters elements with PushBack and hands out the Front element", fmt.Sprintf("%d PushBack, %d Front call sites", nIn, nOut))
}

// ruleParamNamesWriteOnce: the identifier of a parameter (and of its done-channel) is whatever the allocator returned when it
// was first asked; nothing renames a parameter afterwards. The context argument's name is the name `eg, ctx :=
// errgroup.WithContext(ctx)` shadows: providers, waits and select arms all say that one name and therefore all see the
// derived context. A rename after the fact splits them (providers keep the caller's context and outlive a failed sibling).
func ruleParamNamesWriteOnce(c *Ctx, rule string) {
	L := c.L
	n := 0
	for _, key := range []string{"internal/kessoku.InjectorParam.name", "internal/kessoku.InjectorParam.channelName"} {
		for _, st := range storesToField(pkgFuncs(L, genPkg), key) {
			n++
			ok, why := false, "stored value is "+describe(st.Val)
			if call, isCall := st.Val.(*ssa.Call); isCall {
				if cal := call.Common().StaticCallee(); cal != nil && cal.Signature.Recv() != nil && strings.HasSuffix(cal.Signature.Recv().Type().String(), genPkg+".VarPool") {
					ok, why = true, "result of VarPool."+cal.Name()
				}
			}
			// only while the field is still empty
			guarded := false
			for _, iff := range controllingIfs(st) {
				s := newSym(L, map[string]bool{})
				s.maxD = 0
				if t := strings.Join(s.eval(iff.Cond), "|"); strings.Contains(t, "field:"+key+"(") {
					guarded = true
				}
			}
			c.check(ok && guarded, rule, fnName(st.Parent())+":"+key+":write-once", L.pos(st.Pos()),
				"a parameter's identifier is set once, from the allocator, while it is still empty (never renamed afterwards)", fmt.Sprintf("%s; under a test of the field itself: %v", why, guarded))
		}
	}
	// the field's address handed to a helper that fills it (*slot = allocate(t)): what the helper stores is decided by the
	// allocator discipline (C12.4); here it only counts as a place where the name is set
	for _, fn := range pkgFuncs(L, genPkg) {
		for _, cs := range callsIn(fn) {
			for _, a := range cs.common.Args {
				if fa, ok := a.(*ssa.FieldAddr); ok {
					if k := fieldKey(fa); k == "internal/kessoku.InjectorParam.name" || k == "internal/kessoku.InjectorParam.channelName" {
						n++
					}
				}
			}
		}
	}
	c.floor(rule, "stores to InjectorParam.name/channelName", n, 2)
}

// rulePoolCountIsAntichain: Build creates exactly as many pools as the maximum antichain computed from the graph - the value
// itself, not a figure derived from it (discounted, capped, rounded). One pool fewer and two providers that could run
// side by side are queued behind each other.
func rulePoolCountIsAntichain(c *Ctx, rule string) {
	L := c.L
	build := genFn(c, rule, "(*Graph).Build")
	anti := resolveRole(c, genPkg, "(*Graph).findMaximumAntichainSize")
	if build == nil {
		return
	}
	if anti == nil {
		c.undecided(rule, "findMaximumAntichainSize", "function not found")
		return
	}
	n := 0
	for _, f := range family(L, build) {
		for _, b := range f.Blocks {
			for _, in := range b.Instrs {
				ms, ok := in.(*ssa.MakeSlice)
				if !ok || ms.Type().String() != "[][]*"+genPkg+".node" {
					continue
				}
				n++
				v := ms.Len
				for {
					if cv, isC := v.(*ssa.Convert); isC {
						v = cv.X
						continue
					}
					if ct, isC := v.(*ssa.ChangeType); isC {
						v = ct.X
						continue
					}
					break
				}
				call, isCall := v.(*ssa.Call)
				okV := isCall && call.Common().StaticCallee() != nil && originOf(call.Common().StaticCallee()) == anti
				c.check(okV, rule, fnName(f)+":pool-count", L.pos(ms.Pos()), "the number of pools is the maximum antichain size itself", "length is "+describe(ms.Len))
			}
		}
	}
	c.floor(rule, "pool list allocations in Build", n, 1)
}

// rulePackageLoadedPerFile: whoever hands the parser a loaded package has just loaded it: every success return of a function
// that returns a *packages.Package is dominated by a packages.Load call in that function. A package kept from an earlier
// file of the same run does not contain the outputs written since; the result would depend on what the run did before.
func rulePackageLoadedPerFile(c *Ctx, rule string) {
	L := c.L
	n := 0
	for _, fn := range pkgFuncs(L, genPkg) {
		if fn.Parent() != nil || fn.Signature.Results().Len() == 0 || fn.Signature.Results().At(0).Type().String() != "*golang.org/x/tools/go/packages.Package" {
			continue
		}
		loads := findCalls(fn, "golang.org/x/tools/go/packages.Load")
		for _, r := range returnsOf(fn) {
			if isNilConst(r.Results[0]) {
				continue
			}
			n++
			dom := false
			for _, ld := range loads {
				if instrDominates(ld.instr, r) {
					dom = true
				}
			}
			// the returned package is one of those just loaded
			s := newSym(L, map[string]bool{})
			s.maxD = 0
			t := strings.Join(s.eval(r.Results[0]), "|")
			fresh := strings.Contains(t, "packages.Load#0(") && !strings.Contains(t, "field:internal/kessoku.")
			c.check(dom && fresh, rule, fnName(fn)+":package-freshly-loaded", L.pos(r.Pos()), "the package a file is analysed in is loaded for that file (not kept from an earlier file of the run)", t)
		}
	}
	c.floor(rule, "returns of a loaded package", n, 1)
}

// ruleOutputOpenedLast: the output file is created (and thereby truncated) only after everything that can refuse the
// declaration has run: after the creating call the only fallible module calls are the ones that write into that file. A
// refused run must leave the previous output - and thus what the next run reads - untouched.
func ruleOutputOpenedLast(c *Ctx, rule string) {
	L := c.L
	proc := resolveRole(c, genPkg, "(*Processor).processFile")
	if proc == nil {
		c.undecided(rule, "processFile", "function not found")
		return
	}
	n := 0
	for _, f := range family(L, proc) {
		if f.Parent() != nil {
			continue
		}
		for _, cs := range callsIn(f) {
			if cs.callee != "os.Create" && cs.callee != "os.OpenFile" && cs.callee != "os.WriteFile" {
				continue
			}
			n++
			// where the file comes into being, seen from processFile: the creating call itself, or the call of the helper
			// that contains it
			site := cs
			if f != proc {
				found := false
				for _, s2 := range callsIn(proc) {
					if sc := s2.common.StaticCallee(); sc != nil && originOf(sc) == originOf(f) {
						site, found = s2, true
					}
				}
				if !found {
					c.undecided(rule, fnName(f)+":output-created", "the function that creates the output file is not called from processFile directly")
					continue
				}
			}
			file := site.value()
			for _, cs2 := range callsIn(proc) {
				cal := cs2.common.StaticCallee()
				if cal == nil || fnPkgPath(cal) != genPkg || errorResultIndex(cal) < 0 || cs2.value() == nil || cs2.instr == site.instr {
					continue
				}
				if !reachableAfter(site.instr, cs2.instr) {
					continue
				}
				writes := false
				for _, a := range cs2.common.Args {
					av := resolve(a)
					if mi, isMI := av.(*ssa.MakeInterface); isMI {
						av = resolve(mi.X)
					}
					if file != nil {
						if ex, isEx := av.(*ssa.Extract); isEx && ex.Tuple == ssa.Value(file) {
							writes = true
						}
						if av == ssa.Value(file) {
							writes = true
						}
					}
				}
				c.check(writes, rule, fnName(proc)+":call("+cal.Name()+")-after-output-opened", L.pos(cs2.instr.Pos()),
					"once the output file is created only the calls that write into it can still fail (a refused declaration leaves the previous output in place)", cal.Name()+" runs after "+cs.callee)
			}
		}
	}
	c.floor(rule, "creations of the output file", n, 1)
}

// ruleExprCopiesKeepOperands: where the migration rebuilds an expression node of the same kind as the one it is looking at
// (to give it a position), every operand goes where it came from: field F of the new node is computed from field F of the
// old one. A copy that fills Y from X still type-checks and formats.
func ruleExprCopiesKeepOperands(c *Ctx, rule string) {
	L := c.L
	n := 0
	for _, fn := range migFuncs(L) {
		// the case variables: checked type assertions of an expression to *ast.T
		type caseVar struct {
			typ string
			in  *ssa.BasicBlock // the block entered when the assertion holds
		}
		var cases []caseVar
		for _, b := range fn.Blocks {
			for _, in := range b.Instrs {
				ta, ok := in.(*ssa.TypeAssert)
				if !ok || !ta.CommaOk {
					continue
				}
				nm, isNode := isAstNodeType(ta.AssertedType)
				if !isNode || ta.Referrers() == nil {
					continue
				}
				for _, r := range *ta.Referrers() {
					ex, ok := r.(*ssa.Extract)
					if !ok || ex.Index != 1 || ex.Referrers() == nil {
						continue
					}
					for _, rr := range *ex.Referrers() {
						if iff, ok := rr.(*ssa.If); ok {
							cases = append(cases, caseVar{nm, iff.Block().Succs[0]})
						}
					}
				}
			}
		}
		if len(cases) == 0 {
			continue
		}
		for _, b := range fn.Blocks {
			for _, in := range b.Instrs {
				al, ok := in.(*ssa.Alloc)
				if !ok {
					continue
				}
				nm, isNode := isAstNodeType(al.Type())
				if !isNode {
					continue
				}
				inCase := false
				for _, cv := range cases {
					if cv.typ == nm && (cv.in == al.Block() || cv.in.Dominates(al.Block())) {
						inCase = true
					}
				}
				if !inCase {
					continue
				}
				for _, st := range storesInto(al) {
					fa, ok := st.Addr.(*ssa.FieldAddr)
					if !ok {
						continue
					}
					key := fieldKey(fa)
					if strings.HasSuffix(st.Val.Type().String(), "go/token.Pos") {
						continue // positions are what the copy is for
					}
					if _, isConst := st.Val.(*ssa.Const); isConst {
						continue
					}
					n++
					s := newSym(L, map[string]bool{})
					s.maxD = 0
					var ts []string
					var gather func(v ssa.Value, d int)
					gather = func(v ssa.Value, d int) {
						switch x := resolve(v).(type) {
						case *ssa.Alloc:
							// a nested node built in place: what its (non-position) fields are filled with
							if _, isN := isAstNodeType(x.Type()); isN && d < 3 {
								for _, st2 := range storesInto(x) {
									if strings.HasSuffix(st2.Val.Type().String(), "go/token.Pos") {
										continue
									}
									gather(st2.Val, d+1)
								}
								return
							}
						case *ssa.MakeSlice:
							// a list filled element by element
							if x.Referrers() != nil && d < 3 {
								found := false
								for _, r := range *x.Referrers() {
									if ia, ok := r.(*ssa.IndexAddr); ok && ia.Referrers() != nil {
										for _, rr := range *ia.Referrers() {
											if st3, ok := rr.(*ssa.Store); ok && st3.Addr == ssa.Value(ia) {
												gather(st3.Val, d+1)
												found = true
											}
										}
									}
								}
								if found {
									return
								}
							}
						}
						ts = append(ts, s.eval(v)...)
					}
					gather(st.Val, 0)
					okF := len(ts) > 0
					for _, t := range ts {
						if !strings.Contains(t, "field:"+key+"(") {
							okF = false
						}
					}
					c.check(okF, rule, fnName(fn)+":"+key+":copied-from-the-same-field", L.pos(st.Pos()),
						"a rebuilt "+nm+" gets each operand from the same operand of the node it replaces", strings.Join(ts, " | "))
				}
			}
		}
	}
	c.floor(rule, "operands of rebuilt expression nodes", n, 5)
}

// ruleAliasOmission: the import list of the migrated file writes an import without its name only when the allocated name is
// literally the last element of the path - the one case in which leaving the name out cannot change what the name means
// for directory-named packages. Any cleverer guess of "the name the path suggests" (skipping version elements, trimming
// prefixes) drops aliases of packages whose declared name is something else, and the qualifiers in the file stop resolving.
func ruleAliasOmission(c *Ctx, rule string) {
	L := c.L
	n := 0
	for _, st := range storesToField(migFuncs(L), "internal/migrate.ImportSpec.Name") {
		fn := st.Parent()
		for _, iff := range controllingIfs(st) {
			bo, ok := iff.Cond.(*ssa.BinOp)
			if !ok || (bo.Op != token.NEQ && bo.Op != token.EQL) || bo.X.Type().String() != "string" {
				continue
			}
			n++
			okCmp := false
			what := ""
			for _, side := range []ssa.Value{bo.X, bo.Y} {
				if call, isCall := resolve(side).(*ssa.Call); isCall {
					if cal := call.Common().StaticCallee(); cal != nil {
						what = cal.Name()
						if lp := resolveRole(c, migPkg, "lastPathElement"); lp != nil && originOf(cal) == lp {
							okCmp = true
						}
					}
				}
			}
			c.check(okCmp, rule, fnName(fn)+":alias-omitted-only-for-the-last-path-element", L.pos(iff.Cond.Pos()),
				"an import is written without its name only when that name is the last element of its path", "the name is compared with the result of "+what)
		}
	}
	c.floor(rule, "tests guarding the alias of an emitted import", n, 1)
}

// ruleSourceImportKeys: the table that resolves the qualifiers of the wire file (local name -> import path) is keyed by the
// name the file uses: the alias when there is one. The declared name of the imported package is a different thing whenever
// an alias is present.
func ruleSourceImportKeys(c *Ctx, rule string) {
	L := c.L
	n := 0
	for _, fn := range migFuncs(L) {
		for _, b := range fn.Blocks {
			for _, in := range b.Instrs {
				mu, ok := in.(*ssa.MapUpdate)
				if !ok || mu.Map.Type().String() != "map[string]string" {
					continue
				}
				s := newSym(L, map[string]bool{})
				s.maxD = 0
				val := strings.Join(s.eval(mu.Value), "|")
				if !strings.Contains(val, "go/ast.ImportSpec.Path(") {
					continue
				}
				n++
				key := strings.Join(s.eval(mu.Key), "|")
				bad := strings.Contains(key, "go/types.Package).Name(")
				c.check(!bad, rule, fnName(fn)+":source-import-key", L.pos(mu.Pos()),
					"the qualifier table of the source file is keyed by the local name of the import (alias or path element), not by the declared name of the imported package", key)
			}
		}
	}
	c.floor(rule, "inserts into the source import table", n, 1)
}

// loopDepthOf: how many loops enclose an instruction (range-over-func bodies count as the loop they are the body of).
func loopDepthOf(in ssa.Instruction) int {
	b := in.Block()
	fn := b.Parent()
	d := 0
	for h := b; h != nil; h = h.Idom() {
		isHdr := strings.HasPrefix(h.Comment, "rangeindex.loop") || strings.HasPrefix(h.Comment, "rangeiter.loop") || strings.HasPrefix(h.Comment, "for.loop") || strings.HasPrefix(h.Comment, "for.body")
		if isHdr && strings.HasPrefix(h.Comment, "for.body") {
			isHdr = false
		}
		if isHdr && (h == b || reachable(b, h)) {
			d++
		}
	}
	if strings.Contains(fn.Synthetic, "range-over-func") && fn.Parent() != nil {
		// the body of a `for x := range seq` loop of the parent: one loop, plus whatever encloses that loop there
		d++
		for _, pb := range fn.Parent().Blocks {
			for _, pin := range pb.Instrs {
				if mc, ok := pin.(*ssa.MakeClosure); ok && mc.Fn == ssa.Value(fn) {
					d += loopDepthOf(mc)
					return d
				}
			}
		}
	}
	return d
}

// ruleCandidatePoolScannedWhole: before an Async provider joins a candidate pool, findOptimalPool looks at the pool's nodes
// one after the other (from the end, until it meets one of the provider's own inputs) and rejects the pool as soon as one of
// them is Async: the test of a pool member's IsAsync flag sits in a loop over the pool inside the loop over the candidates.
// Looking at the last node only lets an input-free Async provider queue behind another one that a synchronous node hides.
func ruleCandidatePoolScannedWhole(c *Ctx, rule string) {
	L := c.L
	fn := genFn(c, rule, "(*Graph).findOptimalPool")
	if fn == nil {
		return
	}
	n, deep := 0, 0
	for _, g := range family(L, fn) {
		for _, b := range g.Blocks {
			if len(b.Instrs) == 0 {
				continue
			}
			iff, ok := b.Instrs[len(b.Instrs)-1].(*ssa.If)
			if !ok {
				continue
			}
			s := newSym(L, map[string]bool{})
			s.maxD = 0
			t := strings.Join(s.eval(iff.Cond), "|")
			// the flag of a member of a pool (an element of an element of the pool table), not of the scheduled node
			if !strings.Contains(t, "ProviderSpec.IsAsync(field:internal/kessoku.node.providerSpec(") {
				continue
			}
			member := strings.Contains(t, "index(index(")
			if !member && strings.Contains(g.Synthetic, "range-over-func") && g.Parent() != nil {
				// `for _, nd := range slices.Backward(pools[i])`: the element is the yield function's parameter; the sequence
				// was made from a pool
				for _, prm := range g.Params {
					if !strings.Contains(t, "providerSpec(param:"+prm.Name()+")") {
						continue
					}
					for _, pb := range g.Parent().Blocks {
						for _, pin := range pb.Instrs {
							call, isCall := pin.(*ssa.Call)
							if !isCall {
								continue
							}
							for _, a := range call.Common().Args {
								if mc, isMC := a.(*ssa.MakeClosure); isMC && mc.Fn == ssa.Value(g) {
									// call.Common().Value is the sequence: built by a call that was given a pool
									if seq, isSeq := call.Common().Value.(*ssa.Call); isSeq {
										for _, sa := range seq.Common().Args {
											if ld, isLd := sa.(*ssa.UnOp); isLd && ld.Op == token.MUL {
												if ia, isIA := ld.X.(*ssa.IndexAddr); isIA && strings.HasSuffix(ia.X.Type().String(), "[][]*"+genPkg+".node") {
													member = true
												}
											}
										}
									}
								}
							}
						}
					}
				}
			}
			if !member {
				continue
			}
			n++
			if loopDepthOf(iff) >= 2 {
				deep++
			}
		}
	}
	c.check(n > 0 && deep == n, rule, "findOptimalPool:candidate-pool-scanned-member-by-member", L.pos(fn.Pos()),
		"a candidate pool is examined member by member (a loop over the pool inside the loop over the candidates) before an Async provider joins it", fmt.Sprintf("%d tests of a pool member's IsAsync flag, %d of them inside a nested loop", n, deep))
}

// ruleHandlerPassedUnchanged: below generateStmts the early-return builder is only handed on: a function that received one
// passes that very value to whatever it calls - never nil in its place on some path. The builder being nil is what turns a
// cancellable wait into a plain receive, and whether it is nil is decided once, from the injector's error result.
func ruleHandlerPassedUnchanged(c *Ctx, rule string) {
	L := c.L
	n := 0
	for _, fn := range pkgFuncs(L, genPkg) {
		var own []*ssa.Parameter
		for _, prm := range fn.Params {
			if isHandlerSig(prm.Type()) {
				own = append(own, prm)
			}
		}
		if len(own) == 0 {
			continue
		}
		for _, cs := range callsIn(fn) {
			for _, a := range cs.common.Args {
				if !isHandlerSig(a.Type()) {
					continue
				}
				n++
				okV, why := true, describe(a)
				var visit func(v ssa.Value, d int)
				visit = func(v ssa.Value, d int) {
					if d > 4 {
						return
					}
					switch x := v.(type) {
					case *ssa.Phi:
						for _, e := range x.Edges {
							visit(e, d+1)
						}
					case *ssa.Const:
						if x.Value == nil {
							okV, why = false, "nil is passed instead of the builder this function was given, on some path"
						}
					case *ssa.UnOp:
						if al, isAl := x.X.(*ssa.Alloc); isAl && x.Op == token.MUL {
							for _, st := range storesTo(al) {
								visit(st.Val, d+1)
							}
						}
					}
				}
				visit(a, 0)
				c.check(okV, rule, fnName(fn)+":handler-passed-on-unchanged", L.pos(cs.instr.Pos()),
					"a function that was given an early-return builder passes it on as it is (never nil in its place)", why)
			}
		}
	}
	c.floor(rule, "early-return builders handed on below generateStmts", n, 3)
}

// condRootedAtModuleCall: the condition is (the negation of / a comparison with) the result of a call to a function of this
// module - a predicate of the code base's own, as opposed to a library scan or an arithmetic test.
func condRootedAtModuleCall(v ssa.Value) bool {
	for i := 0; i < 6; i++ {
		switch x := v.(type) {
		case *ssa.Call:
			cal := x.Common().StaticCallee()
			if cal == nil {
				_, isB := x.Common().Value.(*ssa.Builtin)
				return !isB // a dynamic call: a predicate value
			}
			return strings.HasPrefix(fnPkgPath(cal), modPath)
		case *ssa.UnOp:
			if x.Op == token.NOT {
				v = x.X
				continue
			}
			return false
		case *ssa.BinOp:
			if _, ok := x.X.(*ssa.Call); ok {
				v = x.X
				continue
			}
			if _, ok := x.Y.(*ssa.Call); ok {
				v = x.Y
				continue
			}
			return false
		case *ssa.Phi:
			for _, e := range x.Edges {
				if condRootedAtModuleCall(e) {
					return true
				}
			}
			return false
		default:
			return false
		}
	}
	return false
}

// ruleTypeExprsNotShared: the type renderer hands out expressions it has just built. An expression taken from a table was
// rendered for another call - possibly for another output file, whose import names it carries - and sharing one node between
// two places of the output makes a later rewrite of one show up in the other.
func ruleTypeExprsNotShared(c *Ctx, rule string) {
	L := c.L
	n := 0
	for _, fn := range pkgFuncs(L, genPkg) {
		if fn.Parent() != nil {
			continue
		}
		sg := fn.Signature.String()
		if !strings.HasSuffix(sg, "(go/ast.Expr, error)") || !strings.Contains(sg, "go/types.") {
			continue
		}
		for _, r := range returnsOf(fn) {
			if len(r.Results) != 2 || isNilConst(r.Results[0]) {
				continue
			}
			n++
			bad := ""
			var visit func(v ssa.Value, d int)
			visit = func(v ssa.Value, d int) {
				if d > 5 {
					return
				}
				switch x := resolve(v).(type) {
				case *ssa.Lookup:
					bad = "looked up in " + x.X.Type().String()
				case *ssa.Extract:
					if lk, ok := x.Tuple.(*ssa.Lookup); ok {
						bad = "looked up in " + lk.X.Type().String()
					}
				case *ssa.Phi:
					for _, e := range x.Edges {
						visit(e, d+1)
					}
				case *ssa.MakeInterface:
					visit(x.X, d+1)
				}
			}
			visit(r.Results[0], 0)
			c.check(bad == "", rule, fnName(fn)+":type-expression-fresh", L.pos(r.Pos()), "the type renderer returns an expression built in this call (never one remembered from an earlier call)", bad)
		}
	}
	c.floor(rule, "returns of the type renderer", n, 5)
}

// chainBuilders: buildStmts and the private helpers it alone calls (family) that create goroutine statements - a phase of
// buildStmts lifted into a function of its own.
func chainBuilders(L *Loaded, bs *ssa.Function) []*ssa.Function {
	out := []*ssa.Function{bs}
	for _, f := range family(L, bs) {
		if f == bs || f.Parent() != nil {
			continue
		}
		makes := false
		for _, b := range f.Blocks {
			for _, in := range b.Instrs {
				if al, ok := in.(*ssa.Alloc); ok {
					if n, _ := isAstNodeType(al.Type()); n == "InjectorChainStmt" {
						makes = true
					}
				}
			}
		}
		if makes {
			out = append(out, f)
		}
	}
	return out
}

// comparedWithIdentName: the string parameter is compared with the Name of an *ast.Ident - in the function itself or in a
// helper of the same package it is handed to.
func comparedWithIdentName(p *ssa.Parameter, depth int) bool {
	if p.Referrers() == nil || depth > 2 {
		return false
	}
	isIdentName := func(v ssa.Value) bool {
		u, ok := resolve(v).(*ssa.UnOp)
		if !ok || u.Op != token.MUL {
			return false
		}
		fa, ok := u.X.(*ssa.FieldAddr)
		return ok && fieldKey(fa) == "go/ast.Ident.Name"
	}
	for _, r := range *p.Referrers() {
		switch x := r.(type) {
		case *ssa.BinOp:
			if (x.Op == token.EQL || x.Op == token.NEQ) && (isIdentName(x.X) || isIdentName(x.Y)) {
				return true
			}
		case ssa.CallInstruction:
			g := x.Common().StaticCallee()
			if g == nil || g.Pkg != p.Parent().Pkg || len(g.Blocks) == 0 {
				continue
			}
			for i, a := range x.Common().Args {
				if a == ssa.Value(p) && i < len(g.Params) && comparedWithIdentName(g.Params[i], depth+1) {
					return true
				}
			}
		}
	}
	return false
}

// ruleAliasSpelledAsDeclared: a type the user wrote as an alias is printed as that alias. What the alias stands for may be a
// type the output cannot name (unexported, or in another module's internal package), so no function that prints types or
// collects their imports is handed the result of resolving an alias (types.Unalias, Alias.Rhs, Alias.Underlying).
func ruleAliasSpelledAsDeclared(c *Ctx, rule string) {
	L := c.L
	isSink := func(f *ssa.Function) bool {
		if f == nil || f.Pkg == nil || f.Pkg.Pkg.Path() != genPkg || !L.NonTest[originOf(f)] {
			return false
		}
		sg := f.Signature
		takes := false
		for i := 0; i < sg.Params().Len(); i++ {
			if sg.Params().At(i).Type().String() == "go/types.Type" {
				takes = true
			}
		}
		if !takes {
			return false
		}
		for i := 0; i < sg.Results().Len(); i++ {
			if sg.Results().At(i).Type().String() == "go/ast.Expr" {
				return true
			}
		}
		// the import collector: takes the import table
		for i := 0; i < sg.Params().Len(); i++ {
			if strings.Contains(sg.Params().At(i).Type().String(), genPkg+".Import") {
				return true
			}
		}
		return false
	}
	nSinks, nSrc := 0, 0
	for _, fn := range pkgFuncs(L, genPkg) {
		if isSink(fn) {
			nSinks++
			c.seen(fnName(fn))
		}
		for _, cs := range callsIn(fn) {
			switch cs.callee {
			case "go/types.Unalias", "(*go/types.Alias).Rhs", "(*go/types.Alias).Underlying":
			default:
				continue
			}
			if cs.value() == nil {
				continue
			}
			nSrc++
			seen := map[ssa.Value]bool{}
			var flow func(v ssa.Value, d int)
			flow = func(v ssa.Value, d int) {
				if seen[v] || d > 8 || v.Referrers() == nil {
					return
				}
				seen[v] = true
				for _, r := range *v.Referrers() {
					switch x := r.(type) {
					case *ssa.TypeAssert:
						flow(x, d+1)
					case *ssa.Extract:
						flow(x, d+1)
					case *ssa.Phi:
						flow(x, d+1)
					case *ssa.MakeInterface:
						flow(x, d+1)
					case *ssa.ChangeInterface:
						flow(x, d+1)
					case *ssa.ChangeType:
						flow(x, d+1)
					case ssa.CallInstruction:
						if g := x.Common().StaticCallee(); isSink(g) {
							for _, a := range x.Common().Args {
								if a == v {
									c.fail(rule, fnName(fn)+":alias-resolved-before-"+g.Name(), L.pos(x.Pos()),
										"an alias is printed (and its import collected) under the name the user wrote; here what it stands for is handed to "+g.Name()+", which may be a type the generated file cannot name", cs.callee)
								}
							}
						}
					}
				}
			}
			flow(cs.value(), 0)
		}
	}
	c.floor(rule, "functions that print types or collect their imports", nSinks, 1)
	c.ok(rule, "no resolved alias reaches a type printer", fmt.Sprintf("%d alias resolutions inspected, %d printers", nSrc, nSinks))
}

// ruleReadinessByFirstNode: a dependent pool is emitted as soon as everything its FIRST node takes is scheduled. The later
// nodes of a pool may take values of pools that in turn take values of this pool's earlier nodes (the done-channels
// resolve that at run time), so a readiness test that looks at the other nodes as well can leave two pools waiting for
// each other at generation time - and the loop then ends without emitting them, silently: their closes are never
// generated while the surviving statements still wait for them. Every membership test on the scheduled-set in buildStmts
// asks for a dependency (reverseEdges) of element 0 of the pool.
func ruleReadinessByFirstNode(c *Ctx, rule string) {
	L := c.L
	bs := genFn(c, rule, "(*Graph).buildStmts")
	if bs == nil {
		return
	}
	n := 0
	for _, fn := range family(L, bs) {
		if fn == resolveRole(c, genPkg, "(*Graph).buildPoolStmtsSimple") {
			continue
		}
		for _, b := range fn.Blocks {
			for _, in := range b.Instrs {
				lk, ok := in.(*ssa.Lookup)
				if !ok || !strings.Contains(lk.X.Type().String(), "map[*"+genPkg+".node]struct{}") {
					continue
				}
				n++
				s := newSym(L, map[string]bool{})
				s.maxD = 0
				term := strings.Join(s.eval(lk.Index), "|")
				if os.Getenv("KVERIF_DEBUG") != "" {
					fmt.Fprintf(os.Stderr, "readiness key: %s\n", term)
				}
				okShape := readinessKeyOfFirstNode(L, lk.Index)
				c.check(okShape, rule, fnName(bs)+":pool-ready-when-first-node-is", L.pos(lk.Pos()),
					"a pool is ready when the dependencies of its first node are scheduled (a stricter test can starve mutually dependent pools, which are then dropped without an error)", term)
			}
		}
	}
	c.floor(rule, "membership tests on the scheduled set in buildStmts", n, 1)
	// the scheduled set starts as the initially provided nodes (the injector's arguments): a pool whose first provider
	// takes an argument would otherwise never become ready
	for _, fn := range chainBuilders(L, bs) {
		for _, b := range fn.Blocks {
			for _, in := range b.Instrs {
				lk, ok := in.(*ssa.Lookup)
				if !ok || !strings.Contains(lk.X.Type().String(), "map[*"+genPkg+".node]struct{}") || fn != bs {
					continue
				}
				okInit, why := false, "the scheduled set is "+describe(resolve(lk.X))
				subject := resolve(lk.X)
				// kept in a field of a small progress record: what its (only) writer stores there
				if u, isU := subject.(*ssa.UnOp); isU && u.Op == token.MUL {
					if fa, isF := u.X.(*ssa.FieldAddr); isF {
						if sts := storesToField(pkgFuncs(L, genPkg), fieldKey(fa)); len(sts) == 1 {
							subject = resolve(sts[0].Val)
						}
					}
				}
				switch x := subject.(type) {
				case *ssa.Parameter:
					okInit, why = true, "the provided-nodes parameter itself"
				case *ssa.Call:
					if calleeOf(x.Common()) == "maps.Clone" && len(x.Common().Args) == 1 {
						if _, isP := resolve(x.Common().Args[0]).(*ssa.Parameter); isP {
							okInit, why = true, "maps.Clone of the provided-nodes parameter"
						}
					}
				case *ssa.MakeMap:
					// filled from the parameter in a loop: an update keyed by a key of a range over a map parameter
					if x.Referrers() != nil {
						for _, r := range *x.Referrers() {
							if mu, isMU := r.(*ssa.MapUpdate); isMU && mu.Map == ssa.Value(x) {
								if ex, isEx := mu.Key.(*ssa.Extract); isEx {
									if nx, isN := ex.Tuple.(*ssa.Next); isN {
										if rg, isR := nx.Iter.(*ssa.Range); isR {
											if _, isP := resolve(rg.X).(*ssa.Parameter); isP {
												okInit, why = true, "copied from the provided-nodes parameter"
											}
										}
									}
								}
							}
						}
					}
				}
				c.check(okInit, rule, fnName(bs)+":scheduled-set-starts-with-provided-nodes", L.pos(lk.Pos()),
					"the set of scheduled nodes starts as the initially provided nodes (injector arguments count as available)", why)
			}
		}
	}
}

// ruleEmittedPoolIsMarkedScheduled: when buildStmts emits the statements of a pool (a call of buildPoolStmtsSimple with that
// pool), the nodes it then records in the scheduled set are the nodes of THAT pool. Recording another pool's nodes (a helper
// called with the wrong pool) leaves the dependants of the emitted pool unready for ever: their statements are dropped
// without an error while their channels are still declared and waited on, so the injector blocks. Decided by identity of
// the pool value at the emission and at a recording that can follow it (same SSA value, or the same element of the same
// slice); a recording through a helper or closure counts at the helper's call sites with the pool handed in.
func ruleEmittedPoolIsMarkedScheduled(c *Ctx, rule string) {
	L := c.L
	bs := genFn(c, rule, "(*Graph).buildStmts")
	emit := resolveRole(c, genPkg, "(*Graph).buildPoolStmtsSimple")
	if bs == nil || emit == nil {
		return
	}
	fam := family(L, bs)
	isNodeSlice := func(t types.Type) bool { return strings.HasSuffix(t.String(), "[]*"+genPkg+".node") }
	calleeFn := func(cs callSite) *ssa.Function {
		if f := cs.common.StaticCallee(); f != nil {
			return f
		}
		if mc, ok := resolve(cs.common.Value).(*ssa.MakeClosure); ok {
			return mc.Fn.(*ssa.Function)
		}
		return nil
	}
	type site struct {
		at   ssa.Instruction
		pool ssa.Value
	}
	var marks []site
	var addMark func(at ssa.Instruction, pool ssa.Value, d int)
	addMark = func(at ssa.Instruction, pool ssa.Value, d int) {
		pool = resolve(pool)
		if p, ok := pool.(*ssa.Parameter); ok && d < 3 && p.Parent() != bs {
			h := p.Parent()
			idx := -1
			for i, q := range h.Params {
				if q == p {
					idx = i
				}
			}
			for _, f := range fam {
				for _, cs := range callsIn(f) {
					if calleeFn(cs) == h && idx >= 0 && idx < len(cs.common.Args) {
						addMark(cs.instr, cs.common.Args[idx], d+1)
					}
				}
			}
			return
		}
		marks = append(marks, site{at, pool})
	}
	for _, f := range fam {
		if f == emit {
			continue
		}
		for _, b := range f.Blocks {
			for _, in := range b.Instrs {
				mu, ok := in.(*ssa.MapUpdate)
				if !ok || !strings.Contains(mu.Map.Type().String(), "map[*"+genPkg+".node]struct{}") {
					continue
				}
				ld, ok := resolve(mu.Key).(*ssa.UnOp)
				if !ok || ld.Op != token.MUL {
					continue
				}
				ia, ok := ld.X.(*ssa.IndexAddr)
				if !ok || !isNodeSlice(ia.X.Type()) {
					continue
				}
				addMark(mu, ia.X, 0)
			}
		}
	}
	samePool := func(a, b ssa.Value) bool {
		a, b = resolve(a), resolve(b)
		if a == b {
			return true
		}
		la, okA := a.(*ssa.UnOp)
		lb, okB := b.(*ssa.UnOp)
		if !okA || !okB || la.Op != token.MUL || lb.Op != token.MUL {
			return false
		}
		ia, okA := la.X.(*ssa.IndexAddr)
		ib, okB := lb.X.(*ssa.IndexAddr)
		return okA && okB && resolve(ia.X) == resolve(ib.X) && resolve(ia.Index) == resolve(ib.Index)
	}
	if len(marks) == 0 {
		c.ok(rule, "buildStmts: no recording of a pool's nodes in the scheduled set recognised; rule not applied", "shape not recognised")
		return
	}
	n := 0
	for _, f := range fam {
		if f == emit {
			continue
		}
		for _, cs := range callsIn(f) {
			if !calleeIsFn2(cs, emit) {
				continue
			}
			var pool ssa.Value
			for _, a := range cs.common.Args {
				if isNodeSlice(a.Type()) {
					pool = a
				}
			}
			if pool == nil {
				continue
			}
			n++
			ok, why := false, "no recording of the emitted pool's nodes can follow the emission; recorded instead: "
			for _, m := range marks {
				if m.at.Parent() != f {
					continue
				}
				if samePool(m.pool, pool) && (reachableAfter(cs.instr, m.at) || instrDominates(m.at, cs.instr)) {
					ok, why = true, "the nodes of "+describe(resolve(pool))+" are recorded at "+L.pos(m.at.Pos())
					break
				}
				why += describe(m.pool) + " at " + L.pos(m.at.Pos()) + "; "
			}
			c.check(ok, rule, fnName(f)+":emitted-pool-recorded-as-scheduled", L.pos(cs.instr.Pos()),
				"the nodes recorded as scheduled after a pool's statements were emitted are the nodes of that pool (otherwise its dependants never become ready and are dropped silently, their channels still waited on)", why)
		}
	}
	c.floor(rule, "emissions of a pool in buildStmts", n, 1)
}

// readinessKeyOfFirstNode: v is an element of reverseEdges[p[0]] for some pool p.
func readinessKeyOfFirstNode(L *Loaded, v ssa.Value) bool {
	isFirst := func(k ssa.Value) bool {
		var first func(k ssa.Value, d int) bool
		first = func(k ssa.Value, d int) bool {
			k = resolve(k)
			if p, isP := k.(*ssa.Parameter); isP && d < 3 {
				vs, ok := threaded(L, p)
				if !ok {
					return false
				}
				for _, w := range vs {
					if !first(w, d+1) {
						return false
					}
				}
				return true
			}
			ku, ok := k.(*ssa.UnOp)
			if !ok || ku.Op != token.MUL {
				return false
			}
			kia, ok := ku.X.(*ssa.IndexAddr)
			if !ok {
				return false
			}
			i, isC := constInt(kia.Index)
			return isC && i == 0 && strings.HasSuffix(kia.X.Type().String(), "[]*"+genPkg+".node")
		}
		return first(k, 0)
	}
	// the dependency list: a lookup in the reverseEdges field under the pool's first node
	isDeps := func(l ssa.Value) bool {
		lk, ok := resolve(l).(*ssa.Lookup)
		if !ok {
			return false
		}
		fld, ok := resolve(lk.X).(*ssa.UnOp)
		if !ok {
			return false
		}
		fa, ok := fld.X.(*ssa.FieldAddr)
		if !ok || fieldKey(fa) != "internal/kessoku.Graph.reverseEdges" {
			return false
		}
		return isFirst(lk.Index)
	}
	switch x := resolve(v).(type) {
	case *ssa.UnOp:
		// element of the list, read in a loop over it
		if x.Op != token.MUL {
			return false
		}
		ia, ok := x.X.(*ssa.IndexAddr)
		return ok && isDeps(ia.X)
	case *ssa.Parameter:
		// the element handed to a predicate closure by a library scan of the list (slices.ContainsFunc(list, func(d) bool {...}))
		cl := x.Parent()
		if cl.Parent() == nil {
			return false
		}
		for _, cs := range callsIn(cl.Parent()) {
			if !strings.HasPrefix(cs.callee, "slices.") || len(cs.common.Args) != 2 {
				continue
			}
			if mc, ok := cs.common.Args[1].(*ssa.MakeClosure); ok && mc.Fn == ssa.Value(cl) {
				return isDeps(cs.common.Args[0])
			}
		}
	}
	return false
}

// ruleChanDirMapping: a channel type is printed with its own direction. Wherever a go/ast.ChanType gets its Dir from the
// Dir() of a go/types.Chan, the three directions are told apart and mapped to their go/ast counterparts: SendRecv ->
// SEND|RECV, SendOnly -> SEND, RecvOnly -> RECV (a `<-chan T` requirement declared as `chan T` changes the injector's
// signature for its callers although the generated body still compiles). Decided by walking the branches on the Dir()
// value for each of the three constants - in the function or in a helper the value is handed to; other shapes (a table
// lookup) are left to the "Dir is consulted" rule.
func ruleChanDirMapping(c *Ctx, rule string, pkgs ...string) {
	L := c.L
	want := map[int64]int64{0: 3, 1: 1, 2: 2}
	// image computes what v is when d has the given value, starting at block start; ok=false when the shape is not decided
	var image func(fn *ssa.Function, start *ssa.BasicBlock, d ssa.Value, dv int64, v ssa.Value, depth int) (int64, bool)
	image = func(fn *ssa.Function, start *ssa.BasicBlock, d ssa.Value, dv int64, v ssa.Value, depth int) (int64, bool) {
		vals := map[ssa.Value]int64{}
		var look func(x ssa.Value) (int64, bool)
		look = func(x ssa.Value) (int64, bool) {
			if k, ok := vals[x]; ok {
				return k, true
			}
			switch y := x.(type) {
			case *ssa.Const:
				return constInt(y)
			case *ssa.Convert:
				return look(y.X)
			case *ssa.ChangeType:
				return look(y.X)
			case *ssa.BinOp:
				a, okA := look(y.X)
				b, okB := look(y.Y)
				if okA && okB {
					switch y.Op {
					case token.OR:
						return a | b, true
					case token.ADD:
						return a + b, true
					}
				}
			case *ssa.Call:
				if x == d {
					return dv, true
				}
				h := y.Common().StaticCallee()
				if h != nil && len(h.Blocks) > 0 && depth < 2 && h.Pkg == fn.Pkg {
					for i, a := range y.Common().Args {
						if a == d && i < len(h.Params) {
							return image(h, h.Blocks[0], h.Params[i], dv, nil, depth+1)
						}
					}
				}
			}
			if x == d {
				return dv, true
			}
			return 0, false
		}
		cur, prev := start, (*ssa.BasicBlock)(nil)
		for steps := 0; steps < 64 && cur != nil; steps++ {
			for _, in := range cur.Instrs {
				if ph, ok := in.(*ssa.Phi); ok && prev != nil {
					for k, p := range cur.Preds {
						if p == prev {
							if val, ok := look(ph.Edges[k]); ok {
								vals[ph] = val
							}
						}
					}
				}
			}
			if len(cur.Instrs) == 0 {
				break
			}
			var next *ssa.BasicBlock
			switch t := cur.Instrs[len(cur.Instrs)-1].(type) {
			case *ssa.Jump:
				next = cur.Succs[0]
			case *ssa.If:
				bo, ok := t.Cond.(*ssa.BinOp)
				if !ok || (bo.Op != token.EQL && bo.Op != token.NEQ) {
					break
				}
				a, okA := look(bo.X)
				b, okB := look(bo.Y)
				if !okA || !okB {
					break
				}
				if (a == b) == (bo.Op == token.EQL) {
					next = cur.Succs[0]
				} else {
					next = cur.Succs[1]
				}
			case *ssa.Return:
				if v == nil && len(t.Results) >= 1 {
					return look(t.Results[0])
				}
			}
			if next == nil {
				break
			}
			prev, cur = cur, next
		}
		if v == nil {
			return 0, false
		}
		return look(v)
	}
	n, decided := 0, 0
	for _, st := range storesToField(pkgFuncs(L, pkgs...), "go/ast.ChanType.Dir") {
		fn := st.Parent()
		// the Dir() value this store depends on: the call in the same function
		var d *ssa.Call
		for _, cs := range callsIn(fn) {
			if cs.callee == "(*go/types.Chan).Dir" && cs.value() != nil {
				d = cs.value()
			}
		}
		if d == nil {
			continue
		}
		n++
		c.seen(fnName(fn))
		bad, undec := "", false
		for _, dv := range []int64{0, 1, 2} {
			got, ok := image(fn, d.Block(), d, dv, st.Val, 0)
			if !ok {
				undec = true
				break
			}
			if got != want[dv] {
				bad = fmt.Sprintf("types.ChanDir %d is printed as ast.ChanDir %d, want %d", dv, got, want[dv])
			}
		}
		if undec {
			c.ok(rule, fnName(fn)+": channel direction mapping has a shape this rule does not decide", "left to the rule that Dir() is consulted")
			continue
		}
		decided++
		c.check(bad == "", rule, fnName(fn)+":chan-direction-mapping", L.pos(st.Pos()), "SendRecv, SendOnly and RecvOnly are printed as chan, chan<- and <-chan", bad)
	}
	c.floor(rule, "channel types built from a go/types.Chan", n, 1)
}

// ruleProvidersInDeclOrder: NewGraph processes providers in the order of the declaration. The struct-expansion pass asks
// for the source of each Struct[T] before it registers T's fields as suppliers, so a nested expansion (Struct[*Outer]
// whose field is the source of Struct[*Inner]) is accepted only when the outer struct is expanded first - the order in
// which the user listed them. No list of providers is sorted, reversed or otherwise permuted in NewGraph.
func ruleProvidersInDeclOrder(c *Ctx, rule string) {
	L := c.L
	ng := genFn(c, rule, "NewGraph")
	if ng == nil {
		return
	}
	n := 0
	for _, fn := range family(L, ng) {
		for _, cs := range callsIn(fn) {
			if len(cs.common.Args) == 0 {
				continue
			}
			permutes := strings.HasPrefix(cs.callee, "sort.") || strings.HasPrefix(cs.callee, "slices.Sort") || cs.callee == "slices.Reverse" || strings.HasPrefix(cs.callee, "math/rand.Shuffle")
			if !permutes {
				continue
			}
			n++
			at := cs.common.Args[0].Type().String()
			if mi, ok := cs.common.Args[0].(*ssa.MakeInterface); ok {
				at = mi.X.Type().String()
			}
			c.check(!strings.Contains(at, genPkg+".ProviderSpec"), rule, fnName(ng)+":providers-in-declaration-order", L.pos(cs.instr.Pos()),
				"providers are expanded and registered in declaration order (nested Struct expansions rely on it)", cs.callee+" on "+at)
		}
	}
	c.ok(rule, "no provider list is permuted in NewGraph", fmt.Sprintf("%d sorting calls inspected", n))
}

// ruleCallerAppendsSyncPoolsOnly: besides the one pool chosen as the caller's lane (ruleCallerLaneChoice), a pool's statements
// are appended to the caller's thread only on the "not Async" side of the test of that pool's first provider. A pool
// headed by an Async provider that is appended to the caller's list runs after everything already there instead of
// beside it - two input-free Async providers then run one after the other.
func ruleCallerAppendsSyncPoolsOnly(c *Ctx, rule string) {
	L := c.L
	bs := genFn(c, rule, "(*Graph).buildStmts")
	bps := resolveRole(c, genPkg, "(*Graph).buildPoolStmtsSimple")
	if bs == nil || bps == nil {
		return
	}
	n := 0
	for _, fn := range chainBuilders(L, bs) {
		for _, cs := range callsIn(fn) {
			bi, ok := cs.common.Value.(*ssa.Builtin)
			if !ok || bi.Name() != "append" || len(cs.common.Args) != 2 {
				continue
			}
			if _, isLit := variadicElems(cs.common.Args[1]); isLit {
				continue
			}
			ex, ok := resolve(cs.common.Args[1]).(*ssa.Extract)
			if !ok || ex.Index != 0 {
				continue
			}
			call, ok := ex.Tuple.(*ssa.Call)
			if !ok || call.Common().StaticCallee() != bps || len(call.Common().Args) < 2 {
				continue
			}
			n++
			s := newSym(L, map[string]bool{})
			s.maxD = 0
			poolTerms := s.eval(call.Common().Args[1])
			guarded, seen := false, []string{}
			for _, iff := range controllingIfs(cs.instr) {
				s2 := newSym(L, map[string]bool{})
				s2.maxD = 0
				term := strings.Join(s2.eval(iff.Cond), "|")
				if !strings.Contains(term, "field:internal/kessoku.ProviderSpec.IsAsync(field:internal/kessoku.node.providerSpec(index(") {
					continue
				}
				same := false
				for _, pt := range poolTerms {
					if strings.Contains(term, pt) {
						same = true
					}
				}
				seen = append(seen, term)
				// on the false side: dominated by the else successor, not by the then successor
				els, thn := iff.Block().Succs[1], iff.Block().Succs[0]
				neg := false
				if u, isU := iff.Cond.(*ssa.UnOp); isU && u.Op == token.NOT {
					neg = true
				}
				if neg {
					els, thn = thn, els
				}
				if same && els.Dominates(cs.instr.Block()) && !thn.Dominates(cs.instr.Block()) {
					guarded = true
				}
			}
			c.check(guarded, rule, fnName(bs)+":caller-appends-sync-pools-only", L.pos(cs.instr.Pos()),
				"a pool is appended to the caller's statements only when its first provider is not Async", fmt.Sprintf("IsAsync tests on the way: %v", seen))
		}
	}
	c.floor(rule, "whole pools appended to the caller's list in buildStmts", n, 1)
}

// ruleDoneCaseLeaves: a wait that can be abandoned (a select with a `<-ctx.Done()` case) is abandoned by leaving the
// function: the clause that receives from Done() has a body, and that body is what the early-return builder produced (or
// a literal list that contains a return). A Done() case that falls through runs the consumer although its producer has not
// finished - the variable is read before the write that the close would have ordered.
func ruleDoneCaseLeaves(c *Ctx, rule string) {
	L := c.L
	p := L.Pkgs[genPkg]
	sites := collectTemplates(p)
	n := 0
	for _, s := range sites {
		if s.kind != "SelectorExpr" {
			continue
		}
		if sel, ok := identConst(p, s.fn, s.fields["Sel"]); !ok || sel != "Done" {
			continue
		}
		n++
		var clause *tmplSite
		for q := s.parent; q != nil; q = q.parent {
			if q.kind == "CaseClause" || q.kind == "CommClause" {
				clause = q
				break
			}
		}
		if clause == nil {
			c.undecided(rule, "template:done-case", "a Done() selector that does not sit in a select clause ("+s.fnName()+")")
			continue
		}
		body := clause.fields["Body"]
		ok, why := false, "the clause has no body: the wait falls through"
		switch b := ast.Unparen(body).(type) {
		case nil:
		case *ast.CallExpr:
			ok, why = true, "body built by "+exprString(b.Fun)
			if id, isId := ast.Unparen(b.Fun).(*ast.Ident); isId {
				if o := p.TypesInfo.Uses[id]; o != nil && !strings.Contains(o.Type().String(), "[]go/ast.Stmt") {
					ok, why = false, "body is "+exprString(b)
				}
			}
		case *ast.CompositeLit:
			hasRet := false
			for _, t := range sites {
				if t.kind == "ReturnStmt" && t.lit.Pos() >= b.Pos() && t.lit.End() <= b.End() {
					hasRet = true
				}
			}
			ok, why = hasRet, fmt.Sprintf("literal body with %d statement(s), return inside: %v", len(b.Elts), hasRet)
		default:
			ok, why = true, "body is "+exprString(body)
		}
		c.check(ok, rule, "template:done-case-leaves:"+s.fnName(), L.pos(clause.lit.Pos()), "the ctx.Done() case of a wait returns from the function (it never falls through to the provider call)", why)
	}
	c.floor(rule, "Done() selector templates", n, 1)
}

// ruleNoCrossFilePositionOrder: nothing is ordered by the source positions of different files. go/packages parses the files
// of a package concurrently and each file takes its range of the shared FileSet when its parse begins, so whether one
// file's token.Pos is smaller than another's depends on scheduling, GOMAXPROCS and file sizes - an order derived from it
// (which file's imports are named first) differs between runs. Flagged: an ordering comparison (<, <=, >, >=, cmp.Compare,
// cmp.Less) of two token.Pos values that are positions of *ast.File nodes.
func ruleNoCrossFilePositionOrder(c *Ctx, rule string) {
	L := c.L
	n := 0
	isFilePos := func(v ssa.Value) bool {
		if v.Type().String() != "go/token.Pos" {
			return false
		}
		s := newSym(L, map[string]bool{})
		s.maxD = 0
		t := strings.Join(s.eval(v), "|")
		return strings.Contains(t, "go/ast.File")
	}
	for _, fn := range pkgFuncs(L, genPkg) {
		if fn.Parent() != nil {
			continue // closures are visited through their parent
		}
		for _, w := range withClosures(fn) {
			for _, b := range w.Blocks {
				for _, in := range b.Instrs {
					var x, y ssa.Value
					switch t := in.(type) {
					case *ssa.BinOp:
						if t.Op == token.LSS || t.Op == token.LEQ || t.Op == token.GTR || t.Op == token.GEQ {
							x, y = t.X, t.Y
						}
					case *ssa.Call:
						if cal := t.Common().StaticCallee(); cal != nil && originOf(cal).Pkg != nil && originOf(cal).Pkg.Pkg.Path() == "cmp" && len(t.Common().Args) == 2 {
							x, y = t.Common().Args[0], t.Common().Args[1]
						}
					}
					if x == nil || x.Type().String() != "go/token.Pos" {
						continue
					}
					n++
					c.check(!(isFilePos(x) && isFilePos(y)), rule, fnName(w)+":files-ordered-by-position", L.pos(in.Pos()),
						"files are never ordered by their positions in the FileSet (assigned in parse order, which is concurrent)", "comparison of the positions of two *ast.File nodes")
				}
			}
		}
	}
	c.ok(rule, "no order is derived from the FileSet positions of different files", fmt.Sprintf("%d position comparisons inspected", n))
}

// ruleGenerateOncePerFile: Generate runs once per processed file. It draws names (err, err0, ...) from the allocator the
// whole invocation shares, so a second rendering of the same file - a dry run to compare with, a retry - is not the same
// text as the first; what is written then depends on whether the extra rendering happened, i.e. on what was on disk.
// And nothing in the pipeline reads the previous output: the path computed by outputFileName is only ever created.
func ruleGenerateOncePerFile(c *Ctx, rule string) {
	L := c.L
	gen := resolveRole(c, genPkg, "Generate")
	if gen == nil {
		c.undecided(rule, "Generate", "function not found")
		return
	}
	var sites []callSite
	for _, fn := range pkgFuncs(L, genPkg) {
		for _, cs := range callsIn(fn) {
			if cal := cs.common.StaticCallee(); cal != nil && originOf(cal) == gen {
				sites = append(sites, cs)
			}
		}
	}
	where := []string{}
	for _, cs := range sites {
		where = append(where, L.pos(cs.instr.Pos()))
	}
	c.check(len(sites) == 1, rule, "internal/kessoku:Generate-called-once", "-", "the rendering of a file happens at one call site (each rendering takes fresh names from the shared allocator)", fmt.Sprintf("call sites: %v", where))
	if len(sites) == 1 {
		inLoop := reachable(sites[0].instr.Block(), sites[0].instr.Block()) && func() bool {
			for _, s := range sites[0].instr.Block().Succs {
				if reachable(s, sites[0].instr.Block()) {
					return true
				}
			}
			return false
		}()
		c.check(!inLoop, rule, "internal/kessoku:Generate-not-repeated", L.pos(sites[0].instr.Pos()), "the call is not repeated for one file", "call site inside a loop of its function")
	}
	n := 0
	for _, fn := range pkgFuncs(L, genPkg) {
		for _, cs := range callsIn(fn) {
			switch cs.callee {
			case "os.ReadFile", "os.Open", "os.Stat", "os.Lstat", "os.OpenFile", "os.ReadDir":
			default:
				continue
			}
			n++
			s := newSym(L, map[string]bool{})
			t := strings.Join(s.eval(cs.common.Args[0]), "|")
			if cs.callee == "os.OpenFile" {
				// opening the output for writing is the single-writer rule's business
				continue
			}
			c.check(!strings.Contains(t, "outputFileName("), rule, fnName(fn)+":previous-output-read", L.pos(cs.instr.Pos()),
				"the previous output is never consulted (the new one is a function of the sources alone)", cs.callee+"("+t+")")
		}
	}
	c.ok(rule, "the output path is only created, never read", fmt.Sprintf("%d file-reading calls inspected", n))
}

// ruleProvidedCountPerDependency: findOptimalPool counts, per pool, how many of the node's dependency ENTRIES (one per
// parameter - reverseEdges is a list with repetitions) the pool provides, and compares the best count with
// len(dependencies) to decide "all inputs are in this lane". The two sites agree only while the count takes every entry:
// in one pass over the list the counter is incremented exactly when the pool's provided-set holds the entry - no entry is
// skipped for another reason (a de-duplication makes a node that takes two values of one producer never pass the test:
// it is then scheduled beside its producer instead of behind it).
func ruleProvidedCountPerDependency(c *Ctx, rule string) {
	L := c.L
	fn := genFn(c, rule, "(*Graph).findOptimalPool")
	if fn == nil {
		return
	}
	n := 0
	for _, f := range family(L, fn) {
		for _, b := range f.Blocks {
			for _, in := range b.Instrs {
				bo, ok := in.(*ssa.BinOp)
				if !ok || bo.Op != token.ADD {
					continue
				}
				if k, isC := constInt(bo.Y); !isC || k != 1 {
					continue
				}
				if _, isPhi := bo.X.(*ssa.Phi); !isPhi || isRangeIndexIncrement(bo) {
					continue
				}
				// the innermost loop around the increment
				var hdr *ssa.BasicBlock
				for d := b.Idom(); d != nil; d = d.Idom() {
					isHeader := false
					for _, pr := range d.Preds {
						if d.Dominates(pr) {
							isHeader = true
						}
					}
					if isHeader && reachable(b, d) {
						hdr = d
						break
					}
				}
				if hdr == nil {
					continue
				}
				// branch conditions inside that loop's body that decide whether the increment runs
				var conds []*ssa.If
				for d := b.Idom(); d != nil && d != hdr; d = d.Idom() {
					if iff, ok := d.Instrs[len(d.Instrs)-1].(*ssa.If); ok {
						conds = append(conds, iff)
					}
				}
				isProvidedTest := func(v ssa.Value) bool {
					ex, ok := v.(*ssa.Extract)
					if !ok || ex.Index != 1 {
						return false
					}
					lk, ok := ex.Tuple.(*ssa.Lookup)
					if !ok || !strings.Contains(lk.X.Type().String(), "map[*"+genPkg+".node]struct{}") {
						return false
					}
					s := newSym(L, map[string]bool{})
					s.maxD = 0
					t := strings.Join(s.eval(lk.X), "|")
					return strings.Contains(t, "param:")
				}
				guarded := false
				extra := []string{}
				for _, iff := range conds {
					if isProvidedTest(iff.Cond) {
						guarded = true
						continue
					}
					s := newSym(L, map[string]bool{})
					s.maxD = 0
					extra = append(extra, strings.Join(s.eval(iff.Cond), "|"))
				}
				if !guarded {
					continue
				}
				n++
				c.check(len(extra) == 0, rule, fnName(fn)+":provided-count-takes-every-entry", L.pos(bo.Pos()),
					"the per-pool count is incremented for every dependency entry the pool provides (it is compared with len(dependencies))", fmt.Sprintf("also decided by: %v", extra))
			}
		}
	}
	c.floor(rule, "membership-guarded counters in findOptimalPool", n, 1)
}

// isRangeIndexIncrement: i+1 of a loop index (the phi it feeds is compared with a length / used as an index).
func isRangeIndexIncrement(bo *ssa.BinOp) bool {
	ph, ok := bo.X.(*ssa.Phi)
	if !ok || ph.Referrers() == nil {
		return false
	}
	for _, r := range *ph.Referrers() {
		switch x := r.(type) {
		case *ssa.IndexAddr:
			if x.Index == ssa.Value(ph) {
				return true
			}
		case *ssa.Index:
			if x.Index == ssa.Value(ph) {
				return true
			}
		}
	}
	if bo.Referrers() != nil {
		for _, r := range *bo.Referrers() {
			switch x := r.(type) {
			case *ssa.IndexAddr:
				if x.Index == ssa.Value(bo) {
					return true
				}
			case *ssa.BinOp:
				if x.Op == token.LSS {
					return true
				}
			}
		}
	}
	return false
}

// ruleMatchingVisitedFreshPerRoot: the number of lanes is |nodes| minus a maximum matching, found by augmenting paths. Each
// search from a new root starts with an empty visited set - the []bool handed to findAugmentingPath at the outer call is
// made (or cleared) inside the loop over the roots. A set kept across roots hides augmenting paths that re-route earlier
// matches: the matching comes out too small and a surplus lane is allocated, which turns a provider that HEAD queues behind
// its producer into a goroutine of its own.
func ruleMatchingVisitedFreshPerRoot(c *Ctx, rule string) {
	L := c.L
	fn := genFn(c, rule, "(*Graph).findMaximumAntichainSize")
	if fn == nil {
		return
	}
	innermost := func(b *ssa.BasicBlock) *ssa.BasicBlock {
		for d := b; d != nil; d = d.Idom() {
			isHeader := false
			for _, pr := range d.Preds {
				if d.Dominates(pr) {
					isHeader = true
				}
			}
			if isHeader && (d == b || reachable(b, d)) {
				return d
			}
		}
		return nil
	}
	// the search: the self-recursive function of the package that findMaximumAntichainSize hands a []bool (method or
	// plain function, whatever it is called)
	var aug *ssa.Function
	for _, cs := range callsIn(fn) {
		g := cs.common.StaticCallee()
		if g == nil || len(g.Blocks) == 0 || g.Pkg != fn.Pkg {
			continue
		}
		takes := false
		for _, a := range cs.common.Args {
			if a.Type().String() == "[]bool" {
				takes = true
			}
		}
		for _, cs2 := range callsIn(g) {
			if takes && cs2.common.StaticCallee() == g {
				aug = g
			}
		}
	}
	isSearch := func(cc *ssa.CallCommon) bool { return aug != nil && cc.StaticCallee() == aug }
	if aug == nil {
		// the matching kept in a struct: the visited set is a []bool field of the search's receiver, written by the method
		// that starts a search (m.used = make(...); return m.search(u)) and that method is what the loop over the roots calls
		for _, cs := range callsIn(fn) {
			m := cs.common.StaticCallee()
			if m == nil || len(m.Blocks) == 0 || m.Pkg != fn.Pkg || innermost(cs.instr.Block()) == nil {
				continue
			}
			for _, st := range func() []*ssa.Store {
				var out []*ssa.Store
				for _, b := range m.Blocks {
					for _, in := range b.Instrs {
						if st, ok := in.(*ssa.Store); ok {
							if fa, isF := st.Addr.(*ssa.FieldAddr); isF && st.Val.Type().String() == "[]bool" && len(m.Params) > 0 && fa.X == ssa.Value(m.Params[0]) {
								out = append(out, st)
							}
						}
					}
				}
				return out
			}() {
				_, fresh := resolve(st.Val).(*ssa.MakeSlice)
				for _, cs2 := range callsIn(m) {
					r := cs2.common.StaticCallee()
					if r == nil || r.Pkg != fn.Pkg || !instrDominates(st, cs2.instr) {
						continue
					}
					for _, cs3 := range callsIn(r) {
						if cs3.common.StaticCallee() == r && fresh {
							c.ok(rule, "every augmenting-path search starts with an empty visited set", fnName(m)+" makes the set, then starts "+r.Name()+"; called per root")
							c.seen(fnName(m))
							return
						}
					}
				}
			}
		}
		// the search as a recursive closure of findMaximumAntichainSize (`var augment func(int) bool; augment = func...`)
		// with the visited set in a captured variable: every call from the loop over the roots follows a store of a
		// freshly made slice into that variable, inside the loop
		if fcell, ucell, g := recursiveClosureSearch(fn); g != nil {
			isSearch = func(cc *ssa.CallCommon) bool {
				u, ok := cc.Value.(*ssa.UnOp)
				return ok && u.Op == token.MUL && allocOf(u.X) == fcell
			}
			nc := 0
			for _, cs := range callsIn(fn) {
				if !isSearch(cs.common) {
					continue
				}
				nc++
				hdr := innermost(cs.instr.Block())
				ok, why := false, "no store of a fresh slice into the captured visited set on the way to the call"
				if hdr == nil {
					ok, why = true, "the search is not in a loop"
				}
				for _, b := range fn.Blocks {
					for _, in := range b.Instrs {
						st, isSt := in.(*ssa.Store)
						if !isSt || allocOf(st.Addr) != ucell || hdr == nil {
							continue
						}
						if _, fresh := resolve(st.Val).(*ssa.MakeSlice); fresh && b != hdr && hdr.Dominates(b) && reachable(b, hdr) && instrDominates(st, cs.instr) {
							ok, why = true, fmt.Sprintf("the captured set is renewed in block %d of the loop with header %d, before the call", b.Index, hdr.Index)
						}
					}
				}
				c.check(ok, rule, fnName(fn)+":visited-set-fresh-per-root", L.pos(cs.instr.Pos()), "every augmenting-path search starts with an empty visited set", why)
			}
			c.floor(rule, "outer calls of the augmenting-path closure", nc, 1)
			c.seen(fnName(g))
		} else {
			c.undecided(rule, "findAugmentingPath", "no self-recursive search taking a visited set is called from findMaximumAntichainSize")
			return
		}
	}
	n := 0
	for _, f := range family(L, fn) {
		if f == aug || aug == nil {
			continue
		}
		for _, cs := range callsIn(f) {
			if cs.common.StaticCallee() != aug {
				continue
			}
			for _, a := range cs.common.Args {
				if a.Type().String() != "[]bool" {
					continue
				}
				n++
				hdr := innermost(cs.instr.Block())
				ok, why := false, "the visited set is "+describe(resolve(a))
				if hdr == nil {
					ok, why = true, "the search is not in a loop"
				} else if ms, isM := resolve(a).(*ssa.MakeSlice); isM {
					in := hdr.Dominates(ms.Block()) && reachable(ms.Block(), hdr) && ms.Block() != hdr
					ok, why = in, fmt.Sprintf("made in block %d, loop header %d", ms.Block().Index, hdr.Index)
					if !in {
						// cleared per root instead
						for _, cs2 := range callsIn(f) {
							if bi, isB := cs2.common.Value.(*ssa.Builtin); isB && bi.Name() == "clear" && len(cs2.common.Args) == 1 && resolve(cs2.common.Args[0]) == ssa.Value(ms) &&
								hdr.Dominates(cs2.instr.Block()) && instrDominates(cs2.instr, cs.instr) {
								ok, why = true, "cleared before each search"
							}
						}
					}
				}
				c.check(ok, rule, fnName(fn)+":visited-set-fresh-per-root", L.pos(cs.instr.Pos()), "every augmenting-path search starts with an empty visited set", why)
			}
		}
	}
	if aug != nil {
		c.floor(rule, "outer calls of findAugmentingPath", n, 1)
	}
	// the lane count is the number of nodes minus the number of successful searches: every decrement of the counter sits
	// directly under the result of a search from a root (counting matched entries of the adjacency lists afterwards counts
	// a double edge - two arguments fed by one provider - twice)
	nDec := 0
	for _, b := range fn.Blocks {
		for _, in := range b.Instrs {
			bo, ok := in.(*ssa.BinOp)
			if !ok || bo.Op != token.SUB {
				continue
			}
			if k, isC := constInt(bo.Y); !isC || k != 1 {
				continue
			}
			if _, isPhi := bo.X.(*ssa.Phi); !isPhi {
				continue
			}
			nDec++
			okDec, why := false, "the decrement is not under the result of a search"
			for _, iff := range controllingIfs(bo) {
				if call, isCall := iff.Cond.(*ssa.Call); isCall && isSearch(call.Common()) && (iff.Block().Succs[0] == b || iff.Block().Succs[0].Dominates(b)) {
					okDec, why = true, "one decrement per successful search"
				} else {
					s := newSym(L, map[string]bool{})
					s.maxD = 0
					why = "the decrement is decided by " + strings.Join(s.eval(iff.Cond), "|")
				}
				break
			}
			c.check(okDec, rule, fnName(fn)+":one-lane-less-per-successful-search", L.pos(bo.Pos()), "the lane count is the number of nodes minus the number of successful augmenting-path searches", why)
		}
	}
	if nDec == 0 {
		c.ok(rule, "findMaximumAntichainSize: no counter decremented per search; decrement rule not applied", "shape not recognised")
	}
}

// recursiveClosureSearch: a closure of fn that is stored into a local variable, calls itself through that variable and captures
// a []bool variable. Returns the cell of the function variable, the cell of the captured set and the closure's function.
func recursiveClosureSearch(fn *ssa.Function) (fcell, ucell *ssa.Alloc, g *ssa.Function) {
	for _, b := range fn.Blocks {
		for _, in := range b.Instrs {
			mc, ok := in.(*ssa.MakeClosure)
			if !ok || mc.Referrers() == nil {
				continue
			}
			cf := mc.Fn.(*ssa.Function)
			var cell *ssa.Alloc
			for _, r := range *mc.Referrers() {
				if st, isSt := r.(*ssa.Store); isSt && st.Val == ssa.Value(mc) {
					cell = allocOf(st.Addr)
				}
			}
			if cell == nil {
				continue
			}
			self, set := -1, -1
			for i, bnd := range mc.Bindings {
				if allocOf(bnd) == cell {
					self = i
				}
				if pt, isP := bnd.Type().Underlying().(*types.Pointer); isP && pt.Elem().String() == "[]bool" {
					set = i
				}
			}
			if self < 0 || set < 0 {
				continue
			}
			rec := false
			for _, cs := range callsIn(cf) {
				if u, isU := cs.common.Value.(*ssa.UnOp); isU && u.Op == token.MUL && u.X == ssa.Value(cf.FreeVars[self]) {
					rec = true
				}
			}
			if rec {
				return cell, allocOf(mc.Bindings[set]), cf
			}
		}
	}
	return nil, nil, nil
}

// ruleContextInjectedOnEveryPath: when a scheduled provider is Async, injectContextArg leaves the injector with a context
// argument on every successful path: a success return is reached only over (a) the edge "no Async provider", (b) the edge
// "an argument of context type was found among injector.Args", or (c) the store that puts the new argument into
// injector.Args. Any other way out (e.g. "a provider already builds a context") leaves goroutines without the derived
// context: a failure in one lane never wakes the waiters of another.
func ruleContextInjectedOnEveryPath(c *Ctx, rule string) {
	L := c.L
	fn := genFn(c, rule, "(*Graph).injectContextArg")
	if fn == nil {
		return
	}
	type edge struct{ from, to *ssa.BasicBlock }
	sat := map[edge]bool{}
	satBlock := map[*ssa.BasicBlock]bool{}
	nGate, nFound, nStore := 0, 0, 0
	for _, b := range fn.Blocks {
		for _, in := range b.Instrs {
			if st, ok := in.(*ssa.Store); ok {
				if fa, isF := st.Addr.(*ssa.FieldAddr); isF && fieldKey(fa) == "internal/kessoku.Injector.Args" {
					// the prepend, not the removal of the found argument
					satBlock[b] = true
					nStore++
				}
			}
		}
		if len(b.Instrs) == 0 {
			continue
		}
		iff, ok := b.Instrs[len(b.Instrs)-1].(*ssa.If)
		if !ok {
			continue
		}
		cond, neg := iff.Cond, false
		if u, isU := cond.(*ssa.UnOp); isU && u.Op == token.NOT {
			cond, neg = u.X, true
		}
		if call, isCall := cond.(*ssa.Call); isCall && calleeIsFn(call, resolveRole(c, genPkg, "(*Graph).hasAsyncProviders")) {
			// hasAsync == false edge
			if neg {
				sat[edge{b, b.Succs[0]}] = true
			} else {
				sat[edge{b, b.Succs[1]}] = true
			}
			nGate++
			continue
		}
		if bo, isB := cond.(*ssa.BinOp); isB && (bo.Op == token.NEQ || bo.Op == token.EQL) && (isNilConst(bo.X) || isNilConst(bo.Y)) {
			v := bo.X
			if isNilConst(v) {
				v = bo.Y
			}
			if strings.HasSuffix(v.Type().String(), genPkg+".InjectorArgument") {
				found := (bo.Op == token.NEQ) != neg
				if found {
					sat[edge{b, b.Succs[0]}] = true
				} else {
					sat[edge{b, b.Succs[1]}] = true
				}
				nFound++
			}
		}
	}
	if nGate == 0 || nFound == 0 || nStore == 0 {
		c.ok(rule, "injectContextArg: gate / found-test / store not all recognised; path rule not applied", fmt.Sprintf("gate=%d found=%d store=%d", nGate, nFound, nStore))
		return
	}
	// a success return reachable from the entry without a satisfying edge or block
	seen := map[*ssa.BasicBlock]bool{}
	var bad *ssa.Return
	var walk func(b *ssa.BasicBlock)
	walk = func(b *ssa.BasicBlock) {
		if seen[b] || satBlock[b] || bad != nil {
			return
		}
		seen[b] = true
		if r, ok := b.Instrs[len(b.Instrs)-1].(*ssa.Return); ok && returnsNilError(r) {
			bad = r
			return
		}
		for _, s := range b.Succs {
			if !sat[edge{b, s}] {
				walk(s)
			}
		}
	}
	walk(fn.Blocks[0])
	pos := "-"
	if bad != nil {
		pos = L.pos(bad.Pos())
	}
	c.check(bad == nil, rule, fnName(fn)+":context-on-every-successful-path", pos,
		"with an Async provider scheduled, every successful path leaves a context argument in injector.Args", "a success return is reachable without finding or adding the context")
}

func calleeIsFn(call *ssa.Call, f *ssa.Function) bool {
	return f != nil && call.Common().StaticCallee() != nil && originOf(call.Common().StaticCallee()) == f
}

// ruleConverterHomeIsWirePackage (C14): the type converter prints types relative to ONE package - names of that package are
// written bare, everything else is qualified and imported. That package must be the one the wire files are in. With
// patterns like ./... several packages are loaded and the wire package need not be the first; a converter created for
// pkgs[0] then qualifies the wire package's own types and makes the output import its own package (it does not compile).
// Rule: the package handed to NewTypeConverter is selected under a test of FindWireImport (in MigrateFiles or in a helper
// that returns it), never a fixed element of the loaded list.
func ruleConverterHomeIsWirePackage(c *Ctx, rule string) {
	L := c.L
	mf := resolveRole(c, migPkg, "(*Migrator).MigrateFiles")
	ntc := resolveRole(c, migPkg, "NewTypeConverter")
	fwi := resolveRole(c, migPkg, "(*Parser).FindWireImport")
	if mf == nil || ntc == nil || fwi == nil {
		c.undecided(rule, "NewTypeConverter", "MigrateFiles / NewTypeConverter / FindWireImport not found")
		return
	}
	fromWireTest := func(cond ssa.Value) bool {
		seen := map[ssa.Value]bool{}
		var walk func(v ssa.Value, d int) bool
		walk = func(v ssa.Value, d int) bool {
			if v == nil || seen[v] || d > 6 {
				return false
			}
			seen[v] = true
			switch x := v.(type) {
			case *ssa.Call:
				if calleeIsFn(x, fwi) {
					return true
				}
				// a private predicate around the test (importsWire(pkg)): what it returns derives from FindWireImport
				if g := x.Common().StaticCallee(); g != nil && g.Pkg == mf.Pkg && len(g.Blocks) > 0 && g.Signature.Results().Len() == 1 && g.Signature.Results().At(0).Type().String() == "bool" {
					for _, b := range g.Blocks {
						for _, in := range b.Instrs {
							if call, isC := in.(*ssa.Call); isC && calleeIsFn(call, fwi) {
								return true
							}
						}
					}
				}
			case *ssa.BinOp:
				return walk(x.X, d+1) || walk(x.Y, d+1)
			case *ssa.UnOp:
				return walk(x.X, d+1)
			case *ssa.Phi:
				for _, e := range x.Edges {
					if walk(e, d+1) {
						return true
					}
				}
			}
			return false
		}
		return walk(cond, 0)
	}
	underWireTest := func(in ssa.Instruction) bool {
		for _, iff := range controllingIfs(in) {
			if fromWireTest(iff.Cond) {
				return true
			}
		}
		return false
	}
	n := 0
	for _, f := range family(L, mf) {
		for _, cs := range callsIn(f) {
			if !calleeIsFn2(cs, ntc) || len(cs.common.Args) == 0 {
				continue
			}
			n++
			// the *packages.Package whose Types are handed over
			var home ssa.Value
			if u, ok := resolve(cs.common.Args[0]).(*ssa.UnOp); ok && u.Op == token.MUL {
				if fa, isF := u.X.(*ssa.FieldAddr); isF && fieldKey(fa) == "golang.org/x/tools/go/packages.Package.Types" {
					home = resolve(fa.X)
				}
			}
			ok, why := false, "the converter's package is "+describe(resolve(cs.common.Args[0]))
			switch h := home.(type) {
			case *ssa.Call:
				if g := h.Common().StaticCallee(); g != nil && len(g.Blocks) > 0 && g.Pkg == mf.Pkg {
					for _, r := range returnsOf(g) {
						if len(r.Results) > 0 && !isNilConst(r.Results[0]) && underWireTest(r) {
							ok, why = true, "chosen by "+g.Name()+" under a FindWireImport test"
						}
					}
					if !ok {
						why = g.Name() + " returns a package without consulting FindWireImport"
					}
				}
			case *ssa.UnOp:
				// an element of the loaded list: fixed index, or the loop variable of a search
				if ia, isIA := h.X.(*ssa.IndexAddr); isIA {
					if _, isC := constInt(ia.Index); isC {
						why = "a fixed element of the loaded packages (" + describe(h) + ")"
					} else if underWireTest(cs.instr) {
						ok, why = true, "selected in a loop under a FindWireImport test"
					}
				}
			case *ssa.Phi:
				if underWireTest(cs.instr) {
					ok, why = true, "selected under a FindWireImport test"
				}
			}
			c.check(ok, rule, fnName(mf)+":converter-home-is-the-wire-package", L.pos(cs.instr.Pos()),
				"the type converter is created for the package that holds the wire configuration", why)
		}
	}
	c.floor(rule, "NewTypeConverter calls in the migration pipeline", n, 1)
}

func calleeIsFn2(cs callSite, f *ssa.Function) bool {
	cal := cs.common.StaticCallee()
	return cal != nil && f != nil && originOf(cal) == f
}

// ruleLoadErrorsOfEveryPackage (C14): a syntax or type error in ANY loaded package stops the migration before anything is
// written. The Errors of the loaded packages are inspected in a walk over the whole list that packages.Load returned
// (element by element, at the running index), and a non-empty list leaves the function with an error - not only the
// errors of one selected package (the patterns may name several packages with wire files).
func ruleLoadErrorsOfEveryPackage(c *Ctx, rule string) {
	L := c.L
	mf := resolveRole(c, migPkg, "(*Migrator).MigrateFiles")
	if mf == nil {
		c.undecided(rule, "MigrateFiles", "not found")
		return
	}
	n, ok, why := 0, false, "no inspection of packages.Package.Errors found"
	for _, f := range family(L, mf) {
		for _, b := range f.Blocks {
			for _, in := range b.Instrs {
				fa, isF := in.(*ssa.FieldAddr)
				if !isF || fieldKey(fa) != "golang.org/x/tools/go/packages.Package.Errors" {
					continue
				}
				n++
				// the package: an element of a list at the running index of a loop over that list
				base := resolve(fa.X)
				// the element handed to a predicate by a library scan of the loaded list (slices.IndexFunc(pkgs, hasErrors))
				if prm, isP := base.(*ssa.Parameter); isP && prm.Parent().Parent() != nil {
					cl := prm.Parent()
					for _, cs := range callsIn(cl.Parent()) {
						if !strings.HasPrefix(cs.callee, "slices.") || len(cs.common.Args) != 2 {
							continue
						}
						pred := cs.common.Args[1]
						if mc, isMC := pred.(*ssa.MakeClosure); isMC {
							pred = mc.Fn
						}
						if pred != ssa.Value(cl) {
							continue
						}
						lst := resolve(cs.common.Args[0])
						if ex, isEx := lst.(*ssa.Extract); isEx && ex.Index == 0 {
							if call, isC := ex.Tuple.(*ssa.Call); isC && calleeOf(call.Common()) == "golang.org/x/tools/go/packages.Load" {
								ok, why = true, "every element of the loaded list is inspected by "+cs.callee
							}
						}
					}
					continue
				}
				u, isU := base.(*ssa.UnOp)
				if !isU || u.Op != token.MUL {
					if !ok {
						why = "the errors inspected are those of " + describe(base)
					}
					continue
				}
				ia, isIA := u.X.(*ssa.IndexAddr)
				if !isIA || !isRangeIndex(ia.Index) {
					if !ok {
						why = "the errors inspected are those of " + describe(base)
					}
					continue
				}
				// the list: what packages.Load returned (directly, or the parameter of a helper that is handed it)
				list := resolve(ia.X)
				fromLoad := false
				var check func(v ssa.Value, d int) bool
				check = func(v ssa.Value, d int) bool {
					v = resolve(v)
					if ex, isEx := v.(*ssa.Extract); isEx && ex.Index == 0 {
						if call, isC := ex.Tuple.(*ssa.Call); isC && calleeOf(call.Common()) == "golang.org/x/tools/go/packages.Load" {
							return true
						}
					}
					if p, isP := v.(*ssa.Parameter); isP && d < 3 {
						if vs, okT := threaded(L, p); okT {
							for _, w := range vs {
								if !check(w, d+1) {
									return false
								}
							}
							return true
						}
					}
					return false
				}
				fromLoad = check(list, 0)
				if !fromLoad {
					if !ok {
						why = "the list walked is " + describe(list)
					}
					continue
				}
				ok, why = true, "every element of the loaded list is inspected"
			}
		}
	}
	c.check(ok, rule, fnName(mf)+":load-errors-of-every-package", L.pos(mf.Pos()), "the load errors of every loaded package are inspected before anything is migrated", why)
	c.floor(rule, "reads of packages.Package.Errors in the migration pipeline", n, 1)
}

// rulePreviousOutputsOfEveryFile (C11): every source file of the package may have left an output behind (also a file that has
// lost its directives since): the set of previous-output names gets an entry for each non-nil syntax file. The insertion
// sits in the walk over pkg.Syntax under nothing but the nil test of the file and the error test of filepath.Abs.
func rulePreviousOutputsOfEveryFile(c *Ctx, rule string) {
	L := c.L
	pf := genFn(c, rule, "(*Parser).ParseFile")
	if pf == nil {
		return
	}
	n := 0
	for _, f := range family(L, pf) {
		for _, b := range f.Blocks {
			for _, in := range b.Instrs {
				mu, ok := in.(*ssa.MapUpdate)
				if !ok || (mu.Map.Type().String() != "map[string]struct{}" && mu.Map.Type().String() != "map[string]bool") {
					continue
				}
				s := newSym(L, map[string]bool{})
				s.maxD = 0
				kt := strings.Join(s.eval(mu.Key), "|")
				if !strings.Contains(kt, "utputFileName(") && !strings.Contains(kt, "_band") {
					continue
				}
				n++
				var hdr *ssa.BasicBlock
				for d := b.Idom(); d != nil; d = d.Idom() {
					isHeader := false
					for _, pr := range d.Preds {
						if d.Dominates(pr) {
							isHeader = true
						}
					}
					if isHeader && reachable(b, d) {
						hdr = d
						break
					}
				}
				extra := []string{}
				for d := b.Idom(); d != nil && d != hdr; d = d.Idom() {
					iff, isIf := d.Instrs[len(d.Instrs)-1].(*ssa.If)
					if !isIf {
						continue
					}
					if bo, isB := iff.Cond.(*ssa.BinOp); isB && (bo.Op == token.EQL || bo.Op == token.NEQ) && (isNilConst(bo.X) || isNilConst(bo.Y)) {
						continue // f == nil, absErr == nil
					}
					s2 := newSym(L, map[string]bool{})
					s2.maxD = 0
					extra = append(extra, strings.Join(s2.eval(iff.Cond), "|"))
				}
				c.check(len(extra) == 0, rule, fnName(pf)+":previous-output-of-every-file", L.pos(mu.Pos()),
					"every non-nil file of the package contributes the name of its (possible) previous output", fmt.Sprintf("the insertion is also filtered by: %v", extra))
			}
		}
	}
	c.floor(rule, "insertions into the previous-output set", n, 1)
}

// rulePatternImportWalkComplete (C14): the import collector visits every part of a pattern that can mention a package.
// For each pattern kind it handles (a case of the type switch in CollectPatternImports), every field of that kind whose
// type is an expression, a list of expressions, a pattern or a list of patterns is read in the collector (a field that
// is not read is a sub-tree whose packages are neither imported nor re-aliased: the output does not compile).
func rulePatternImportWalkComplete(c *Ctx, rule string) {
	L := c.L
	fn := resolveRole(c, migPkg, "(*TypeConverter).CollectPatternImports")
	if fn == nil {
		c.undecided(rule, "CollectPatternImports", "function not found")
		return
	}
	read := map[string]bool{}
	for _, f := range family(L, fn) {
		for _, b := range f.Blocks {
			for _, in := range b.Instrs {
				if fa, ok := in.(*ssa.FieldAddr); ok {
					read[fieldKey(fa)] = true
				}
				if fv, ok := in.(*ssa.Field); ok {
					if st, isS := fv.X.Type().Underlying().(*types.Struct); isS {
						if n, isN := fv.X.Type().(*types.Named); isN && n.Obj().Pkg() != nil {
							read[strings.TrimPrefix(n.Obj().Pkg().Path()+"."+n.Obj().Name(), modPath+"/")+"."+st.Field(fv.Field).Name()] = true
						}
					}
				}
			}
		}
	}
	n := 0
	for _, b := range fn.Blocks {
		for _, in := range b.Instrs {
			ta, ok := in.(*ssa.TypeAssert)
			if !ok {
				continue
			}
			pt, isP := ta.AssertedType.(*types.Pointer)
			if !isP {
				continue
			}
			named, isN := pt.Elem().(*types.Named)
			if !isN || named.Obj().Pkg() == nil || named.Obj().Pkg().Path() != migPkg || !strings.HasPrefix(named.Obj().Name(), "Kessoku") {
				continue
			}
			st, isS := named.Underlying().(*types.Struct)
			if !isS {
				continue
			}
			for i := 0; i < st.NumFields(); i++ {
				ft := st.Field(i).Type().String()
				if ft != "go/ast.Expr" && ft != "[]go/ast.Expr" && !strings.HasSuffix(ft, migPkg+".KessokuPattern") {
					continue
				}
				n++
				key := "internal/migrate." + named.Obj().Name() + "." + st.Field(i).Name()
				c.check(read[key], rule, fnName(fn)+":visits:"+named.Obj().Name()+"."+st.Field(i).Name(), L.pos(ta.Pos()),
					"the import collector descends into every expression and sub-pattern of a "+named.Obj().Name(), "field "+st.Field(i).Name()+" ("+ft+") is not read by the collector")
			}
		}
	}
	if n == 0 {
		c.ok(rule, "CollectPatternImports does not dispatch on the pattern kinds by type assertion; rule not applied", "shape not recognised")
	}
}

// ruleVarDeclByName: the initialiser of a Set variable is the value at the position of THAT variable's name in its
// declaration (`var a, b = kessoku.Set(..), kessoku.Set(..)`): getVarDecl returns Values[i] only under an equality test
// between Names[i] (its Name or Pos) and the looked-up object, with the same index i. Returning the first value, or the
// value of the first name that merely precedes the object, resolves `b` to the providers of `a`.
func ruleVarDeclByName(c *Ctx, rule string) {
	L := c.L
	fn := resolveRole(c, genPkg, "(*Parser).getVarDecl")
	if fn == nil {
		c.undecided(rule, "getVarDecl", "function not found")
		return
	}
	n := 0
	for _, f := range family(L, fn) {
		for _, r := range returnsOf(f) {
			if len(r.Results) != 1 || isNilConst(r.Results[0]) || r.Results[0].Type().String() != "go/ast.Expr" {
				continue
			}
			u, ok := resolve(r.Results[0]).(*ssa.UnOp)
			if !ok || u.Op != token.MUL {
				continue
			}
			ia, ok := u.X.(*ssa.IndexAddr)
			if !ok {
				continue
			}
			s := newSym(L, map[string]bool{})
			s.maxD = 0
			if !strings.Contains(strings.Join(s.eval(ia.X), "|"), "go/ast.ValueSpec.Values(") {
				continue
			}
			n++
			okSel, why := false, "no equality test between the declared name at that index and the variable"
			// the index found by a library scan of the names: slices.IndexFunc(spec.Names, func(id) bool { return id.Name == obj.Name() })
			if call, isCall := resolve(ia.Index).(*ssa.Call); isCall && calleeOf(call.Common()) == "slices.IndexFunc" && len(call.Common().Args) == 2 {
				if strings.Contains(strings.Join(s.eval(call.Common().Args[0]), "|"), "go/ast.ValueSpec.Names(") {
					if mc, isMC := call.Common().Args[1].(*ssa.MakeClosure); isMC {
						cl := mc.Fn.(*ssa.Function)
						rs := returnsOf(cl)
						if len(rs) == 1 {
							if bo, isB := rs[0].Results[0].(*ssa.BinOp); isB && bo.Op == token.EQL {
								t1 := strings.Join(s.eval(bo.X), "|")
								t2 := strings.Join(s.eval(bo.Y), "|")
								if strings.Contains(t1+t2, "go/ast.Ident.Name(param:") {
									okSel, why = true, "index found by slices.IndexFunc over the names with an equality predicate"
								}
							}
						}
					}
				}
			}
			for _, iff := range controllingIfs(r) {
				bo, isB := iff.Cond.(*ssa.BinOp)
				if !isB || bo.Op != token.EQL || !(iff.Block().Succs[0] == r.Block() || iff.Block().Succs[0].Dominates(r.Block())) {
					continue
				}
				// one side: Names[i].Name / Names[i].Pos() with the index of the returned value; other side: derived from the object
				sideOf := func(v ssa.Value) (names bool, sameIdx bool, obj bool) {
					t := strings.Join(s.eval(v), "|")
					names = strings.Contains(t, "go/ast.ValueSpec.Names(")
					obj = strings.Contains(t, "param:") && !names
					var find func(x ssa.Value, d int)
					find = func(x ssa.Value, d int) {
						if d > 6 || x == nil {
							return
						}
						switch y := x.(type) {
						case *ssa.UnOp:
							find(y.X, d+1)
						case *ssa.FieldAddr:
							find(y.X, d+1)
						case *ssa.IndexAddr:
							if y.Index == ia.Index {
								sameIdx = true
							}
							find(y.X, d+1)
						case *ssa.Call:
							for _, a := range y.Common().Args {
								find(a, d+1)
							}
						}
					}
					find(v, 0)
					return
				}
				n1, i1, o1 := sideOf(bo.X)
				n2, i2, o2 := sideOf(bo.Y)
				if (n1 && i1 && o2) || (n2 && i2 && o1) {
					okSel, why = true, "returned under Names[i] == <object> with the same index"
				}
			}
			c.check(okSel, rule, fnName(fn)+":initialiser-of-the-named-variable", L.pos(r.Pos()),
				"a Set variable resolves to the value at the position of its own name in the declaration", why)
		}
	}
	c.floor(rule, "returns of a ValueSpec value in getVarDecl", n, 1)
}

// ruleLhsOnePerResult (C04): the left-hand side of a provider call has one place per result of the provider. Several
// provided types may share one parameter (a multi-type provider), so buildLhsExpressions lists every *InjectorParam* once -
// the guard that skips a repetition is keyed by the parameter itself, not by its printed name: results nobody consumes are
// all printed `_`, and a guard keyed by name would drop all but the first of them (`db, _, err :=` for four results).
func ruleLhsOnePerResult(c *Ctx, rule string) {
	L := c.L
	fn := genFn(c, rule, "(*InjectorProviderCallStmt).buildLhsExpressions")
	if fn == nil {
		return
	}
	n := 0
	for _, f := range family(L, fn) {
		for _, cs := range callsIn(f) {
			bi, ok := cs.common.Value.(*ssa.Builtin)
			if !ok || bi.Name() != "append" || len(cs.common.Args) != 2 || !strings.HasSuffix(cs.common.Args[0].Type().String(), "[]go/ast.Expr") {
				continue
			}
			n++
			var hdr *ssa.BasicBlock
			b := cs.instr.Block()
			for d := b.Idom(); d != nil; d = d.Idom() {
				isHeader := false
				for _, pr := range d.Preds {
					if d.Dominates(pr) {
						isHeader = true
					}
				}
				if isHeader && reachable(b, d) {
					hdr = d
					break
				}
			}
			if hdr == nil {
				continue
			}
			for d := b.Idom(); d != nil && d != hdr; d = d.Idom() {
				iff, isIf := d.Instrs[len(d.Instrs)-1].(*ssa.If)
				if !isIf {
					continue
				}
				// the guard: a lookup in a set of parameters
				okGuard, why := false, describe(iff.Cond)
				cond := iff.Cond
				if u, isU := cond.(*ssa.UnOp); isU && u.Op == token.NOT {
					cond = u.X
				}
				var lk *ssa.Lookup
				switch x := cond.(type) {
				case *ssa.Lookup:
					lk = x
				case *ssa.Extract:
					lk, _ = x.Tuple.(*ssa.Lookup)
				}
				if lk != nil {
					why = "a set keyed by " + lk.Index.Type().String()
					okGuard = strings.HasSuffix(lk.Index.Type().String(), genPkg+".InjectorParam")
				}
				c.check(okGuard, rule, fnName(fn)+":one-place-per-parameter", L.pos(iff.Cond.Pos()),
					"a result is left out of the left-hand side only when its very parameter is already listed (never because its printed name, e.g. `_`, repeats)", why)
			}
		}
	}
	if n == 0 {
		c.ok(rule, "buildLhsExpressions does not build the list by appends in a loop; rule not applied", "shape not recognised")
	}
}

// reachableWithout: can control get from block `from` to block `to` without passing through block `via`?
func reachableWithout(from, to, via *ssa.BasicBlock) bool {
	seen := map[*ssa.BasicBlock]bool{via: true}
	var walk func(b *ssa.BasicBlock) bool
	walk = func(b *ssa.BasicBlock) bool {
		if b == to {
			return true
		}
		if seen[b] {
			return false
		}
		seen[b] = true
		for _, s := range b.Succs {
			if walk(s) {
				return true
			}
		}
		return false
	}
	return walk(from)
}

// ruleWireImportByExactPath: a file's wire import is the import whose path IS "github.com/google/wire". Every return of
// FindWireImport that reports an import (a result other than "") lies on the true side of an equality test between a string
// and that constant - directly or in a one-result predicate of the package whose every return is such a test. A looser
// match (a suffix, a package name) makes an unrelated `.../wire` import of another package the "wire file": with a pattern
// over several packages the converter's home package is then the wrong one and the output imports its own package.
func ruleWireImportByExactPath(c *Ctx, rule string) {
	L := c.L
	fn := resolveRole(c, migPkg, "(*Parser).FindWireImport")
	if fn == nil {
		c.undecided(rule, "FindWireImport", "not found")
		return
	}
	c.seen(fnName(fn))
	const want = "github.com/google/wire"
	// exact: v decides "the path is the constant"; the second result tells on which value of v the two are equal
	var exact func(v ssa.Value, d int) (bool, bool)
	exact = func(v ssa.Value, d int) (bool, bool) {
		switch x := resolve(v).(type) {
		case *ssa.UnOp:
			if x.Op == token.NOT {
				ok, eq := exact(x.X, d)
				return ok, !eq
			}
		case *ssa.BinOp:
			if x.Op != token.EQL && x.Op != token.NEQ {
				return false, false
			}
			for _, side := range []ssa.Value{x.X, x.Y} {
				if k, ok := resolve(side).(*ssa.Const); ok && k.Value != nil && k.Value.Kind() == constant.String && constant.StringVal(k.Value) == want {
					return true, x.Op == token.EQL
				}
			}
		case *ssa.Call:
			h := x.Common().StaticCallee()
			if h == nil || h.Pkg != fn.Pkg || len(h.Blocks) == 0 || d >= 2 || h.Signature.Results().Len() != 1 {
				return false, false
			}
			rets := returnsOf(h)
			eqAll, first := false, true
			for _, r := range rets {
				ok, eq := exact(r.Results[0], d+1)
				if !ok || (!first && eq != eqAll) {
					return false, false
				}
				eqAll, first = eq, false
			}
			return len(rets) > 0, eqAll
		}
		return false, false
	}
	n := 0
	for _, r := range returnsOf(fn) {
		if len(r.Results) != 1 {
			continue
		}
		if k, isK := r.Results[0].(*ssa.Const); isK && k.Value != nil && k.Value.Kind() == constant.String && constant.StringVal(k.Value) == "" {
			continue
		}
		n++
		ok := false
		for _, iff := range controllingIfs(r) {
			isExact, eqOnTrue := exact(iff.Cond, 0)
			t, other := iff.Block().Succs[0], iff.Block().Succs[1]
			if !eqOnTrue {
				t, other = other, t
			}
			if isExact && (t == r.Block() || t.Dominates(r.Block())) && len(t.Preds) == 1 && !reachableWithout(other, r.Block(), iff.Block()) {
				ok = true
			}
		}
		c.check(ok, rule, fnName(fn)+":wire-import-by-exact-path", L.pos(r.Pos()),
			"an import is taken for the wire import only when its path equals \"github.com/google/wire\" (not a suffix or a package name: another package's `.../wire` import would make it the wire package of a multi-package run)", "the return reporting an import is not on the true side of an equality test with the constant path")
	}
	c.floor(rule, "returns of FindWireImport that report an import", n, 1)
}

// ruleRootPerMode: ResolvePath consults the home directory only for a user-level installation and the working directory
// only for a project-level one. Asking for both up front makes each mode fail on the other's root (no $HOME in a container,
// a removed working directory) although the documented destination is perfectly determined. Decided with the truth table
// of the way to each os.UserHomeDir / os.Getwd call (or to the call of the package helper that makes it) over ResolvePath's
// flag parameter.
func ruleRootPerMode(c *Ctx, rule string) {
	L := c.L
	fn := resolveRole(c, llmPkg, "ResolvePath")
	if fn == nil {
		c.undecided(rule, "ResolvePath", "not found")
		return
	}
	c.seen(fnName(fn))
	flag := ""
	for _, p := range fn.Params {
		if p.Type().String() == "bool" {
			flag = "param:" + p.Name()
		}
	}
	// which root calls can a call site of ResolvePath lead to (through helpers of the package, two levels)
	var rootsOf func(f *ssa.Function, d int) map[string]bool
	rootsOf = func(f *ssa.Function, d int) map[string]bool {
		out := map[string]bool{}
		for _, cs := range callsIn(f) {
			if cs.callee == "os.UserHomeDir" || cs.callee == "os.Getwd" {
				out[cs.callee] = true
			}
			if h := cs.common.StaticCallee(); h != nil && h.Pkg == f.Pkg && len(h.Blocks) > 0 && d < 2 {
				for k := range rootsOf(h, d+1) {
					out[k] = true
				}
			}
		}
		return out
	}
	n := 0
	for _, cs := range callsIn(fn) {
		roots := map[string]bool{}
		if cs.callee == "os.UserHomeDir" || cs.callee == "os.Getwd" {
			roots[cs.callee] = true
		} else if h := cs.common.StaticCallee(); h != nil && h.Pkg == fn.Pkg && len(h.Blocks) > 0 {
			roots = rootsOf(h, 0)
		}
		for _, root := range []string{"os.UserHomeDir", "os.Getwd"} {
			if !roots[root] {
				continue
			}
			n++
			rows, ids, err := truthTable(L, fn.Blocks[0], cs.instr, nil)
			if err != "" {
				c.undecided(rule, "ResolvePath:table", err)
				continue
			}
			has := false
			for _, id := range ids {
				if id == flag {
					has = true
				}
			}
			wantUser := root == "os.UserHomeDir"
			bad := ""
			for _, row := range rows {
				if row.reached && has && row.atoms[flag].b != wantUser {
					bad = rowString(row, ids)
				}
			}
			what := "the working directory is consulted only for a project-level installation"
			if wantUser {
				what = "the home directory is consulted only for a user-level installation"
			}
			c.check(flag != "" && has && bad == "", rule, "ResolvePath:"+root+":only-in-its-mode", L.pos(cs.instr.Pos()), what,
				fmt.Sprintf("flag atom %q decides the way to the call: %v; counterexample: %s", flag, has, bad))
		}
	}
	c.floor(rule, "ways from ResolvePath to os.UserHomeDir / os.Getwd", n, 2)
}

// ruleNoExitBypassesClose: when the injector has goroutines, a provider-call statement always ends with the statement that
// closes the done-channels of its results: no return of (*InjectorProviderCallStmt).Stmt can be reached on the "has chains"
// side of the flag without passing the call that builds the close statement. A shortcut that emits nothing for some kind of
// provider ("a constant needs no statement") also drops its close, while the variable specs still make the channel and the
// consumers in other goroutines still wait for it. Paths are walked with the flag held true (an `if flag` met again is
// followed on its true side only).
func ruleNoExitBypassesClose(c *Ctx, rule string) {
	L := c.L
	fn := genFn(c, rule, "(*InjectorProviderCallStmt).Stmt")
	closeFn := resolveRole(c, genPkg, "(*InjectorProviderCallStmt).generateChannelCloseStatement")
	if fn == nil || closeFn == nil {
		return
	}
	var closeCall ssa.Instruction
	for _, cs := range callsIn(fn) {
		if calleeIsFn2(cs, closeFn) {
			closeCall = cs.instr
		}
	}
	if closeCall == nil {
		c.ok(rule, "InjectorProviderCallStmt.Stmt: the close statement is not built by a direct call here; rule not applied", "shape not recognised")
		return
	}
	// the flag: the condition on whose true side the close statement is built
	var flag ssa.Value
	for _, iff := range controllingIfs(closeCall) {
		t := iff.Block().Succs[0]
		if t == closeCall.Block() || t.Dominates(closeCall.Block()) {
			flag = iff.Cond
		}
		break
	}
	if flag == nil {
		c.ok(rule, "InjectorProviderCallStmt.Stmt: the close statement is built unconditionally", "no guard")
		return
	}
	n := 0
	for _, b := range fn.Blocks {
		iff, ok := b.Instrs[len(b.Instrs)-1].(*ssa.If)
		if !ok || iff.Cond != flag {
			continue
		}
		// walk from the true side
		seen := map[*ssa.BasicBlock]bool{}
		var bad *ssa.Return
		var walk func(x *ssa.BasicBlock)
		walk = func(x *ssa.BasicBlock) {
			if seen[x] || bad != nil {
				return
			}
			seen[x] = true
			if x == closeCall.Block() {
				return
			}
			for _, in := range x.Instrs {
				if r, isR := in.(*ssa.Return); isR {
					bad = r
					return
				}
			}
			if i2, isIf := x.Instrs[len(x.Instrs)-1].(*ssa.If); isIf && i2.Cond == flag {
				walk(x.Succs[0])
				return
			}
			for _, sx := range x.Succs {
				walk(sx)
			}
		}
		walk(b.Succs[0])
		n++
		pos := L.pos(iff.Pos())
		why := "every way from the true side to a return passes the call that builds the close statement"
		if bad != nil {
			pos, why = L.pos(bad.Pos()), "a return is reached with goroutines present without the close statement"
		}
		c.check(bad == nil, rule, fnName(fn)+":no-exit-bypasses-close", pos, "with goroutines in the injector every exit of a provider-call statement passes the construction of its close statement", why)
	}
	c.floor(rule, "tests of the has-chains flag in InjectorProviderCallStmt.Stmt", n, 1)
}

// rulePackagesNotComparedByName: two packages are the same package when they are the same *types.Package (or have the same
// path) - never because their names agree. The migration decides "this type belongs to the output package, print it bare"
// by such a comparison; by name, a type of another package that happens to be called like the output package loses its
// qualifier (`undefined: Source`).
func rulePackagesNotComparedByName(c *Ctx, rule string, pkgs ...string) {
	L := c.L
	n := 0
	isPkgName := func(v ssa.Value) bool {
		call, ok := resolve(v).(*ssa.Call)
		return ok && calleeOf(call.Common()) == "(*go/types.Package).Name"
	}
	for _, fn := range pkgFuncs(L, pkgs...) {
		for _, b := range fn.Blocks {
			for _, in := range b.Instrs {
				bo, ok := in.(*ssa.BinOp)
				if !ok || (bo.Op != token.EQL && bo.Op != token.NEQ) || bo.X.Type().String() != "string" {
					continue
				}
				if isPkgName(bo.X) || isPkgName(bo.Y) {
					n++
				}
				c.check(!(isPkgName(bo.X) && isPkgName(bo.Y)), rule, fnName(fn)+":packages-compared-by-name", L.pos(bo.Pos()),
					"package identity is decided by the package object or its path, not by its name", "comparison of two (*types.Package).Name() results")
			}
		}
	}
	c.ok(rule, "no two packages are compared by name", fmt.Sprintf("%d comparisons involving a package name inspected", n))
}

// ruleDestinationNotInspected (C15/C16): what gets installed, and whether, does not depend on what is already in the
// destination: besides the one validation of the base path (ValidatePath: it must not be a regular file) the installer
// never reads the state of the file system - no Stat/Lstat/ReadDir/ReadFile/Open/Readlink/Glob/Walk on operating-system
// paths. A decision taken from the destination's content ("already up to date", "not our directory") makes the result
// depend on the history of earlier, possibly interrupted, runs.
func ruleDestinationNotInspected(c *Ctx, rule string) {
	L := c.L
	vp := L.fn(llmPkg, "ValidatePath")
	n := 0
	for _, fn := range llmFuncs(L) {
		for _, cs := range callsIn(fn) {
			switch cs.callee {
			case "os.Stat", "os.Lstat", "os.ReadDir", "os.ReadFile", "os.Open", "os.Readlink", "path/filepath.Glob", "path/filepath.Walk", "path/filepath.WalkDir", "path/filepath.EvalSymlinks":
			default:
				continue
			}
			n++
			root := fn
			for root.Parent() != nil {
				root = root.Parent()
			}
			c.check(vp != nil && root == vp, rule, fnName(fn)+":reads-destination-state:"+cs.callee, L.pos(cs.instr.Pos()),
				"the installer reads the file system only to validate the base path; nothing else it does depends on what the destination already holds", cs.callee+" outside ValidatePath")
		}
	}
	c.floor(rule, "file-system reads in internal/llmsetup", n, 1)
}

// ruleEmptyPoolForAsyncOnly: findOptimalPool opens a new lane (returns the index of an empty pool) only for a provider that
// is itself Async - the test in front of the scan for an empty pool is the node's IsAsync flag and nothing else. A
// synchronous provider whose inputs sit in several lanes stays behind one of them; given a lane of its own it turns the
// single caller lane the rest of the scheduling assumes into two sync-headed lanes.
func ruleEmptyPoolForAsyncOnly(c *Ctx, rule string) {
	L := c.L
	fn := genFn(c, rule, "(*Graph).findOptimalPool")
	if fn == nil {
		return
	}
	n := 0
	for _, f := range family(L, fn) {
		for _, r := range returnsOf(f) {
			if len(r.Results) != 1 || !isRangeIndex(r.Results[0]) {
				continue
			}
			// under a test that the pool at that index is empty
			emptyTest := false
			var asyncIfs []*ssa.If
			for _, iff := range controllingIfs(r) {
				s := newSym(L, map[string]bool{})
				s.maxD = 0
				t := strings.Join(s.eval(iff.Cond), "|")
				if strings.HasPrefix(t, "bin==(builtin len(index(param:") && strings.HasSuffix(t, ", 0)") {
					emptyTest = true
					continue
				}
				if strings.Contains(t, "ProviderSpec.IsAsync(") || strings.Contains(t, "true|") || strings.Contains(t, "|true") {
					asyncIfs = append(asyncIfs, iff)
				}
			}
			if !emptyTest {
				continue
			}
			n++
			ok, why := false, "no IsAsync test in front of the scan for an empty pool"
			for _, iff := range asyncIfs {
				u, isU := iff.Cond.(*ssa.UnOp)
				if isU && u.Op == token.MUL {
					if fa, isF := u.X.(*ssa.FieldAddr); isF && fieldKey(fa) == "internal/kessoku.ProviderSpec.IsAsync" && (iff.Block().Succs[0] == r.Block() || iff.Block().Succs[0].Dominates(r.Block())) {
						// and the scan is entered from that test only (`IsAsync || something` enters it from a second block)
						entry := iff.Block().Succs[0]
						only := true
						for _, pr := range entry.Preds {
							if pr != iff.Block() && !entry.Dominates(pr) {
								only = false
							}
						}
						if only {
							ok, why = true, "guarded by the node's IsAsync flag alone"
						} else {
							ok, why = false, "the scan for an empty pool is also entered when the IsAsync test fails (a disjunction)"
							break
						}
						continue
					}
				}
				s := newSym(L, map[string]bool{})
				s.maxD = 0
				ok, why = false, "the scan for an empty pool is entered under "+strings.Join(s.eval(iff.Cond), "|")
				break
			}
			c.check(ok, rule, fnName(fn)+":new-lane-for-async-only", L.pos(r.Pos()), "an empty pool is handed out only to a provider that is itself Async", why)
		}
	}
	if n == 0 {
		c.ok(rule, "findOptimalPool: the scan for an empty pool is not written as a loop returning the index of a pool with len == 0; rule not applied", "shape not recognised")
	}
}
