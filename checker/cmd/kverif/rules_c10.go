package main

import (
	"fmt"
	"go/token"
	"regexp"
	"strings"

	"golang.org/x/tools/go/ssa"
)

func init() {
	register(&propDef{
		id: "C10", withTestdata: true,
		run: runC10,
		explanation: "Signature rules decided on the generator's source for every declaration: (1) the Async and error flags that shape the signature are read only from providers of scheduled graph nodes, never from the declaration's full provider list (value-origin of every read of ProviderSpec.IsAsync / IsReturnError outside the parser); (2) in injectContextArg every path that leaves the argument list changed ends with `Args = append([ctx], Args...)`, and the function only skips the injection when no scheduled provider is Async; (3) an argument node is created only on the not-found edge of both the supplier-map and the argument-map lookup of the same path-qualified key and is recorded under that key; " +
			"(4) generateInjectorDecl emits one parameter per element of injector.Args in order (name from the allocator, type = the argument's type expression), the requested type's expression as first result and `error` exactly under IsReturnError, and the function name is the declared name through a copy-only chain. CO: the signatures of the 36 checked-in injectors have the context first whenever they spawn goroutines or contain an Async call, `error` last iff a fallible call exists, and no parameter type twice.",
		notDecided:  "argument discovery (which types are unsupplied) for unseen DAGs follows from NewGraph's breadth-first expansion, whose completeness is not proved; alias types are keyed by their printed name.",
		assumptions: []string{"go/ssa value flow; generator structs are not mutated through reflection"},
	})
}

func inParserFile(L *Loaded, fn *ssa.Function) bool {
	return strings.HasSuffix(L.Fset.Position(fn.Pos()).Filename, "/parser.go")
}

func runC10(c *Ctx) {
	L := c.L
	L.buildSSA()
	gen := pkgFuncs(L, genPkg)
	// the error result exists whenever a scheduled provider is fallible (the flag is set per scheduled node in Build, not
	// derived from a narrower walk), and the handler table follows that flag
	ruleHandlerNeverNil(c, "C10.9")
	ruleChanDirMapping(c, "C10.10", genPkg)
	ruleContextInjectedOnEveryPath(c, "C10.11")
	ruleVarDeclByName(c, "C10.12")

	// ---- C10.1 needed-only provenance
	n := 0
	for _, fn := range gen {
		if inParserFile(L, fn) {
			continue
		}
		for _, b := range fn.Blocks {
			for _, in := range b.Instrs {
				u, ok := in.(*ssa.UnOp)
				if !ok || u.Op != token.MUL {
					continue
				}
				fa, ok := u.X.(*ssa.FieldAddr)
				if !ok {
					continue
				}
				k := fieldKey(fa)
				if k != "internal/kessoku.ProviderSpec.IsAsync" && k != "internal/kessoku.ProviderSpec.IsReturnError" {
					continue
				}
				n++
				c.seen(fnName(fn))
				s := newSym(L, map[string]bool{})
				s.maxD = 0
				base := strings.Join(liftParams(L, gen, fn, s.eval(fa.X)), " | ")
				fromNode := strings.Contains(base, "internal/kessoku.node.providerSpec(") || strings.Contains(base, "InjectorProviderCallStmt.Provider(")
				fromDecl := strings.Contains(base, "BuildDirective.Providers(")
				c.check(fromNode && !fromDecl, "C10.1", fnName(fn)+":"+strings.TrimPrefix(k, "internal/kessoku."), L.pos(u.Pos()),
					fnName(fn)+": "+strings.TrimPrefix(k, "internal/kessoku.ProviderSpec.")+" is read from a scheduled node's provider (needed providers only)", "base value: "+base)
			}
		}
	}
	c.floor("C10.1", "reads of ProviderSpec.IsAsync / IsReturnError outside the parser", n, 8)
	// statements carry the node's provider
	for _, st := range storesToField(gen, "internal/kessoku.InjectorProviderCallStmt.Provider") {
		s := newSym(L, map[string]bool{})
		s.maxD = 0
		t := strings.Join(s.eval(st.Val), " | ")
		c.check(strings.HasPrefix(t, "field:internal/kessoku.node.providerSpec("), "C10.1", fnName(st.Parent())+":InjectorProviderCallStmt.Provider", L.pos(st.Pos()), "a call statement's provider is its node's provider", t)
	}
	// flags of the injector itself
	for _, st := range storesToField(gen, "internal/kessoku.Injector.IsReturnError") {
		s := newSym(L, map[string]bool{})
		s.maxD = 0
		t := strings.Join(s.eval(st.Val), " | ")
		ok := t == "true" || strings.Contains(t, "Graph).isReturnError(")
		// flag = flag || node.providerSpec.IsReturnError: the terms are `true` (flag already set) and the node's flag
		if !ok {
			ok = true
			seenNode := false
			for _, part := range strings.Split(t, " | ") {
				switch {
				case part == "true":
				case strings.HasPrefix(part, "field:internal/kessoku.ProviderSpec.IsReturnError(field:internal/kessoku.node.providerSpec("):
					seenNode = true
				default:
					ok = false
				}
			}
			ok = ok && seenNode
		}
		c.check(ok, "C10.1", fnName(st.Parent())+":Injector.IsReturnError", L.pos(st.Pos()), "the injector's error flag is set from scheduled nodes only", t)
	}
	// Graph fields other than the known ones must not cache declaration-wide flags
	for _, fn := range gen {
		for _, b := range fn.Blocks {
			for _, in := range b.Instrs {
				st, ok := in.(*ssa.Store)
				if !ok {
					continue
				}
				fa, ok := st.Addr.(*ssa.FieldAddr)
				if !ok || !strings.HasPrefix(fieldKey(fa), "internal/kessoku.Graph.") {
					continue
				}
				if types_isBool(st.Val) {
					s := newSym(L, map[string]bool{})
					s.maxD = 0
					t := strings.Join(s.eval(st.Val), " | ")
					if strings.Contains(t, "BuildDirective.Providers(") {
						c.fail("C10.1", fnName(fn)+":"+fieldKey(fa), L.pos(st.Pos()), "a graph-level flag is computed from the declaration's full provider list (unused providers would shape the signature)", t)
					}
				}
			}
		}
	}

	ruleContextFirst(c, "C10.2")

	ruleContextThreaded(c, "C10.2")

	// ---- C10.3 one parameter per unsupplied type
	if ng := genFn(c, "C10.3", "NewGraph"); ng != nil {
		nIns := 0
		for _, f2 := range withClosures(ng) {
			for _, b := range f2.Blocks {
				for _, in := range b.Instrs {
					mu, ok := in.(*ssa.MapUpdate)
					if !ok || mu.Map.Type().String() != "map[string]*"+genPkg+".node" {
						continue
					}
					nIns++
					// not-found edges of lookups with the same key
					guards := 0
					for _, b2 := range f2.Blocks {
						for _, in2 := range b2.Instrs {
							lk, ok := in2.(*ssa.Lookup)
							if !ok || !lk.CommaOk || lk.Index != mu.Key {
								continue
							}
							for _, t := range okTestsOf(lk) {
								if t.notFound == b || t.notFound.Dominates(b) {
									guards++
								}
							}
						}
					}
					c.check(guards >= 2, "C10.3", fnName(f2)+":argument-node-insert", L.pos(mu.Pos()),
						"an argument node is created only when neither a provider nor an earlier argument supplies the type (not-found edges of both lookups of the same key)", fmt.Sprintf("%d guarding lookups of the inserted key", guards))
					// the created node goes through autoAddMissingDependencies for that very type
					s := newSym(L, map[string]bool{})
					s.maxD = 0
					t := strings.Join(s.eval(mu.Value), "|")
					c.check(strings.Contains(t, "autoAddMissingDependencies#0("), "C10.3", fnName(f2)+":argument-node-origin", L.pos(mu.Pos()), "the recorded argument node is the one created for the missing type", t)
				}
			}
		}
		c.floor("C10.3", "argument-map inserts", nIns, 1)
		ruleArgumentTypeAsRequired(c, "C10.3")
	}

	ruleArgumentOnlyWhenUnsupplied(c, "C10.3")
	ruleRequestedTypeIsPrinted(c, "C10.4")
	ruleProviderTypeResultsFresh(c, "C10.7")
	ruleBindAppendsInterface(c, "C10.8")
	ruleResolutionAfterRegistration(c, "C10.3")
	// suppliers and requirements meet under one key (otherwise a supplied type becomes a parameter)
	c09SupplierMap(c, "C10.3")
	ruleIsContextType(c, "C10.6")
	ruleTypeIdentity(c, "C10.6", genPkg)

	// ---- C10.4 emission
	c10Emission(c)

	// ---- C10.5 signatures of the checked-in outputs
	coRun(c, "C10.5", coSignature)
}

func types_isBool(v ssa.Value) bool {
	return v.Type().Underlying().String() == "bool"
}

func c10Emission(c *Ctx) {
	L := c.L
	fn := genFn(c, "C10.4", "generateInjectorDecl")
	if fn == nil {
		return
	}
	declFn := fn
	// the signature may be built by a private helper of generateInjectorDecl: the rules follow the parameter fields
	for _, f2 := range family(L, fn) {
		if f2.Parent() != nil || f2 == fn {
			continue
		}
		for _, b := range f2.Blocks {
			for _, in := range b.Instrs {
				if al, ok := in.(*ssa.Alloc); ok {
					if nm, _ := isAstNodeType(al.Type()); nm == "Field" {
						s := newSym(L, map[string]bool{})
						s.maxD = 0
						for _, st := range storesInto(al) {
							if fa, ok := st.Addr.(*ssa.FieldAddr); ok && fieldKey(fa) == "go/ast.Field.Names" {
								fn = f2
							}
						}
					}
				}
			}
		}
	}
	c.seen(fnName(fn))
	ruleNoEarlyExitFn(c, "C10.4", fn)
	// parameter fields
	okParam := false
	var why []string
	for _, b := range fn.Blocks {
		for _, in := range b.Instrs {
			al, ok := in.(*ssa.Alloc)
			if !ok {
				continue
			}
			if nm, _ := isAstNodeType(al.Type()); nm != "Field" {
				continue
			}
			fields := map[string]string{}
			for _, r := range *al.Referrers() {
				fa, ok := r.(*ssa.FieldAddr)
				if !ok {
					continue
				}
				for _, rr := range *fa.Referrers() {
					if st, ok := rr.(*ssa.Store); ok && st.Addr == fa {
						s := newSym(L, map[string]bool{})
						s.maxD = 0
						fields[fieldKey(fa)] = strings.Join(s.eval(st.Val), "|")
					}
				}
			}
			names, typ := fields["go/ast.Field.Names"], fields["go/ast.Field.Type"]
			if names == "" {
				continue // result fields have no names
			}
			why = append(why, "Names="+names+" Type="+typ)
			elem := "index(field:internal/kessoku.Injector.Args(param:injector))"
			if strings.Contains(names, "go/ast.NewIdent((*"+genPkg+".InjectorParam).Name(field:internal/kessoku.InjectorArgument.Param("+elem+")") &&
				typ == "field:internal/kessoku.InjectorArgument.ASTTypeExpr("+elem+")" {
				okParam = true
			}
		}
	}
	c.check(okParam, "C10.4", "generateInjectorDecl:parameter-field", L.pos(fn.Pos()), "each parameter is <allocated name of injector.Args[i].Param> <injector.Args[i].ASTTypeExpr>, for every i in order", strings.Join(why, " ; "))

	// results: error field exactly under IsReturnError; first result is the requested type's expression
	// (the results may be built in the declaration function itself while the parameters come from a helper, or vice versa)
	resFn := fn
	for _, cand := range append([]*ssa.Function{declFn}, family(L, declFn)...) {
		if cand.Parent() != nil {
			continue
		}
		for _, a := range appendsIn(L, cand) {
			if elems, ok := variadicElems(a.call.Common().Args[1]); ok && len(elems) == 1 {
				if al, ok := resolve(elems[0]).(*ssa.Alloc); ok {
					if nm, _ := isAstNodeType(al.Type()); nm == "Field" {
						sx := newSym(L, map[string]bool{})
						sx.maxD = 0
						for _, st := range storesInto(al) {
							if fa, ok := st.Addr.(*ssa.FieldAddr); ok && fieldKey(fa) == "go/ast.Field.Type" && strings.Contains(strings.Join(sx.eval(st.Val), "|"), "Return.ASTTypeExpr(") {
								resFn = cand
							}
						}
					}
				}
			}
		}
	}
	fn = resFn
	c.seen(fnName(fn))
	var errAppend, retAppend *ssa.Call
	for _, a := range appendsIn(L, fn) {
		elems, ok := variadicElems(a.call.Common().Args[1])
		if !ok || len(elems) != 1 {
			continue
		}
		al, ok := resolve(elems[0]).(*ssa.Alloc)
		if !ok {
			continue
		}
		if nm, _ := isAstNodeType(al.Type()); nm != "Field" {
			continue
		}
		s := newSym(L, map[string]bool{})
		s.maxD = 0
		for _, r := range *al.Referrers() {
			if fa, ok := r.(*ssa.FieldAddr); ok && fieldKey(fa) == "go/ast.Field.Type" {
				for _, rr := range *fa.Referrers() {
					if st, ok := rr.(*ssa.Store); ok && st.Addr == fa {
						t := strings.Join(s.eval(st.Val), "|")
						if strings.Contains(t, "Return.ASTTypeExpr(") {
							retAppend = a.call
						}
						if ial, ok := resolve(st.Val).(*ssa.Alloc); ok {
							for _, r2 := range *ial.Referrers() {
								if fa2, ok := r2.(*ssa.FieldAddr); ok && fieldKey(fa2) == "go/ast.Ident.Name" {
									for _, r3 := range *fa2.Referrers() {
										if st2, ok := r3.(*ssa.Store); ok {
											if n, ok := constString(st2.Val); ok && n == "error" {
												errAppend = a.call
											}
										}
									}
								}
							}
						}
					}
				}
			}
		}
	}
	if errAppend == nil || retAppend == nil {
		c.undecided("C10.4", "generateInjectorDecl:results", "cannot identify the result fields (requested type, error)")
	} else {
		c.check(strictlyBefore(retAppend, errAppend), "C10.4", "generateInjectorDecl:result-order", L.pos(errAppend.Pos()), "the requested type precedes `error` in the result list", "append order")
		okIff, why := false, "no controlling test"
		if ifs := controllingIfs(errAppend); len(ifs) > 0 {
			s := newSym(L, map[string]bool{})
			s.maxD = 0
			t := strings.Join(s.eval(ifs[0].Cond), "|")
			why = "nearest controlling condition: " + t
			always := true
			for _, r := range returnsOf(fn) {
				if returnsNilError(r) && !(ifs[0].Block() == r.Block() || ifs[0].Block().Dominates(r.Block())) {
					always = false
				}
			}
			okIff = t == "field:internal/kessoku.Injector.IsReturnError(param:injector)" && ifs[0].Block().Succs[0] == errAppend.Block() && always
		}
		c.check(okIff, "C10.4", "generateInjectorDecl:error-result-iff-flag", L.pos(errAppend.Pos()), "`error` is a result exactly when injector.IsReturnError (the test is on every path and directly guards the field)", why)
	}
	// name copy chain
	chain := []struct{ field, want string }{
		{"internal/kessoku.Injector.Name", "field:internal/kessoku.Graph.injectorName("},
		{"internal/kessoku.Graph.injectorName", "field:internal/kessoku.BuildDirective.InjectorName("},
		{"internal/kessoku.BuildDirective.InjectorName", "go/constant.StringVal("},
	}
	for _, ch := range chain {
		sts := storesToField(pkgFuncs(L, genPkg), ch.field)
		ok := len(sts) >= 1
		var ts []string
		for _, st := range sts {
			s := newSym(L, map[string]bool{})
			s.maxD = 0
			t := strings.Join(s.eval(st.Val), "|")
			if !strings.HasPrefix(t, ch.want) {
				// the value handed back by a private helper (injectorNameOf): what the helper returns on its success path; its
				// failing returns yield the empty string, which the caller discards together with the error
				s2 := newSym(L, map[string]bool{})
				s2.maxD = 2
				okAll, some := true, false
				for _, t2 := range s2.eval(st.Val) {
					switch {
					case strings.HasPrefix(t2, ch.want):
						some = true
					case t2 == `""`:
					default:
						okAll = false
					}
				}
				if okAll && some {
					t = ch.want + "...) [through a helper]"
				}
			}
			ts = append(ts, t)
			if !strings.HasPrefix(t, ch.want) {
				ok = false
			}
		}
		c.check(ok, "C10.4", "name-chain:"+ch.field, "-", "the injector's name is copied unchanged ("+ch.field+")", strings.Join(ts, " ; "))
	}
	// FuncDecl.Name
	p := L.Pkgs[genPkg]
	okName := false
	for _, u := range collectIdentUses(L, p, collectTemplates(p)) {
		if u.site.kind == "FuncDecl" && u.slot == "Name" {
			okName = len(u.class) == 1 && u.class[0] == "user:injector"
		}
	}
	c.check(okName, "C10.4", "generateInjectorDecl:FuncDecl.Name", "-", "the emitted function is named injector.Name", "identifier origin user:injector")
}

// coSignature (C10.5): signature shape of each checked-in injector against what its body shows.
func coSignature(c *Ctx, rule string, f *coFunc, g *coGraph) {
	hasAsync, fallible := false, false
	for _, th := range f.threads {
		for _, st := range th.steps {
			if st.kind == kCall && st.isAsync {
				hasAsync = true
			}
			if st.kind == kCall && st.errVar != "" {
				fallible = true
			}
		}
	}
	params := f.decl.Type.Params
	seen := map[string]bool{}
	first := ""
	nCtx := 0
	if params != nil {
		for i, fl := range params.List {
			t := render(fl.Type)
			for range fl.Names {
				if seen[t] {
					c.fail(rule, "co:"+f.key()+":duplicate-parameter-type:"+t, f.file, "two parameters of type "+t)
				}
				seen[t] = true
				if i == 0 && first == "" {
					first = t
				}
				if strings.HasSuffix(t, "context.Context") || t == "context.Context" {
					nCtx++
				}
			}
		}
	}
	if hasAsync || len(f.threads) > 1 {
		if !strings.HasSuffix(first, ".Context") {
			c.fail(rule, "co:"+f.key()+":context-not-first", f.file, "an injector with Async providers does not take context.Context as its first parameter (first is "+first+")")
		}
	}
	if nCtx > 1 {
		c.fail(rule, "co:"+f.key()+":two-contexts", f.file, "context.Context appears twice")
	}
	if fallible != f.hasErr {
		c.fail(rule, "co:"+f.key()+":error-result", f.file, fmt.Sprintf("fallible provider calls: %v, error result: %v", fallible, f.hasErr))
	}
	// every parameter is used by a call (an unused parameter is not an unsupplied type of a needed provider), except the context
	used := map[string]bool{}
	for _, th := range f.threads {
		for _, st := range th.steps {
			for _, r := range st.reads {
				used[r] = true
			}
			if st.kind == kReturn {
				for _, r := range st.retVals {
					used[r] = true
				}
			}
		}
	}
	for pn := range f.params {
		if !used[pn] && pn != "_" {
			isCtx := false
			for _, fl := range params.List {
				for _, nm := range fl.Names {
					if nm.Name == pn && strings.HasSuffix(render(fl.Type), ".Context") {
						isCtx = true
					}
				}
			}
			if !isCtx {
				c.fail(rule, "co:"+f.key()+":unused-parameter:"+pn, f.file, "parameter "+pn+" is not passed to any provider")
			}
		}
	}
	c.ok(rule, fmt.Sprintf("%s: signature agrees with its body (async=%v, fallible=%v, %d parameters)", f.key(), hasAsync, fallible, len(f.params)), fmt.Sprintf("first parameter %q", first))
}

var argsOfInjectorParam = regexp.MustCompile(`, field:internal/kessoku\.Injector\.Args\(param:[A-Za-z_0-9]+\)\)$`)

// injectorHelpers returns fn plus the module functions it statically calls (to the given depth) that receive a *Injector.
func injectorHelpers(fn *ssa.Function, depth int) []*ssa.Function {
	out := []*ssa.Function{fn}
	seen := map[*ssa.Function]bool{fn: true}
	frontier := []*ssa.Function{fn}
	for d := 0; d < depth; d++ {
		var next []*ssa.Function
		for _, f := range frontier {
			for _, w := range withClosures(f) {
				for _, cs := range callsIn(w) {
					cal := cs.common.StaticCallee()
					if cal == nil || seen[cal] || cal.Pkg == nil || fn.Pkg == nil || cal.Pkg != fn.Pkg || len(cal.Blocks) == 0 {
						continue
					}
					takes := false
					for _, p := range cal.Params {
						if strings.HasSuffix(p.Type().String(), "internal/kessoku.Injector") {
							takes = true
						}
					}
					if takes {
						seen[cal] = true
						out = append(out, cal)
						next = append(next, cal)
					}
				}
			}
		}
		frontier = next
	}
	return out
}

// ruleArgumentTypeAsRequired: the parameter is declared with the type the provider asks for - as written (an alias stays the
// alias: its target may be unexported or internal to another module), not a normalised form of it.
func ruleArgumentTypeAsRequired(c *Ctx, rule string) {
	L := c.L
	ng := genFn(c, rule, "NewGraph")
	if ng == nil {
		return
	}
	nArg := 0
	for _, f2 := range family(L, ng) {
		for _, cs := range callsIn(f2) {
			if !calleeIs(c, cs, genPkg, "autoAddMissingDependencies") {
				continue
			}
			for _, a := range cs.common.Args {
				if a.Type().String() != "go/types.Type" {
					continue
				}
				nArg++
				s := newSym(L, map[string]bool{})
				s.maxD = 0
				t := strings.Join(s.eval(a), "|")
				c.check(strings.HasPrefix(t, "index(field:internal/kessoku.ProviderSpec.Requires(") || strings.HasPrefix(t, "field:internal/kessoku.Return.Type(field:internal/kessoku.BuildDirective.Return("), rule, fnName(f2)+":argument-type-as-required", L.pos(cs.instr.Pos()),
					"an injector parameter gets exactly the type the needed provider requires (the element of its Requires list, untransformed)", t)
			}
		}
	}
	c.floor(rule, "types handed to the argument constructor", nArg, 1)
}

// ruleContextFirst (C10.2): injectContextArg leaves the context as the first argument on every path that changes the list.
func ruleContextFirst(c *Ctx, rule string) {
	L := c.L
	L.buildSSA()
	gen := pkgFuncs(L, genPkg)
	_ = gen
	if ica := genFn(c, rule, "(*Graph).injectContextArg"); ica != nil {
		// helpers that injectContextArg hands the injector to are part of the same rule (their stores change the same list)
		icaFns := injectorHelpers(ica, 2)
		stores := storesToField(icaFns, "internal/kessoku.Injector.Args")
		isPrepend := func(st *ssa.Store) (bool, string) {
			// slices.Insert(injector.Args, 0, one element)
			if call, ok := st.Val.(*ssa.Call); ok {
				if cal := call.Common().StaticCallee(); cal != nil && len(call.Common().Args) == 3 {
					if o := originOf(cal); o.Pkg != nil && o.Pkg.Pkg.Path() == "slices" && o.Name() == "Insert" {
						args := call.Common().Args
						k, isC := constInt(args[1])
						elems, okE := variadicElems(resolve(args[2]))
						ld, isL := resolve(args[0]).(*ssa.UnOp)
						if isC && k == 0 && okE && len(elems) == 1 && isL && ld.Op == token.MUL {
							if fa, isF := ld.X.(*ssa.FieldAddr); isF && fieldKey(fa) == "internal/kessoku.Injector.Args" {
								return true, "slices.Insert(injector.Args, 0, " + describe(elems[0]) + ")"
							}
						}
					}
				}
			}
			s := newSym(L, map[string]bool{})
			s.maxD = 0
			ts := s.eval(st.Val)
			for _, t := range ts {
				if !strings.HasPrefix(t, "builtin append(list(") || !argsOfInjectorParam.MatchString(t) {
					return false, strings.Join(ts, " | ")
				}
				// exactly one element in the literal
				inner := strings.TrimPrefix(t, "builtin append(list(")
				depth, elems := 0, 1
				for _, r := range inner {
					if r == '(' {
						depth++
					}
					if r == ')' {
						if depth == 0 {
							break
						}
						depth--
					}
					if r == ',' && depth == 0 {
						elems++
					}
				}
				if elems != 1 {
					return false, t
				}
			}
			return true, strings.Join(ts, " | ")
		}
		c.floor(rule, "stores to injector.Args in injectContextArg", len(stores), 2)
		nP := 0
		for _, st := range stores {
			okP, term := isPrepend(st)
			if okP {
				nP++
				// the prepended element is a context argument: the existing one found by isContextType or the new one
				c.ok(rule, "injectContextArg: argument list is rebuilt as [ctx] ++ rest", term)
				continue
			}
			// a non-prepend store must be followed by a prepend in the same straight-line region
			followed := false
			for _, p := range stores {
				if pp, _ := isPrepend(p); pp && instrDominates(st, p) && p.Block() == st.Block() {
					followed = true
				}
			}
			c.check(followed, rule, "injectContextArg:args-store", L.pos(st.Pos()), "every modification of the argument list ends with the context in front", "store of "+term+" is not followed by a prepend in the same block")
		}
		// every success return after the async gate is dominated by a prepend, or lies on the existing-context path
		for _, r := range returnsOf(ica) {
			if !returnsNilError(r) {
				continue
			}
			dom := false
			for _, st := range stores {
				if okP, _ := isPrepend(st); okP && instrDominates(st, r) {
					dom = true
				}
			}
			if dom {
				c.ok(rule, fmt.Sprintf("injectContextArg: success return in block %d is dominated by a context prepend", r.Block().Index), "dominance")
				continue
			}
			// otherwise: either the !hasAsyncProviders exit, or the existing-context exit (context already at index 0 or moved by the conditional prepend)
			just := ""
			for _, iff := range controllingIfs(r) {
				s := newSym(L, map[string]bool{})
				s.maxD = 0
				t := strings.Join(s.eval(iff.Cond), "|")
				if strings.Contains(t, "hasAsyncProviders(") {
					just = "no scheduled provider is Async"
				}
				if strings.HasPrefix(t, "bin!=(") && strings.HasSuffix(t, ", nil)") && strings.Contains(t, "InjectorArgument") || strings.Contains(t, "index(field:internal/kessoku.Injector.Args(") {
					just = "an existing context argument was found (moved to the front when its index is > 0)"
				}
				if okS, _ := containsFuncOver(L, iff.Cond, "field:internal/kessoku.Injector.Args(", "isContextType", "internal/kessoku.InjectorArgument.Type"); okS {
					just = "an existing context argument was found by slices.IndexFunc/ContainsFunc (moved to the front by the helper)"
				}
			}
			c.check(just != "", rule, "injectContextArg:return-without-prepend", L.pos(r.Pos()), "a success return that does not prepend the context is justified", just)
		}
		c.check(nP >= 2, rule, "injectContextArg:prepend-count", L.pos(ica.Pos()), "both paths (existing context moved, new context created) prepend", fmt.Sprintf("%d prepend stores", nP))
		// the moved element is found by isContextType over injector.Args
		okFind := false
		for _, cs := range callsIn(ica) {
			if cal := cs.common.StaticCallee(); cal != nil && cal.Name() == "isContextType" {
				s := newSym(L, map[string]bool{})
				s.maxD = 0
				if strings.Contains(strings.Join(s.eval(cs.arg(0)), "|"), "InjectorArgument.Type(index(field:internal/kessoku.Injector.Args(") {
					okFind = true
				}
			}
		}
		for _, b := range ica.Blocks {
			if iff, isIf := b.Instrs[len(b.Instrs)-1].(*ssa.If); isIf {
				if okS, _ := containsFuncOver(L, iff.Cond, "field:internal/kessoku.Injector.Args(", "isContextType", "internal/kessoku.InjectorArgument.Type"); okS {
					okFind = true
				}
			}
		}
		c.check(okFind, rule, "injectContextArg:find-existing", L.pos(ica.Pos()), "an already required context.Context is recognised among the arguments by its type", "isContextType(arg.Type) over injector.Args")
	}
}
