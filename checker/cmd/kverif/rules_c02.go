package main

import (
	"fmt"
	"go/ast"
	"go/token"
	"go/types"
	"regexp"
	"strings"

	"golang.org/x/tools/go/ssa"
)

func init() {
	register(&propDef{
		id: "C02", withTestdata: true,
		run: runC02,
		explanation: "GS: the runtime wrappers are transparent (every Fn method returns the wrapped function or the wrapped provider's Fn(); Provide/Async/Bind store their argument; Value returns a closure over its argument); arguments and results are emitted one per element of the node's argument/result list, in index order, with the provider's own expression under .Fn(); the argument slot an edge fills is the index of the requirement it was created for and the result it reads is the supplier's recorded result index; field reads never go through Fn and Struct markers never become call nodes; requirement and supplier keys are the same path-qualified rendering; every scheduled pool is emitted (processed-set bookkeeping), edges are recorded pairwise, and the wait discipline keeps values intact across threads. " +
			"CO (36 checked-in pairs): every provider expression called by an injector occurs among the providers of its declaration (Sets expanded), none is called twice, every produced value is consumed or returned (no unneeded provider is invoked), every variable has one producer, and the returned variable has the requested type.",
		notDecided:  "value equality for unseen declarations and for all argument values (runtime values); purity/commutativity of user providers is assumed; types are matched by printed name (alias types are a known modelling gap).",
		assumptions: []string{"user providers are deterministic functions of their arguments", "go/types identity for the CO type comparison"},
	})
}

func runC02(c *Ctx) {
	L := c.L
	L.buildSSA()
	root := L.SSA[modPath]
	if root == nil {
		c.undecided("C02.1", "annotation.go", "root package not loaded")
		return
	}
	ruleWrapperIdentity(c, "C02.1")
	// ---- C02.2 order-preserving emission
	type loopSpec struct{ fn, list, elemTerm string }
	for _, ls := range []loopSpec{
		{"(*InjectorProviderCallStmt).buildArguments", "internal/kessoku.InjectorProviderCallStmt.Arguments", "go/ast.NewIdent((*" + genPkg + ".InjectorParam).Name(field:internal/kessoku.InjectorCallArgument.Param(index(field:internal/kessoku.InjectorProviderCallStmt.Arguments(param:stmt))), param:varPool))"},
		{"(*InjectorProviderCallStmt).buildLhsExpressions", "internal/kessoku.InjectorProviderCallStmt.Returns", "go/ast.NewIdent((*" + genPkg + ".InjectorParam).Name(index(field:internal/kessoku.InjectorProviderCallStmt.Returns(param:stmt)), param:varPool))"},
	} {
		fn := genFn(c, "C02.2", ls.fn)
		if fn == nil {
			continue
		}
		ruleNoEarlyExit(c, "C02.2", ls.fn)
		okElem := false
		var seen []string
		for _, a := range appendsIn(L, fn) {
			elems, ok := variadicElems(a.call.Common().Args[1])
			if !ok || len(elems) != 1 {
				continue
			}
			s := newSym(L, map[string]bool{})
			s.maxD = 0
			t := strings.Join(s.eval(elems[0]), "|")
			seen = append(seen, t)
			if t == ls.elemTerm {
				okElem = true
			}
		}
		// callback-driven loop: the kept value of the callback, with its parameter read as the current element of the list
		for _, fm := range filterMapLoops(fn) {
			kept, _, okFlags := fmKeeps(fm.body)
			if !okFlags {
				continue
			}
			s0 := newSym(L, map[string]bool{})
			s0.maxD = 0
			var elemTerms []string
			for _, lt := range s0.eval(fm.list) {
				elemTerms = append(elemTerms, "index("+lt+")")
			}
			all := len(kept) > 0
			for _, r := range kept {
				s := newSym(L, map[string]bool{})
				s.maxD = 0
				s.binds[fm.body.Params[0]] = elemTerms
				s.stack[fn] = true
				t := strings.Join(s.eval(r.Results[0]), "|")
				seen = append(seen, t)
				if t != ls.elemTerm {
					all = false
				}
			}
			// and the list the helper builds is what fn returns
			for _, r := range returnsOf(fn) {
				if len(r.Results) != 1 || resolve(r.Results[0]) != ssa.Value(fm.call) {
					all = false
				}
			}
			if all {
				okElem = true
			}
		}
		// element i, not some other element: every read of the list in fn (and in its callback bodies) uses the running index
		// of a range loop
		scan := []*ssa.Function{fn}
		for _, fm := range filterMapLoops(fn) {
			scan = append(scan, fm.body)
		}
		for _, g := range scan {
			for _, b := range g.Blocks {
				for _, in := range b.Instrs {
					ia, ok := in.(*ssa.IndexAddr)
					if !ok {
						continue
					}
					ld, ok := ia.X.(*ssa.UnOp)
					if !ok || ld.Op != token.MUL {
						continue
					}
					if fa, ok := ld.X.(*ssa.FieldAddr); ok && fieldKey(fa) == ls.list {
						c.check(isRangeIndex(ia.Index), "C02.2", fnName(fn)+":element-index", L.pos(ia.Pos()), fnName(fn)+": the list is read at the running index of its range loop only", "index is "+describe(ia.Index))
					}
				}
			}
		}
		c.check(okElem, "C02.2", fnName(fn)+":element", L.pos(fn.Pos()), fnName(fn)+": appends the allocated name of element i of "+ls.list+" in range order", strings.Join(seen, " ; "))
		for _, cs := range callsIn(fn) {
			if strings.HasPrefix(cs.callee, "sort.") || strings.HasPrefix(cs.callee, "slices.") {
				c.fail("C02.2", fnName(fn)+":reorders", L.pos(cs.instr.Pos()), "the argument/result list is reordered by "+cs.callee)
			}
		}
	}
	// call template
	p := L.Pkgs[genPkg]
	okCall := false
	for _, s := range collectTemplates(p) {
		if s.kind == "SelectorExpr" && strings.HasSuffix(exprString(s.fields["X"]), ".Provider.ASTExpr") {
			n, _ := identConst(p, s.fn, s.fields["Sel"])
			x := exprString(s.fields["X"])
			if n == "Fn" && x == "stmt.Provider.ASTExpr" && s.parent != nil && s.parent.kind == "CallExpr" && s.slot == "Fun" && s.parent.parent != nil && s.parent.parent.kind == "CallExpr" && s.parent.slot == "Fun" {
				if args := exprString(s.parent.parent.fields["Args"]); args == "args" {
					okCall = true
				}
			}
		}
	}
	c.check(okCall, "C02.2", "buildProviderCall:template", "-", "a provider is invoked as <its own expression>.Fn()(<arguments>)", "CallExpr{Fun: CallExpr{Fun: SelectorExpr{X: stmt.Provider.ASTExpr, Sel: Fn}}, Args: args}")
	// edge indices
	if ng := genFn(c, "C02.2", "NewGraph"); ng != nil {
		fns := withClosures(ng)
		for _, st := range storesToField(fns, "internal/kessoku.edgeNode.provideArgDst") {
			s := newSym(L, map[string]bool{})
			s.maxD = 0
			t := strings.Join(s.eval(st.Val), "|")
			// the loop index over Requires: a phi/next of the range; the requirement looked up must be Requires[that index]
			c.check(strings.Contains(t, "bin+(") || strings.Contains(t, "next#0(") || strings.Contains(t, "cycle"), "C02.2", "NewGraph:provideArgDst", L.pos(st.Pos()), "an edge fills the argument slot with the index of the requirement it was created for", t)
		}
		for _, st := range storesToField(fns, "internal/kessoku.edgeNode.provideArgSrc") {
			s := newSym(L, map[string]bool{})
			s.maxD = 0
			ts := s.eval(st.Val)
			ok := true
			for _, t := range ts {
				if t != "0" && !strings.Contains(t, "fnProvider.returnIndex(") {
					ok = false
				}
			}
			c.check(ok, "C02.2", "NewGraph:provideArgSrc", L.pos(st.Pos()), "an edge reads the supplier's recorded result index (0 for arguments)", strings.Join(ts, " | "))
		}
	}
	// round 16 (C02-m31): the supplier table's result index is fixed when the entry is created - it is stored into a
	// freshly allocated fnProvider only, never into an entry read back from the table (the first result group that
	// offers a type is the one its consumers get)
	{
		nIdx := 0
		// wherever the table is filled (NewGraph today; a helper split out of it is the same obligation)
		for _, st := range storesToField(pkgFuncs(L, genPkg), "internal/kessoku.fnProvider.returnIndex") {
			nIdx++
			fresh := false
			if fa, ok := st.Addr.(*ssa.FieldAddr); ok {
				_, fresh = fa.X.(*ssa.Alloc)
			}
			c.check(fresh, "C02.2", "NewGraph:supplier-index-written-at-creation-only", L.pos(st.Pos()), "the result index of a supplier-table entry is written when the entry is created, not updated on a later occurrence of the same type", fmt.Sprintf("store #%d of fnProvider.returnIndex", nIdx))
		}
		c.floor("C02.2", "stores of fnProvider.returnIndex in the generator package", nIdx, 1)
	}
	if build := genFn(c, "C02.2", "(*Graph).Build"); build != nil {
		// providerArgs[edge.provideArgDst] = {Param: n.returnValues[edge.provideArgSrc]}
		ok := false
		for _, st := range storesToField(family(L, build), "internal/kessoku.InjectorCallArgument.Param") {
			s := newSym(L, map[string]bool{})
			s.maxD = 0
			t := strings.Join(s.eval(st.Val), "|")
			if strings.HasPrefix(t, "index(field:internal/kessoku.node.returnValues(") {
				ok = true
			}
		}
		c.check(ok, "C02.2", "Build:argument-param", L.pos(build.Pos()), "a call argument is the producer node's result parameter selected by the edge", "Param = n.returnValues[edge.provideArgSrc]")
	}
	if bps := genFn(c, "C02.2", "(*Graph).buildPoolStmtsSimple"); bps != nil {
		for _, f := range []struct{ field, want string }{
			{"internal/kessoku.InjectorProviderCallStmt.Arguments", "field:internal/kessoku.node.providerArgs("},
			{"internal/kessoku.InjectorProviderCallStmt.Returns", "field:internal/kessoku.node.returnValues("},
			{"internal/kessoku.InjectorProviderCallStmt.Provider", "field:internal/kessoku.node.providerSpec("},
		} {
			for _, st := range storesToField([]*ssa.Function{bps}, f.field) {
				s := newSym(L, map[string]bool{})
				s.maxD = 0
				t := strings.Join(s.eval(st.Val), "|")
				c.check(strings.HasPrefix(t, f.want), "C02.2", "buildPoolStmtsSimple:"+f.field, L.pos(st.Pos()), "a call statement takes provider, arguments and results from one and the same node", t)
			}
		}
		// ---- C02.3 field reads bypass Fn
		okBranch := false
		var bpsBlocks []*ssa.BasicBlock
		for _, f2 := range family(L, bps) {
			bpsBlocks = append(bpsBlocks, f2.Blocks...)
		}
		for _, b := range bpsBlocks {
			for _, in := range b.Instrs {
				al, ok := in.(*ssa.Alloc)
				if !ok {
					continue
				}
				if nm, _ := isAstNodeType(al.Type()); nm == "InjectorFieldAccessStmt" {
					for _, iff := range controllingIfs(al) {
						s := newSym(L, map[string]bool{})
						s.maxD = 0
						t := strings.Join(s.eval(iff.Cond), "|")
						if strings.Contains(t, "ProviderSpec.Type(") && strings.Contains(t, `"field_access"`) {
							okBranch = true
						}
					}
				}
			}
		}
		c.check(okBranch, "C02.3", "buildPoolStmtsSimple:field-access-kind", L.pos(bps.Pos()), "field-access providers become field reads (no .Fn() call)", "InjectorFieldAccessStmt is created under providerSpec.Type == ProviderTypeFieldAccess")
	}
	// Struct markers never become suppliers by themselves
	if ng := genFn(c, "C02.3", "NewGraph"); ng != nil {
		ok := false
		for _, fam := range family(L, ng) {
			if fam.Parent() != nil {
				continue
			}
			for _, b := range fam.Blocks {
				if len(b.Instrs) == 0 {
					continue
				}
				iff, isIf := b.Instrs[len(b.Instrs)-1].(*ssa.If)
				if !isIf {
					continue
				}
				s := newSym(L, map[string]bool{})
				s.maxD = 0
				t := strings.Join(s.eval(iff.Cond), "|")
				if strings.Contains(t, "ProviderSpec.Type(") && strings.Contains(t, `"struct"`) {
					// the true edge must not reach a supplier-map insert without returning to the loop header
					reach := false
					for _, b2 := range fam.Blocks {
						for _, in := range b2.Instrs {
							if mu, isMu := in.(*ssa.MapUpdate); isMu && strings.Contains(mu.Map.Type().String(), "fnProvider") {
								if reachableNoLoop(iff.Block().Succs[0], b2, iff.Block().Idom()) && b2.Dominates(b2) {
									// only inserts inside the same loop iteration matter
									if iff.Block().Dominates(b2) && !iff.Block().Succs[1].Dominates(b2) {
										reach = true
									}
								}
							}
						}
					}
					ok = !reach
				}
			}
		}
		c.check(ok, "C02.3", "NewGraph:struct-marker-not-a-supplier", L.pos(ng.Pos()), "a Struct marker is expanded into field reads and is never itself registered as the supplier of its type", "the struct-kind branch skips the supplier-map insertion")
	}

	// ---- C02.4 key agreement
	c09SupplierMap(c, "C02.4")

	// ---- C02.6 scheduling bookkeeping that 'exactly once' rests on
	rulePoolsProcessed(c, "C02.6")
	rulePairedEdges(c, "C02.6")
	ruleRefTable(c, "C02.6")
	ruleIsWaitTable(c, "C02.6")
	ruleNoEarlyExit(c, "C02.6", "(*Graph).buildPoolStmtsSimple", "generateStmts", "(*InjectorChainStmt).Stmt#emits")

	ruleTypeIdentity(c, "C02.7", genPkg)
	ruleSetVariableInitializer(c, "C02.9")
	ruleOneNodePerProvider(c, "C02.10")
	ruleReturnByRecordedIndex(c, "C02.11")
	ruleChannelGuards(c, "C02.6")
	ruleExprListsFresh(c, "C02.2")
	ruleLaneIntegrity(c, "C02.12")
	ruleAsyncFlag(c, "C02.13")
	ruleGuardReceivers(c, "C02.6")
	ruleFieldAccessSync(c, "C02.6")
	ruleSnapshotReadOnly(c, "C02.6")
	// user identifiers reach the allocator: a copied provider expression must not be captured by a generated local
	{
		sub := &Ctx{Prop: c.Prop, Tier: c.Tier, L: c.L, FuncsSeen: c.FuncsSeen, Extra: c.Extra, RoleNames: c.RoleNames}
		alloc := map[*ssa.Function]bool{}
		for _, fn := range pkgFuncs(L, genPkg) {
			if strings.HasSuffix(fn.String(), "VarPool).GetName") || strings.HasSuffix(fn.String(), "VarPool).Get") || strings.HasSuffix(fn.String(), "VarPool).GetChannel") {
				alloc[fn] = true
			}
		}
		c12Registration(sub, alloc)
		for _, o := range sub.Obls {
			o.Rule = "C02.8"
			c.Obls = append(c.Obls, o)
		}
		for _, f := range sub.Finds {
			f.Rule = "C02.8"
			c.Finds = append(c.Finds, f)
		}
	}

	// ---- C02.5 checked-in pairs
	declProviders := coDeclarations(L)
	coRun(c, "C02.5", func(c *Ctx, rule string, f *coFunc, g *coGraph) { coWiring(c, rule, f, g, declProviders) })
}

// coDeclarations: for every package with a generated file, the rendered provider expressions that occur in its
// kessoku.Inject / kessoku.Set calls (per injector name), Sets expanded through their variable initialisers.
func coDeclarations(L *Loaded) map[string]map[string]bool {
	out := map[string]map[string]bool{}
	for _, p := range L.All {
		if !strings.HasPrefix(p.PkgPath, modPath) {
			continue
		}
		setInit := map[string]*ast.CallExpr{}
		for _, f := range p.Syntax {
			ast.Inspect(f, func(n ast.Node) bool {
				vs, ok := n.(*ast.ValueSpec)
				if !ok {
					return true
				}
				for i, nm := range vs.Names {
					if i < len(vs.Values) {
						if call, ok := vs.Values[i].(*ast.CallExpr); ok {
							setInit[nm.Name] = call
						}
					}
				}
				return true
			})
		}
		var expand func(e ast.Expr, into map[string]bool, depth int)
		expand = func(e ast.Expr, into map[string]bool, depth int) {
			if depth > 6 {
				return
			}
			if id, ok := e.(*ast.Ident); ok {
				if call, ok := setInit[id.Name]; ok {
					for _, a := range call.Args {
						expand(a, into, depth+1)
					}
					return
				}
			}
			if call, ok := e.(*ast.CallExpr); ok {
				if sel, ok := call.Fun.(*ast.SelectorExpr); ok && sel.Sel.Name == "Set" {
					for _, a := range call.Args {
						expand(a, into, depth+1)
					}
					return
				}
			}
			into[render(e)] = true
		}
		for _, f := range p.Syntax {
			ast.Inspect(f, func(n ast.Node) bool {
				call, ok := n.(*ast.CallExpr)
				if !ok || len(call.Args) < 1 {
					return true
				}
				var sel *ast.SelectorExpr
				switch fun := call.Fun.(type) {
				case *ast.IndexExpr:
					sel, _ = fun.X.(*ast.SelectorExpr)
				case *ast.IndexListExpr:
					sel, _ = fun.X.(*ast.SelectorExpr)
				}
				if sel == nil || sel.Sel.Name != "Inject" {
					return true
				}
				tv, ok := p.TypesInfo.Types[call.Args[0]]
				if !ok || tv.Value == nil {
					return true
				}
				name := strings.Trim(tv.Value.ExactString(), `"`)
				key := p.PkgPath + ":" + name
				out[key] = map[string]bool{}
				for _, a := range call.Args[1:] {
					expand(a, out[key], 0)
				}
				return true
			})
		}
	}
	return out
}

// coWiring (C02.5)
func coWiring(c *Ctx, rule string, f *coFunc, g *coGraph, decls map[string]map[string]bool) {
	provs, ok := decls[f.pkg.PkgPath+":"+f.name]
	if !ok {
		c.fail(rule, "co:"+f.key()+":no-declaration", f.file, "the generated function has no kessoku.Inject declaration of that name in its package")
		return
	}
	called := map[string]int{}
	reads := map[string]bool{}
	var retVar string
	for _, th := range f.threads {
		for _, st := range th.steps {
			if st.kind == kCall {
				called[st.expr]++
				if !provs[st.expr] {
					c.fail(rule, "co:"+f.key()+":undeclared-provider:"+st.expr, f.where(st), "the injector calls a provider expression that its declaration does not list: "+st.expr)
				}
			}
			for _, r := range st.reads {
				reads[r] = true
			}
		}
	}
	main := f.threads[0]
	if last := main.steps[len(main.steps)-1]; last.kind == kReturn && len(last.retVals) > 0 {
		retVar = last.retVals[0]
		reads[retVar] = true
	}
	for e, n := range called {
		if n != 1 {
			c.fail(rule, "co:"+f.key()+":called-twice:"+e, f.file, fmt.Sprintf("provider %s is invoked %d times", e, n))
		}
	}
	for _, th := range f.threads {
		for _, st := range th.steps {
			for _, w := range st.writes {
				if w != "_" && !reads[w] {
					c.fail(rule, "co:"+f.key()+":dead-value:"+w, f.where(st), "a provider result is neither consumed nor returned: a provider that is not needed was invoked")
				}
			}
		}
	}
	// result type
	if f.decl.Type.Results != nil && retVar != "" {
		want := f.pkg.TypesInfo.TypeOf(f.decl.Type.Results.List[0].Type)
		var got string
		ast.Inspect(f.decl.Body, func(n ast.Node) bool {
			if r, ok := n.(*ast.ReturnStmt); ok && len(r.Results) > 0 {
				if id, ok := r.Results[0].(*ast.Ident); ok && id.Name == retVar {
					if t := f.pkg.TypesInfo.TypeOf(id); t != nil && want != nil && t.String() != want.String() {
						got = t.String()
					}
				}
			}
			return true
		})
		if got != "" {
			c.fail(rule, "co:"+f.key()+":result-type", f.file, "the returned variable has type "+got+", the signature says "+want.String())
		}
	}
	c.ok(rule, fmt.Sprintf("%s: %d provider call(s), each declared, each once, every value consumed or returned", f.key(), len(called)), fmt.Sprintf("declaration lists %d provider expressions", len(provs)))
	if len(called) > 3 {
		c.sample(map[string]any{"function": f.key(), "calls": len(called), "declared": len(provs)})
	}
}

// ruleWrapperIdentity: the runtime wrappers are transparent: every type that declares Fn returns the wrapped function (or the
// wrapped provider's Fn()), the constructors store exactly their argument, Value returns a closure over its argument.
// Generated code calls providers through <expr>.Fn()(...), so a wrapper that does anything else (runs the provider in a
// helper goroutine, substitutes results) changes what every injector does without any change in the generated text.
func ruleWrapperIdentity(c *Ctx, rule string) {
	L := c.L
	root := L.SSA[modPath]
	if root == nil {
		c.undecided(rule, "annotation.go", "root package not loaded")
		return
	}
	// ---- C02.1 wrapper identity
	// every type that declares Fn returns one of its own fields (the wrapped function) or Fn() of one of its own fields
	// (the wrapped provider); wrapper types may get that method by embedding such a type
	reField := regexp.MustCompile(`^field:` + regexp.QuoteMeta(modPath) + `\.(\w+)\.(\w+)\(param:\w+\)$`)
	reDeleg := regexp.MustCompile(`^invoke \(` + regexp.QuoteMeta(modPath) + `\.funcProvider\[\w+\]\)\.Fn\(field:` + regexp.QuoteMeta(modPath) + `\.(\w+)\.(\w+)\(param:\w+\)\)$`)
	wrappedField := map[string]string{} // declaring type -> key of the field that holds what Fn hands out
	nFn := 0
	for _, m := range root.Members {
		t, ok := m.(*ssa.Type)
		if !ok {
			continue
		}
		fn := L.fn(modPath, t.Name()+".Fn")
		if fn == nil || fn.Blocks == nil {
			continue
		}
		nFn++
		c.seen(fnName(fn))
		s := newSym(L, map[string]bool{})
		got := strings.Join(s.evalFn(fn, 0), " | ")
		if t.Name() == "structProvider" {
			// table exception: Struct's Fn returns a dummy; premise: generated code never calls Fn on a struct provider (C02.3)
			c.ok(rule, "structProvider.Fn is a placeholder that generated code never calls [table exception, premise checked by C02.3]", got)
			continue
		}
		m1, m2 := reField.FindStringSubmatch(got), reDeleg.FindStringSubmatch(got)
		switch {
		case m1 != nil && m1[1] == t.Name():
			wrappedField[t.Name()] = modPath + "." + m1[1] + "." + m1[2]
			c.ok(rule, t.Name()+".Fn() returns exactly the wrapped function", got)
		case m2 != nil && m2[1] == t.Name():
			wrappedField[t.Name()] = modPath + "." + m2[1] + "." + m2[2]
			c.ok(rule, t.Name()+".Fn() returns exactly the wrapped provider's function", got)
		default:
			c.fail(rule, t.Name()+".Fn", L.pos(fn.Pos()), t.Name()+".Fn() does not return exactly the wrapped function (a field of the receiver, or Fn() of a field of the receiver)", got)
		}
	}
	c.floor(rule, "Fn methods of provider wrappers", nFn, 3)
	for _, ctor := range []string{"Provide", "Async", "Bind"} {
		fn := L.fn(modPath, ctor)
		if fn == nil {
			c.undecided(rule, ctor, "constructor not found")
			continue
		}
		c.seen(fnName(fn))
		// the type whose Fn the returned wrapper answers with (its own, or the one of an embedded type)
		decl := ""
		if fn.Signature.Results().Len() == 1 {
			rt := fn.Signature.Results().At(0).Type()
			if sel := types.NewMethodSet(rt).Lookup(root.Pkg, "Fn"); sel != nil {
				if f, isF := sel.Obj().(*types.Func); isF {
					if recv := f.Type().(*types.Signature).Recv(); recv != nil {
						rtp := recv.Type()
						if pt, isP := rtp.(*types.Pointer); isP {
							rtp = pt.Elem()
						}
						if nt, isN := rtp.(*types.Named); isN {
							decl = nt.Obj().Name()
						}
					}
				}
			}
		}
		key := wrappedField[decl]
		ok := false
		if key != "" {
			for _, st := range storesToField([]*ssa.Function{fn}, key) {
				if p, isP := st.Val.(*ssa.Parameter); isP && p == fn.Params[0] {
					ok = true
				}
			}
		}
		c.check(ok, rule, ctor+":stores-argument", L.pos(fn.Pos()), ctor+"(fn) wraps exactly its argument", "store of parameter fn into "+key+", the field that "+decl+".Fn hands out")
	}
	if fn := L.fn(modPath, "Value"); fn != nil {
		c.seen(fnName(fn))
		ok := false
		var wrapped []ssa.Value
		for _, st := range storesToField([]*ssa.Function{fn}, "github.com/mazrean/kessoku.fnProvider.fn") {
			wrapped = append(wrapped, st.Val)
		}
		// Value may also delegate to Provide (checked above to store exactly its argument)
		for _, cs := range callsIn(fn) {
			if callee := cs.common.StaticCallee(); callee != nil && len(cs.common.Args) == 1 && cs.value() != nil {
				o := callee
				if callee.Origin() != nil {
					o = callee.Origin()
				}
				if o == L.fn(modPath, "Provide") {
					for _, r := range returnsOf(fn) {
						if len(r.Results) == 1 && resolve(r.Results[0]) == ssa.Value(cs.value()) {
							wrapped = append(wrapped, cs.arg(0))
						}
					}
				}
			}
		}
		for _, w := range wrapped {
			if mc, isC := resolve(w).(*ssa.MakeClosure); isC {
				cl := mc.Fn.(*ssa.Function)
				rets := returnsOf(cl)
				if len(rets) == 1 && len(mc.Bindings) == 1 {
					// closure returns its captured variable, which holds the parameter
					if u, isU := rets[0].Results[0].(*ssa.UnOp); isU && u.Op == token.MUL {
						if al := allocOf(u.X); al != nil {
							sts := storesTo(al)
							if len(sts) == 1 && sts[0].Val == ssa.Value(fn.Params[0]) {
								ok = true
							}
						}
					}
					if fv, isF := rets[0].Results[0].(*ssa.FreeVar); isF && freeVarBinding(fv) == ssa.Value(fn.Params[0]) {
						ok = true
					}
				}
			}
		}
		c.check(ok, rule, "Value:returns-argument", L.pos(fn.Pos()), "Value(v) provides exactly v", "closure returns the captured parameter")
	}

}
