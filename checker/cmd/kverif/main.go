// kverif decides structural necessary conditions of properties C01..C16 of mazrean/kessoku
// from the source of /repo's current working tree. Nothing from /repo is executed.
package main

import (
	"encoding/json"
	"fmt"
	"os"
	"os/exec"
	"path/filepath"
	"sort"
	"strconv"
	"strings"
	"sync"
	"time"
)

type propDef struct {
	id           string
	run          func(c *Ctx)
	withTestdata bool
	explanation  string
	notDecided   string
	assumptions  []string
}

var registry = map[string]*propDef{}

func register(p *propDef) { registry[p.id] = p }

func usage() {
	fmt.Fprintln(os.Stderr, `usage:
  kverif check <Cxx> [--tier quick|thorough] [--overlay variant.json] [--no-evidence]
  kverif multi [--overlay variant.json] <Cxx>...   several properties on one load of the tree (quick tier, no evidence);
                                   prints "== PROP Cxx" / "== EXIT Cxx <code>" around each property's output
  kverif explain <replay.json>
  kverif selftest [<Cxx>]          run the seeded in-memory variants and expect their reports
  kverif ssa <pkgpath-suffix> <func>   (debug) dump SSA of a function
  kverif list`)
	os.Exit(2)
}

func main() {
	if len(os.Args) < 2 {
		usage()
	}
	switch os.Args[1] {
	case "check":
		os.Exit(cmdCheck(os.Args[2:]))
	case "multi":
		os.Exit(cmdMulti(os.Args[2:]))
	case "explain":
		os.Exit(cmdExplain(os.Args[2:]))
	case "selftest":
		os.Exit(cmdSelftest(os.Args[2:]))
	case "baseline":
		// (re)generate checker/baseline_names.json from /repo's current tree: the names the rules are written against
		L, err := load(loadOpts{noCanon: true})
		if err == nil {
			err = writeBaseline(L)
		}
		if err != nil {
			fmt.Println("ERROR:", err)
			os.Exit(2)
		}
		fmt.Println("wrote", baselinePath())
	case "ssa":
		cmdSSA(os.Args[2:])
	case "sym":
		cmdSym(os.Args[2:])
	case "list":
		ids := []string{}
		for id := range registry {
			ids = append(ids, id)
		}
		sort.Strings(ids)
		fmt.Println(strings.Join(ids, "\n"))
	default:
		usage()
	}
}

func cmdCheck(args []string) int {
	if len(args) < 1 {
		usage()
	}
	id := args[0]
	tier := os.Getenv("VERIF_TIER")
	if tier == "" {
		tier = "quick"
	}
	overlayPath := ""
	writeEv := true
	for i := 1; i < len(args); i++ {
		switch args[i] {
		case "--tier":
			i++
			tier = args[i]
		case "--overlay":
			i++
			overlayPath = args[i]
		case "--no-evidence":
			writeEv = false
		default:
			usage()
		}
	}
	if tier != "quick" && tier != "thorough" {
		usage()
	}
	def := registry[id]
	if def == nil {
		fmt.Fprintf(os.Stderr, "unknown property %s\n", id)
		return 2
	}
	return runCheck(def, tier, overlayPath, writeEv)
}

func runCheck(def *propDef, tier, overlayPath string, writeEv bool) (code int) {
	start := time.Now()
	c := &Ctx{Prop: def.id, Tier: tier, FuncsSeen: map[string]bool{}, start: start,
		Explanation: def.explanation, NotDecided: def.notDecided, Assumptions: def.assumptions, Extra: map[string]any{}}
	ov, spec, err := readOverlay(overlayPath, repoRoot())
	if err != nil {
		if _, stale := err.(errOverlayStale); stale {
			fmt.Println("SKIP:", err)
			return 3
		}
		fmt.Println("ERROR:", err)
		return 2
	}
	if spec != nil {
		writeEv = false
		fmt.Printf("overlay variant %q applied in memory (%d file(s))\n", spec.Name, len(ov))
	}
	L, err := load(loadOpts{withTestdata: def.withTestdata, overlay: ov})
	if err != nil {
		// fail closed: the tree cannot be analysed
		c.L = &Loaded{Repo: repoRoot()}
		c.undecided(def.id+".0", "load", err.Error())
		return c.finish(writeEv)
	}
	c.L = L
	c.Extra["packages_loaded"] = len(L.All)
	if len(L.CanonNotes) > 0 {
		c.Notes = append(c.Notes, L.CanonNotes...)
		fmt.Println("NOTE:", L.CanonNotes[0])
	}
	defer func() {
		if r := recover(); r != nil {
			c.undecided(def.id+".0", "panic", fmt.Sprintf("checker panic: %v", r))
			code = c.finish(writeEv)
			if os.Getenv("KVERIF_DEBUG") != "" {
				panic(r)
			}
		}
	}()
	def.run(c)
	crossRegistered(c)
	// every rule enumerates all of its instances in the current source (and all checked-in outputs): a finite space,
	// covered completely unless something was undecided
	c.Exhaustive = countUndecided(c.Finds) == 0
	if tier == "thorough" && overlayPath == "" {
		thoroughExtras(c, def)
	}
	return c.finish(writeEv)
}

// thoroughExtras: the GOOS=windows file-set assertion and the seeded-variant self-test for this property.
func thoroughExtras(c *Ctx, def *propDef) {
	// file set must not depend on GOOS (no build-tagged files in the module)
	files := func(L *Loaded) []string {
		var fs []string
		for _, p := range L.Pkgs {
			if strings.HasPrefix(p.PkgPath, modPath) {
				fs = append(fs, p.CompiledGoFiles...)
			}
		}
		sort.Strings(fs)
		return fs
	}
	os.Setenv("VERIF_GOOS", "windows")
	L2, err := load(loadOpts{withTestdata: def.withTestdata})
	os.Unsetenv("VERIF_GOOS")
	if err != nil {
		c.undecided(def.id+".0", "goos-windows-load", err.Error())
	} else {
		a, b := files(c.L), files(L2)
		c.check(strings.Join(a, "\n") == strings.Join(b, "\n"), def.id+".0", "fileset", "-",
			fmt.Sprintf("analysed file set is identical under GOOS=linux and GOOS=windows (%d files)", len(a)), "go list file sets compared")
	}
	// seeded variants
	res := runVariants(def.id)
	c.Extra["selftest"] = res.lines
	for _, f := range res.failures {
		c.undecided(def.id+".0", "selftest:"+f, "seeded variant did not produce its expected report: "+f)
	}
	if res.ran > 0 {
		c.ok(def.id+".0", fmt.Sprintf("self-test: %d seeded variants of this property's rules each produced the expected report (%d skipped as stale)", res.ran-len(res.failures), res.skipped), "one subprocess per in-memory overlay")
	}
}

type variantResult struct {
	ran, skipped int
	failures     []string
	lines        []string
}

func variantFiles() []string {
	fs, _ := filepath.Glob(filepath.Join(verifRoot(), "checker", "variants", "*.json"))
	sort.Strings(fs)
	return fs
}

func runVariants(prop string) variantResult {
	var r variantResult
	self, _ := os.Executable()
	type job struct {
		vf, prop, rule, name string
		clean                bool
	}
	var jobs []job
	for _, vf := range variantFiles() {
		b, err := os.ReadFile(vf)
		if err != nil {
			continue
		}
		var spec overlaySpec
		if json.Unmarshal(b, &spec) != nil {
			r.failures = append(r.failures, filepath.Base(vf)+": unreadable")
			continue
		}
		for _, cl := range spec.Clean {
			if prop != "" && cl != prop {
				continue
			}
			jobs = append(jobs, job{vf, cl, "", fmt.Sprintf("%s[%s must stay silent]", spec.Name, cl), true})
		}
		for _, ex := range spec.Expect {
			if prop != "" && ex.Property != prop {
				continue
			}
			jobs = append(jobs, job{vf, ex.Property, ex.Rule, fmt.Sprintf("%s[%s %s]", spec.Name, ex.Property, ex.Rule), false})
		}
	}
	type res struct {
		line          string
		fail, skipped bool
	}
	out := make([]res, len(jobs))
	workers := 8
	if n, err := strconv.Atoi(os.Getenv("KVERIF_WORKERS")); err == nil && n > 0 {
		workers = n
	}
	// one subprocess per variant: the variant's tree is loaded once and checked under every property it lists
	byVariant := map[string][]int{}
	var order []string
	for i, j := range jobs {
		if _, ok := byVariant[j.vf]; !ok {
			order = append(order, j.vf)
		}
		byVariant[j.vf] = append(byVariant[j.vf], i)
	}
	sem := make(chan struct{}, workers)
	var wg sync.WaitGroup
	for _, vf := range order {
		idxs := byVariant[vf]
		wg.Add(1)
		sem <- struct{}{}
		go func(vf string, idxs []int) {
			defer wg.Done()
			defer func() { <-sem }()
			propSet := map[string]bool{}
			var props []string
			for _, i := range idxs {
				if !propSet[jobs[i].prop] {
					propSet[jobs[i].prop] = true
					props = append(props, jobs[i].prop)
				}
			}
			args := append([]string{"multi", "--overlay", vf}, props...)
			cmd := exec.Command(self, args...)
			cmd.Env = os.Environ()
			o, _ := cmd.CombinedOutput()
			whole := cmd.ProcessState.ExitCode()
			// split the output per property
			section := map[string]string{}
			codes := map[string]int{}
			cur := ""
			for _, ln := range strings.Split(string(o), "\n") {
				switch {
				case strings.HasPrefix(ln, "== PROP "):
					cur = strings.TrimPrefix(ln, "== PROP ")
				case strings.HasPrefix(ln, "== EXIT "):
					f := strings.Fields(strings.TrimPrefix(ln, "== EXIT "))
					if len(f) == 2 {
						n, _ := strconv.Atoi(f[1])
						codes[f[0]] = n
					}
					cur = ""
				case cur != "":
					section[cur] += ln + "\n"
				}
			}
			for _, i := range idxs {
				j := jobs[i]
				code, seen := codes[j.prop]
				text := section[j.prop]
				if !seen {
					code = whole
					if code == 0 {
						code = 2
					}
					text = string(o)
				}
				switch {
				case whole == 3 && !seen:
					out[i] = res{line: j.name + ": SKIPPED (stale context)", skipped: true}
				case j.clean && code == 0:
					out[i] = res{line: j.name + ": silent as expected"}
				case j.clean:
					first := ""
					for _, ln := range strings.Split(text, "\n") {
						if strings.HasPrefix(ln, "REPORT") {
							first = ln
							break
						}
					}
					out[i] = res{line: fmt.Sprintf("%s: FALSE ALARM (exit %d) %s", j.name, code, first), fail: true}
				case code == 1 && (j.rule == "" && strings.Contains(text, "REPORT rule=") || j.rule != "" && strings.Contains(text, "REPORT rule="+j.rule+" ")):
					out[i] = res{line: j.name + ": reported as expected"}
				default:
					out[i] = res{line: fmt.Sprintf("%s: NOT reported (exit %d)", j.name, code), fail: true}
				}
			}
		}(vf, idxs)
	}
	wg.Wait()
	for i, o := range out {
		r.lines = append(r.lines, o.line)
		switch {
		case o.skipped:
			r.skipped++
		case o.fail:
			r.ran++
			r.failures = append(r.failures, jobs[i].name)
		default:
			r.ran++
		}
	}
	return r
}

func cmdSelftest(args []string) int {
	prop := ""
	if len(args) > 0 {
		prop = args[0]
	}
	r := runVariants(prop)
	for _, l := range r.lines {
		fmt.Println(l)
	}
	fmt.Printf("selftest: ran=%d skipped=%d failures=%d\n", r.ran, r.skipped, len(r.failures))
	if len(r.failures) > 0 {
		return 1
	}
	return 0
}

func cmdExplain(args []string) int {
	if len(args) < 1 {
		usage()
	}
	b, err := os.ReadFile(args[0])
	if err != nil {
		fmt.Println(err)
		return 2
	}
	var rp struct {
		Finding Finding `json:"finding"`
		Tier    string  `json:"tier"`
	}
	if err := json.Unmarshal(b, &rp); err != nil {
		fmt.Println(err)
		return 2
	}
	f := rp.Finding
	fmt.Printf("replaying %s rule %s construct %q\n  originally at %s: %s\n", f.Property, f.Rule, f.Construct, f.Pos, f.Msg)
	for _, d := range f.Detail {
		fmt.Println("    " + d)
	}
	def := registry[f.Property]
	if def == nil {
		return 2
	}
	c := &Ctx{Prop: def.id, Tier: "quick", FuncsSeen: map[string]bool{}, start: time.Now(), Extra: map[string]any{}}
	L, err := load(loadOpts{withTestdata: def.withTestdata})
	if err != nil {
		fmt.Println("load failed:", err)
		return 1
	}
	c.L = L
	def.run(c)
	crossRegistered(c)
	for _, g := range c.Finds {
		if g.Rule == f.Rule && g.Construct == f.Construct {
			fmt.Printf("STILL REPORTED on the current tree at %s: %s\n", g.Pos, g.Msg)
			for _, d := range g.Detail {
				fmt.Println("    " + d)
			}
			fmt.Printf("VIOLATION property=%s replay=%s\n", f.Property, args[0])
			return 1
		}
	}
	fmt.Println("not reported on the current tree")
	return 0
}

func cmdSSA(args []string) {
	if len(args) < 2 {
		usage()
	}
	L, err := load(loadOpts{})
	if err != nil {
		fmt.Println(err)
		os.Exit(2)
	}
	L.buildSSA()
	for path := range L.SSA {
		if strings.HasSuffix(path, args[0]) && strings.HasPrefix(path, modPath) {
			if fn := L.fn(path, args[1]); fn != nil {
				fn.WriteTo(os.Stdout)
				for _, an := range fn.AnonFuncs {
					an.WriteTo(os.Stdout)
				}
				return
			}
		}
	}
	fmt.Println("not found")
}

func init() {
	if os.Getenv("KVERIF_LISTFN") != "" {
		L, err := load(loadOpts{})
		if err != nil {
			panic(err)
		}
		for _, f := range llmFuncs(L) {
			fmt.Println(f.String(), f.Pkg != nil, f.Origin() != nil, f.Name())
		}
		os.Exit(0)
	}
}

// cmdSym (debug): kverif sym <pkg-suffix> <func> <result-idx> [atom=true|false ...]
func cmdSym(args []string) {
	L, err := load(loadOpts{})
	if err != nil {
		fmt.Println(err)
		os.Exit(2)
	}
	L.buildSSA()
	assume := map[string]bool{}
	for _, a := range args[3:] {
		kv := strings.SplitN(a, "=", 2)
		assume[kv[0]] = kv[1] == "true"
	}
	idx := 0
	fmt.Sscanf(args[2], "%d", &idx)
	for path := range L.SSA {
		if strings.HasSuffix(path, args[0]) && strings.HasPrefix(path, modPath) {
			if fn := L.fn(path, args[1]); fn != nil {
				s := newSym(L, assume)
				for _, t := range s.evalFn(fn, idx) {
					fmt.Println(t)
				}
				fmt.Println("unknown:", *s.unknown)
			}
		}
	}
}

func init() {
	if v := os.Getenv("KVERIF_STORES"); v != "" {
		// debug: KVERIF_STORES=<field key> prints the value-origin terms of every store into that field
		L, err := load(loadOpts{})
		if err != nil {
			panic(err)
		}
		L.buildSSA()
		for _, st := range storesToField(pkgFuncs(L, genPkg), v) {
			s := newSym(L, map[string]bool{})
			s.maxD = 0
			fmt.Println(L.pos(st.Pos()), fnName(st.Parent()), strings.Join(s.eval(st.Val), " | "))
		}
		os.Exit(0)
	}
}

// cmdMulti runs several properties on one load of the tree (two when some of them want the checked-in outputs and some do
// not). Used by the self-test and the sweep over seeded changes, where the same tree is checked under many properties.
func cmdMulti(args []string) int {
	overlayPath := ""
	var ids []string
	for i := 0; i < len(args); i++ {
		if args[i] == "--overlay" && i+1 < len(args) {
			i++
			overlayPath = args[i]
			continue
		}
		ids = append(ids, args[i])
	}
	if len(ids) == 0 {
		usage()
	}
	ov, spec, err := readOverlay(overlayPath, repoRoot())
	if err != nil {
		if _, stale := err.(errOverlayStale); stale {
			fmt.Println("SKIP:", err)
			return 3
		}
		fmt.Println("ERROR:", err)
		return 2
	}
	if spec != nil {
		fmt.Printf("overlay variant %q applied in memory (%d file(s))\n", spec.Name, len(ov))
	}
	loaded := map[bool]*Loaded{}
	loadErr := map[bool]error{}
	worst := 0
	for _, id := range ids {
		def := registry[id]
		if def == nil {
			fmt.Fprintf(os.Stderr, "unknown property %s\n", id)
			return 2
		}
		fmt.Println("== PROP", id)
		code := func() (code int) {
			c := &Ctx{Prop: def.id, Tier: "quick", FuncsSeen: map[string]bool{}, start: time.Now(),
				Explanation: def.explanation, NotDecided: def.notDecided, Assumptions: def.assumptions, Extra: map[string]any{}}
			if _, done := loaded[def.withTestdata]; !done && loadErr[def.withTestdata] == nil {
				L, err := load(loadOpts{withTestdata: def.withTestdata, overlay: ov})
				loaded[def.withTestdata], loadErr[def.withTestdata] = L, err
			}
			if err := loadErr[def.withTestdata]; err != nil {
				c.L = &Loaded{Repo: repoRoot()}
				c.undecided(def.id+".0", "load", err.Error())
				return c.finish(false)
			}
			c.L = loaded[def.withTestdata]
			defer func() {
				if r := recover(); r != nil {
					c.undecided(def.id+".0", "panic", fmt.Sprintf("checker panic: %v", r))
					code = c.finish(false)
				}
			}()
			def.run(c)
			crossRegistered(c)
			c.Exhaustive = countUndecided(c.Finds) == 0
			return c.finish(false)
		}()
		fmt.Println("== EXIT", id, code)
		if code > worst {
			worst = code
		}
	}
	return worst
}
