package main

import (
	"fmt"
	"go/ast"
	"go/token"
	"go/types"
	"os"
	"path/filepath"
	"reflect"
	"regexp"
	"sort"
	"strings"

	"golang.org/x/tools/go/ssa"
)

func init() {
	register(&propDef{
		id:  "C16",
		run: runC16,
		explanation: "Table agreement and value-origin analysis for the skill installer: the agent registry, the kong subcommand fields of LLMSetupCmd, README's supported-agents list and README's default-path table are compared as bijections (names and paths are the constants the Agent methods return); the //go:embed directive is all:<dir> with <dir> equal to every SkillsSrcDir() and present on disk; " +
			"a branch-sensitive value-origin evaluation (module-local calls inlined, error checks assumed to succeed) of Install shows that the base directory is Abs(custom) / Join(home, UserSubPath) / Join(cwd, ProjectSubPath) exactly under the documented flag combinations, that every file of the walk reaches the publishing function with directory Join(base, skill name, Dir(rel)), name Base(rel) and content fs.ReadFile(embedded FS, walked path) unmodified, that the only file skipped by the walk callback is a directory, and that the content parameter reaches (*os.File).Write unchanged with mode constant 0644.",
		notDecided:  "what kong does with the tagged struct (trusted), embed's runtime semantics of all:, the actual bytes on disk after the syscalls (C15's axioms), behaviour when $HOME/cwd lookups fail.",
		assumptions: []string{"kong maps struct fields tagged cmd to subcommands named by name='..'", "//go:embed all:<dir> embeds every file below <dir> including dot files", "filepath.Join/Dir/Base/Rel have their documented meaning"},
	})
}

type agentInfo struct {
	typeName                             string
	name, project, user, srcDir, dirName string
	fsGlobal                             string
	ok                                   bool
	pos                                  token.Pos
}

func runC16(c *Ctx) {
	L := c.L
	L.buildSSA()
	p := L.Pkgs[llmPkg]
	sp := L.SSA[llmPkg]
	if p == nil || sp == nil {
		c.undecided("C16.1", "llmsetup", "package internal/llmsetup not loaded")
		return
	}
	c.Exhaustive = true

	// ---------- agents: implementers of Agent
	agentIface, _ := p.Types.Scope().Lookup("Agent").(*types.TypeName)
	if agentIface == nil {
		c.undecided("C16.1", "llmsetup.Agent", "interface Agent not found")
		return
	}
	iface := agentIface.Type().Underlying().(*types.Interface)
	infos := map[string]*agentInfo{}
	for _, n := range p.Types.Scope().Names() {
		tn, ok := p.Types.Scope().Lookup(n).(*types.TypeName)
		if !ok || tn == agentIface {
			continue
		}
		if _, isStruct := tn.Type().Underlying().(*types.Struct); !isStruct {
			continue
		}
		pt := types.NewPointer(tn.Type())
		if !types.Implements(pt, iface) {
			continue
		}
		ai := &agentInfo{typeName: n, ok: true, pos: tn.Pos()}
		get := func(m string) string {
			sel := L.Prog.MethodSets.MethodSet(pt).Lookup(p.Types, m)
			if sel == nil {
				ai.ok = false
				return ""
			}
			fn := L.Prog.MethodValue(sel)
			c.seen(fnName(fn))
			// C16.6 nil-receiver safety
			if len(fn.Params) > 0 && fn.Params[0].Referrers() != nil && len(*fn.Params[0].Referrers()) > 0 {
				c.fail("C16.6", n+"."+m+":receiver-used", L.pos(fn.Pos()), "agent method uses its receiver, but AgentCmd[T].Run calls it on the zero value of T (a nil pointer)")
			}
			if m == "SkillsFS" {
				for _, r := range returnsOf(fn) {
					u, ok := r.Results[0].(*ssa.UnOp)
					if ok {
						if g, ok := u.X.(*ssa.Global); ok {
							return g.Pkg.Pkg.Path() + "." + g.Name()
						}
					}
					ai.ok = false
				}
				return ""
			}
			s, ok := constReturn(fn)
			if !ok {
				ai.ok = false
			}
			return s
		}
		ai.name, ai.project, ai.user = get("Name"), get("ProjectSubPath"), get("UserSubPath")
		ai.srcDir, ai.dirName, ai.fsGlobal = get("SkillsSrcDir"), get("SkillsDirName"), get("SkillsFS")
		infos[n] = ai
		if !ai.ok {
			c.undecided("C16.1", n+":constant-methods", "an Agent method of "+n+" does not return a single constant")
		}
	}
	c.floor("C16.1", "Agent implementers", len(infos), 9)
	c.ok("C16.6", fmt.Sprintf("no Agent method of the %d implementers touches its receiver (Run calls them on a nil pointer)", len(infos)), "receiver parameter has no referrers in SSA")

	// ---------- registry `agents`
	registry := map[string]bool{}
	for _, f := range p.Syntax {
		for _, d := range f.Decls {
			gd, ok := d.(*ast.GenDecl)
			if !ok || gd.Tok != token.VAR {
				continue
			}
			for _, s := range gd.Specs {
				vs := s.(*ast.ValueSpec)
				for i, nm := range vs.Names {
					if nm.Name != "agents" || i >= len(vs.Values) {
						continue
					}
					cl, ok := vs.Values[i].(*ast.CompositeLit)
					if !ok {
						c.undecided("C16.1", "agents", "registry is not a composite literal")
						continue
					}
					for _, e := range cl.Elts {
						t := p.TypesInfo.TypeOf(e)
						if pt, ok := t.(*types.Pointer); ok {
							if nt, ok := pt.Elem().(*types.Named); ok {
								if registry[nt.Obj().Name()] {
									c.fail("C16.1", "agents:duplicate:"+nt.Obj().Name(), L.pos(e.Pos()), "agent registered twice")
								}
								registry[nt.Obj().Name()] = true
								continue
							}
						}
						c.undecided("C16.1", "agents:element", "registry element is not &T{}")
					}
				}
			}
		}
	}

	// ---------- kong subcommands of LLMSetupCmd
	type sub struct{ field, agentType, name string }
	var subs []sub
	cmdT, _ := p.Types.Scope().Lookup("LLMSetupCmd").(*types.TypeName)
	if cmdT == nil {
		c.undecided("C16.1", "LLMSetupCmd", "type LLMSetupCmd not found")
		return
	}
	st := cmdT.Type().Underlying().(*types.Struct)
	for i := 0; i < st.NumFields(); i++ {
		tag := parseKongTag(reflect.StructTag(st.Tag(i)).Get("kong"))
		_, isCmd := tag["cmd"]
		_, hidden := tag["hidden"]
		if !isCmd || hidden {
			continue
		}
		ft := types.Unalias(st.Field(i).Type())
		nt, ok := ft.(*types.Named)
		if !ok || nt.Origin().Obj().Name() != "AgentCmd" || nt.TypeArgs().Len() != 1 {
			c.fail("C16.1", "LLMSetupCmd."+st.Field(i).Name()+":type", L.pos(st.Field(i).Pos()), "visible subcommand is not an AgentCmd[*XAgent]")
			continue
		}
		at := ""
		if pt, ok := nt.TypeArgs().At(0).(*types.Pointer); ok {
			if n2, ok := pt.Elem().(*types.Named); ok {
				at = n2.Obj().Name()
			}
		}
		name := tag["name"]
		if name == "" {
			name = strings.ToLower(st.Field(i).Name()) // kong's default: hyphenated lower-case; only used for the comparison below
		}
		subs = append(subs, sub{st.Field(i).Name(), at, name})
	}

	// ---------- README
	readme, err := os.ReadFile(filepath.Join(L.Repo, "README.md"))
	if err != nil {
		c.undecided("C16.1", "README.md", err.Error())
		return
	}
	display2sub := map[string]string{}
	reLine := regexp.MustCompile(`(?m)^\*\*Supported agents:\*\*(.*)$`)
	if m := reLine.FindSubmatch(readme); m != nil {
		for _, it := range regexp.MustCompile("([A-Za-z][A-Za-z0-9 .+-]*?)\\(`([a-z0-9-]+)`\\)").FindAllSubmatch(m[1], -1) {
			display2sub[strings.TrimSpace(strings.TrimLeft(string(it[1]), ", "))] = string(it[2])
		}
	}
	if len(display2sub) == 0 {
		c.undecided("C16.1", "README:supported-agents", "cannot find the **Supported agents:** list in README.md")
		return
	}
	type rpath struct{ project, user string }
	readmePaths := map[string]rpath{}
	if i := strings.Index(string(readme), "**Default installation paths:**"); i >= 0 {
		rest := string(readme)[i:]
		for _, ln := range strings.Split(rest, "\n")[1:] {
			if !strings.HasPrefix(ln, "- ") {
				if len(readmePaths) > 0 {
					break
				}
				continue
			}
			m := regexp.MustCompile("^- \\*\\*(.+?):\\*\\*.*?`([^`]+)`.*?`([^`]+)`").FindStringSubmatch(ln)
			if m != nil {
				readmePaths[m[1]] = rpath{m[2], m[3]}
			}
		}
	}
	if len(readmePaths) == 0 {
		c.undecided("C16.1", "README:default-paths", "cannot find the **Default installation paths:** table in README.md")
		return
	}

	// ---------- agreement
	implNames := map[string]string{} // Name() -> type
	for tn, ai := range infos {
		if prev, dup := implNames[ai.name]; dup {
			c.fail("C16.1", "Name:duplicate:"+ai.name, L.pos(ai.pos), fmt.Sprintf("agents %s and %s share the subcommand name %q", prev, tn, ai.name))
		}
		implNames[ai.name] = tn
	}
	for tn := range infos {
		c.check(registry[tn], "C16.1", "agents:missing:"+tn, L.pos(infos[tn].pos), "agent "+tn+" is in the registry `agents`", "element &"+tn+"{}")
	}
	for tn := range registry {
		if infos[tn] == nil {
			c.fail("C16.1", "agents:unknown:"+tn, "-", "registry element "+tn+" is not an Agent implementer with constant methods")
		}
	}
	subTypes := map[string]bool{}
	for _, s := range subs {
		ai := infos[s.agentType]
		if ai == nil {
			c.fail("C16.1", "LLMSetupCmd."+s.field+":agent", "-", "subcommand's type argument "+s.agentType+" is not a known agent")
			continue
		}
		if subTypes[s.agentType] {
			c.fail("C16.1", "LLMSetupCmd:duplicate:"+s.agentType, "-", "two subcommands install agent "+s.agentType)
		}
		subTypes[s.agentType] = true
		c.check(ai.name == s.name, "C16.1", "LLMSetupCmd."+s.field+":name", L.pos(ai.pos), fmt.Sprintf("kong subcommand name of field %s equals %s.Name()", s.field, s.agentType), fmt.Sprintf("%q vs %q", s.name, ai.name))
	}
	for tn := range infos {
		c.check(subTypes[tn], "C16.1", "LLMSetupCmd:missing:"+tn, L.pos(infos[tn].pos), "agent "+tn+" has a visible kong subcommand", "field of type AgentCmd[*"+tn+"]")
	}
	readmeSubs := map[string]string{}
	for d, s := range display2sub {
		readmeSubs[s] = d
	}
	for s, d := range readmeSubs {
		c.check(implNames[s] != "", "C16.1", "README:agent:"+s, "README.md", fmt.Sprintf("README's agent %q (`%s`) exists in the CLI", d, s), "Name() of "+implNames[s])
	}
	for n, tn := range implNames {
		d, ok := readmeSubs[n]
		if !c.check(ok, "C16.1", "README:missing:"+n, L.pos(infos[tn].pos), fmt.Sprintf("agent %s (`%s`) is listed in README's supported agents", tn, n), d) {
			continue
		}
		rp, ok := readmePaths[d]
		if !c.check(ok, "C16.1", "README:paths-missing:"+n, "README.md", fmt.Sprintf("README documents default paths for %s", d), "") {
			continue
		}
		ai := infos[tn]
		normP := strings.TrimSuffix(rp.project, "/")
		normU := strings.TrimSuffix(strings.TrimPrefix(rp.user, "~/"), "/")
		c.check(normP == ai.project, "C16.1", tn+".ProjectSubPath", L.pos(ai.pos), fmt.Sprintf("%s.ProjectSubPath() equals README's project path", tn), fmt.Sprintf("%q vs README %q", ai.project, rp.project))
		c.check(strings.HasPrefix(rp.user, "~/") && normU == ai.user, "C16.1", tn+".UserSubPath", L.pos(ai.pos), fmt.Sprintf("%s.UserSubPath() equals README's user path", tn), fmt.Sprintf("%q vs README %q", ai.user, rp.user))
	}
	c.check(len(readmePaths) == len(implNames), "C16.1", "README:paths-count", "README.md", "README's default-path table has one row per agent", fmt.Sprintf("%d rows, %d agents", len(readmePaths), len(implNames)))
	c.sample(map[string]any{"agents": len(infos), "registry": len(registry), "subcommands": len(subs), "readme_agents": len(display2sub), "readme_path_rows": len(readmePaths)})

	// llm-setup itself is a subcommand of the CLI
	if cp := L.Pkgs[cfgPkg]; cp != nil {
		okCLI := false
		if cli, _ := cp.Types.Scope().Lookup("CLI").(*types.TypeName); cli != nil {
			cs := cli.Type().Underlying().(*types.Struct)
			for i := 0; i < cs.NumFields(); i++ {
				if nt, ok := types.Unalias(cs.Field(i).Type()).(*types.Named); ok && nt.Obj() == cmdT {
					tag := parseKongTag(reflect.StructTag(cs.Tag(i)).Get("kong"))
					if _, isCmd := tag["cmd"]; isCmd && tag["name"] == "llm-setup" && strings.Contains(string(readme), "kessoku llm-setup") {
						okCLI = true
					}
				}
			}
		}
		c.check(okCLI, "C16.1", "config.CLI:llm-setup", "-", "CLI has the subcommand `llm-setup` of type LLMSetupCmd, as README documents", "kong tag cmd,name='llm-setup'")
	}

	// ---------- C16.2 one embedded tree for all
	var embedDir string
	fsGlobals := map[string]bool{}
	srcDirs := map[string]bool{}
	dirNames := map[string]bool{}
	for _, ai := range infos {
		fsGlobals[ai.fsGlobal] = true
		srcDirs[ai.srcDir] = true
		dirNames[ai.dirName] = true
	}
	c.check(len(fsGlobals) == 1 && len(srcDirs) == 1 && len(dirNames) == 1, "C16.2", "agents:one-tree", "-", "all agents install the same embedded FS, source dir and skill name", fmt.Sprintf("%v %v %v", sortedKeys(fsGlobals), sortedKeys(srcDirs), sortedKeys(dirNames)))
	for _, f := range p.Syntax {
		for _, d := range f.Decls {
			gd, ok := d.(*ast.GenDecl)
			if !ok || gd.Tok != token.VAR || gd.Doc == nil {
				continue
			}
			for _, s := range gd.Specs {
				for _, nm := range s.(*ast.ValueSpec).Names {
					if fsGlobals[llmPkg+"."+nm.Name] {
						for _, cm := range gd.Doc.List {
							if strings.HasPrefix(cm.Text, "//go:embed ") {
								embedDir = strings.TrimSpace(strings.TrimPrefix(cm.Text, "//go:embed "))
							}
						}
					}
				}
			}
		}
	}
	if !strings.HasPrefix(embedDir, "all:") {
		c.fail("C16.2", "embed:pattern", "-", "the embedded skills variable has no `//go:embed all:<dir>` directive (dot-files and _files would be dropped)", "pattern: "+embedDir)
	} else {
		dir := strings.TrimPrefix(embedDir, "all:")
		c.check(srcDirs[dir] && len(strings.Fields(dir)) == 1, "C16.2", "embed:dir", "-", "embed directory equals every SkillsSrcDir()", fmt.Sprintf("%q vs %v", dir, sortedKeys(srcDirs)))
		n := 0
		_ = filepath.WalkDir(filepath.Join(L.Repo, "internal/llmsetup", dir), func(_ string, d os.DirEntry, err error) error {
			if err == nil && !d.IsDir() {
				n++
			}
			return nil
		})
		c.check(n >= 1, "C16.2", "embed:files", "-", "the embedded directory exists with at least one file", fmt.Sprintf("%d files under internal/llmsetup/%s", n, dir))
		c.Extra["embedded_files"] = n
	}
	for dn := range dirNames {
		c.check(dn != "" && !strings.ContainsAny(dn, "/\\") && dn != "." && dn != "..", "C16.2", "SkillsDirName", "-", "skill directory name is a single path element", fmt.Sprintf("%q", dn))
	}

	c16Flow(c)
}

var joinFlatten = regexp.MustCompile(`path/filepath\.Join\(list\(path/filepath\.Join\(list\(([^()]*(?:\([^()]*\))*[^()]*)\)\), `)

// normTerm flattens nested Joins and drops the list() wrapper so that Join(Join(a,b),c) == Join(a,b,c).
func normTerm(t string) string {
	t = strings.ReplaceAll(t, "invoke ("+llmPkg+".Agent).", "agent.")
	t = strings.ReplaceAll(t, "path/filepath.", "")
	for i := 0; i < 8; i++ {
		n := flattenJoin(t)
		if n == t {
			break
		}
		t = n
	}
	// path algebra for a last element that is the (clean, relative, non-empty) result of filepath.Rel on a walked file:
	//   Dir(Join(a..., rel))  == Join(a..., Dir(rel))     Base(Join(a..., rel)) == Base(rel)
	for i := 0; i < 4; i++ {
		n := pushDirBase(t)
		if n == t {
			break
		}
		t = n
	}
	return t
}

func pushDirBase(t string) string {
	for _, op := range []string{"Dir", "Base"} {
		pre := op + "(Join(list("
		i := strings.Index(t, pre)
		if i < 0 {
			continue
		}
		j := i + len(pre)
		// split the list content at top-level commas
		depth, start := 0, j
		var elems []string
		k := j
		for ; k < len(t); k++ {
			ch := t[k]
			if ch == '(' {
				depth++
			} else if ch == ')' {
				if depth == 0 {
					break
				}
				depth--
			} else if ch == ',' && depth == 0 {
				elems = append(elems, strings.TrimSpace(t[start:k]))
				start = k + 1
			}
		}
		if k >= len(t) {
			continue
		}
		elems = append(elems, strings.TrimSpace(t[start:k]))
		// t[k] closes list(, t[k+1] must close Join(, t[k+2] must close op(
		if k+2 >= len(t) || t[k+1] != ')' || t[k+2] != ')' || len(elems) < 2 {
			continue
		}
		last := elems[len(elems)-1]
		if !strings.HasPrefix(last, "Rel#0(") {
			continue
		}
		var repl string
		if op == "Dir" {
			repl = "Join(list(" + strings.Join(elems[:len(elems)-1], ", ") + ", Dir(" + last + ")))"
		} else {
			repl = "Base(" + last + ")"
		}
		return t[:i] + repl + t[k+3:]
	}
	return t
}

func flattenJoin(t string) string {
	const pre = "Join(list(Join(list("
	i := strings.Index(t, pre)
	if i < 0 {
		return t
	}
	// find the end of the inner list(...)
	j := i + len(pre)
	depth := 1
	k := j
	for ; k < len(t) && depth > 0; k++ {
		switch t[k] {
		case '(':
			depth++
		case ')':
			depth--
		}
	}
	// t[j:k-1] is the inner list content; t[k] must be ')' closing inner Join
	if k >= len(t) || t[k] != ')' {
		return t
	}
	inner := t[j : k-1]
	return t[:i] + "Join(list(" + inner + t[k+1:]
}

func c16Flow(c *Ctx) {
	L := c.L
	install := L.fn(llmPkg, "Install")
	if install == nil {
		c.undecided("C16.4", "Install", "internal/llmsetup.Install not found")
		return
	}
	c.seen(fnName(install))
	// identify the string and bool parameters (custom path, user flag) by type, not by name
	var pStr, pBool, pAgent string
	for _, p := range install.Params {
		switch {
		case types.Identical(p.Type(), types.Typ[types.String]):
			pStr = p.Name()
		case types.Identical(p.Type(), types.Typ[types.Bool]):
			pBool = p.Name()
		default:
			pAgent = p.Name()
		}
	}
	if pStr == "" || pBool == "" || pAgent == "" {
		c.undecided("C16.4", "Install:signature", "Install does not take (agent, string, bool)")
		return
	}
	ag := "param:" + pAgent
	type caseT struct {
		name   string
		assume map[string]bool
		want   string
	}
	cases := []caseT{
		{"--path given (with or without --user)", map[string]bool{"nonempty:param:" + pStr: true}, "Join(list(Abs#0(param:" + pStr + "), agent.SkillsDirName(" + ag + ")))"},
		{"--user, no --path", map[string]bool{"nonempty:param:" + pStr: false, "param:" + pBool: true}, "Join(list(os.UserHomeDir#0(), agent.UserSubPath(" + ag + "), agent.SkillsDirName(" + ag + ")))"},
		{"default (project)", map[string]bool{"nonempty:param:" + pStr: false, "param:" + pBool: false}, "Join(list(os.Getwd#0(), agent.ProjectSubPath(" + ag + "), agent.SkillsDirName(" + ag + ")))"},
	}
	skillPaths := map[string]bool{}
	for _, cs := range cases {
		s := newSym(L, cs.assume)
		got := s.evalFn(install, 0)
		for i := range got {
			got[i] = normTerm(got[i])
		}
		got = uniq(got)
		skillPaths[cs.want] = true
		c.check(len(got) == 1 && got[0] == cs.want, "C16.4", "Install:base:"+cs.name, L.pos(install.Pos()),
			"installation root for "+cs.name+" is "+cs.want, "value-origin terms of Install's result under the flag assumption: "+strings.Join(got, " | "))
		c.sample(map[string]any{"case": cs.name, "terms": got})
	}

	// the publishing call inside the walk callback
	var pubFns = map[*ssa.Function]bool{}
	for _, fn := range llmFuncs(L) {
		for _, rn := range findCalls(fn, "os.Rename") {
			// the function that creates the temporary file; the rename itself may sit in its last-phase helper
			root, _, _, _ := publishRoot(L, fn, rn)
			pubFns[root] = true
		}
	}
	nPub := 0
	methodCallbacks := map[*ssa.Function]bool{} // walk callbacks given as method values: checked as callbacks, not as helpers
	for _, fn := range llmFuncs(L) {
		for _, cs := range callsIn(fn) {
			callee := cs.common.StaticCallee()
			if callee == nil || !pubFns[callee] || fn == callee {
				continue
			}
			nPub++
			where := fnName(fn)
			c.seen(where)
			// evaluate the three arguments with no flag assumption: dir must be one of the three roots + Dir(rel)
			s := newSym(L, map[string]bool{})
			s.stack[install] = true
			root := fn
			for root.Parent() != nil {
				root = root.Parent()
			}
			// the publishing call may sit in a helper that the walk callback calls once: its argument terms are then
			// rewritten into the callback's context (parameter -> term of the actual argument)
			cb, cbCall := fn, cs
			subst := func(ts []string) []string { return ts }
			if fn.Parent() == nil && fn != install {
				var sites []callSite
				for _, g := range llmFuncs(L) {
					for _, cs2 := range callsIn(g) {
						if cs2.common.StaticCallee() == fn {
							sites = append(sites, cs2)
						}
					}
				}
				if len(sites) == 1 && sites[0].fn.Parent() != nil {
					outer := sites[0]
					cb, cbCall = outer.fn, outer
					c.seen(fnName(cb))
					s3 := newSym(L, map[string]bool{})
					s3.stack[install] = true
					type rep struct {
						re   *regexp.Regexp
						vals []string
					}
					var reps []rep
					for i, p := range fn.Params {
						if i < len(outer.common.Args) {
							reps = append(reps, rep{regexp.MustCompile(`param:` + regexp.QuoteMeta(p.Name()) + `\b`), s3.eval(outer.common.Args[i])})
						}
					}
					subst = func(ts []string) []string {
						for _, r := range reps {
							var next []string
							for _, t := range ts {
								if !r.re.MatchString(t) {
									next = append(next, t)
									continue
								}
								for _, v := range r.vals {
									next = append(next, r.re.ReplaceAllLiteralString(t, v))
								}
							}
							ts = uniq(next)
						}
						return ts
					}
				}
			}
			// the callback may be a method value (copier.visit): what the closure would capture are then the fields of the
			// bound receiver, a struct filled in by the function that starts the walk
			recvOff := 0
			var hostMC *ssa.MakeClosure
			recvSubst := func(ts []string) []string { return ts }
			if cb.Parent() == nil && cb != install && cb.Signature.Recv() != nil {
				if mc, fields := boundMethodValue(L, llmFuncs(L), cb); mc != nil {
					hostMC, recvOff = mc, 1
					methodCallbacks[cb] = true
					c.seen(fnName(mc.Parent()))
					s5 := newSym(L, map[string]bool{})
					s5.stack[install] = true
					type rep3 struct {
						re   *regexp.Regexp
						vals []string
					}
					var reps []rep3
					for key, val := range fields {
						reps = append(reps, rep3{regexp.MustCompile(`field:` + regexp.QuoteMeta(key) + `\(param:` + regexp.QuoteMeta(cb.Params[0].Name()) + `\)`), s5.eval(val)})
					}
					recvSubst = func(ts []string) []string {
						for _, r := range reps {
							var next []string
							for _, t := range ts {
								if !r.re.MatchString(t) {
									next = append(next, t)
									continue
								}
								for _, v := range r.vals {
									next = append(next, r.re.ReplaceAllLiteralString(t, v))
								}
							}
							ts = uniq(next)
						}
						return ts
					}
				}
			}
			// the function that contains the walk may itself be a helper of Install (installTree(fs, src, dst)): its
			// parameters are rewritten into Install's context in the same way
			lift := func(ts []string) []string { return ts }
			cbRoot := cb
			if hostMC != nil {
				cbRoot = hostMC.Parent()
			}
			for cbRoot.Parent() != nil {
				cbRoot = cbRoot.Parent()
			}
			if cbRoot != install {
				var sites []callSite
				for _, g := range llmFuncs(L) {
					for _, cs2 := range callsIn(g) {
						if cs2.common.StaticCallee() == cbRoot {
							sites = append(sites, cs2)
						}
					}
				}
				if len(sites) == 1 {
					outer := sites[0]
					c.seen(fnName(cbRoot))
					s4 := newSym(L, map[string]bool{})
					s4.stack[install] = true
					type rep2 struct {
						re   *regexp.Regexp
						vals []string
					}
					var reps []rep2
					for i, p := range cbRoot.Params {
						if i < len(outer.common.Args) {
							reps = append(reps, rep2{regexp.MustCompile(`param:` + regexp.QuoteMeta(p.Name()) + `\b`), s4.eval(outer.common.Args[i])})
						}
					}
					lift = func(ts []string) []string {
						for _, r := range reps {
							var next []string
							for _, t := range ts {
								if !r.re.MatchString(t) {
									next = append(next, t)
									continue
								}
								for _, v := range r.vals {
									next = append(next, r.re.ReplaceAllLiteralString(t, v))
								}
							}
							ts = uniq(next)
						}
						return ts
					}
				}
			}
			inner := subst
			subst = func(ts []string) []string { return lift(recvSubst(inner(ts))) }
			walked := ""
			if len(cb.Params) > recvOff && (cb.Parent() != nil || hostMC != nil) {
				walked = "param:" + cb.Params[recvOff].Name()
			}
			srcDir := "agent.SkillsSrcDir(" + ag + ")"
			rel := "Rel#0(" + srcDir + ", " + walked + ")"
			wantDirs := map[string]bool{}
			for sp := range skillPaths {
				wantDirs[strings.TrimSuffix(sp, "))")+", Dir("+rel+")))"] = true
			}
			dirs := subst(s.eval(cs.arg(0)))
			okDir := len(dirs) > 0
			for i := range dirs {
				dirs[i] = normTerm(dirs[i])
				if !wantDirs[dirs[i]] {
					okDir = false
				}
			}
			c.check(okDir && len(uniq(dirs)) == len(wantDirs), "C16.5", where+":target-dir", L.pos(cs.instr.Pos()),
				"every file is installed under <base>/<skill name>/<its directory inside the embedded tree>", "target directory terms: "+strings.Join(uniq(dirs), " | "))
			names := subst(s.eval(cs.arg(1)))
			for i := range names {
				names[i] = normTerm(names[i])
			}
			names = uniq(names)
			c.check(len(names) == 1 && names[0] == "Base("+rel+")", "C16.3", where+":file-name", L.pos(cs.instr.Pos()),
				"the installed file keeps its name from the embedded tree", "file name term: "+strings.Join(names, " | "))
			content := subst(s.eval(cs.arg(2)))
			for i := range content {
				content[i] = normTerm(content[i])
			}
			wantContent := "io/fs.ReadFile#0(agent.SkillsFS(" + ag + "), " + walked + ")"
			for i := range content {
				// the embedded file system read through its own method: fs.ReadFile dispatches to it
				content[i] = strings.Replace(content[i], "(embed.FS).ReadFile#0(", "io/fs.ReadFile#0(", 1)
			}
			content = uniq(content)
			c.check(len(content) == 1 && content[0] == wantContent, "C16.3", where+":content", L.pos(cs.instr.Pos()),
				"the installed bytes are exactly fs.ReadFile(embedded FS, walked path)", "content term: "+strings.Join(content, " | "))

			// the callback is the WalkDir callback over (SkillsFS, SkillsSrcDir)
			okWalk := false
			walkHost := cb.Parent()
			if hostMC != nil {
				walkHost = hostMC.Parent()
			}
			if walkHost != nil {
				for _, w := range findCalls(walkHost, "io/fs.WalkDir") {
					if mc, ok := resolve(w.arg(2)).(*ssa.MakeClosure); ok && (mc.Fn == cb || mc == hostMC) {
						s2 := newSym(L, map[string]bool{})
						a0, a1 := lift(s2.eval(w.arg(0))), lift(s2.eval(w.arg(1)))
						if len(a0) == 1 && len(a1) == 1 && normTerm(a0[0]) == "agent.SkillsFS("+ag+")" && normTerm(a1[0]) == srcDir {
							okWalk = true
						} else {
							c.Notes = append(c.Notes, "WalkDir args: "+strings.Join(a0, "|")+" ; "+strings.Join(a1, "|"))
						}
					}
				}
			}
			c.check(okWalk, "C16.3", where+":walk-root", L.pos(cb.Pos()), "the callback is the fs.WalkDir callback over (agent.SkillsFS(), agent.SkillsSrcDir())", "WalkDir arguments evaluated")

			// nil returns of the callback: only for directories or after a successful install
			isDirEdges := []*ssa.BasicBlock{}
			for _, b := range cb.Blocks {
				for _, in := range b.Instrs {
					call, ok := in.(*ssa.Call)
					if !ok || !call.Common().IsInvoke() || call.Common().Method.Name() != "IsDir" {
						continue
					}
					if len(cb.Params) < 2+recvOff || resolve(call.Common().Value) != ssa.Value(cb.Params[1+recvOff]) {
						continue
					}
					for _, r := range *call.Referrers() {
						if iff, ok := r.(*ssa.If); ok {
							isDirEdges = append(isDirEdges, iff.Block().Succs[0])
						}
					}
				}
			}
			var okInstall *ssa.BasicBlock
			if call := cbCall.value(); call != nil {
				for _, t := range nilTestsOf(errorResult(call)) {
					okInstall = t.onNil
				}
			}
			for _, r := range returnsOf(cb) {
				if len(r.Results) == 0 {
					continue
				}
				if last := r.Results[len(r.Results)-1]; !isNilConst(last) && !knownNilAt(last, r.Block()) {
					continue
				}
				just := ""
				for _, e := range isDirEdges {
					if e == r.Block() || e.Dominates(r.Block()) {
						just = "the entry is a directory"
					}
				}
				if okInstall != nil && (okInstall == r.Block() || okInstall.Dominates(r.Block())) {
					just = "the file was installed successfully"
				}
				c.check(just != "", "C16.3", fmt.Sprintf("%s:skip-return", where), L.pos(r.Pos()),
					"the walk callback returns nil (continues) only for directories or after installing the file", fmt.Sprintf("return in block %d: %s", r.Block().Index, just))
			}
		}
	}
	c.floor("C16.3", "call sites of the publishing function", nPub, 1)
	// a helper between the callback and the publishing function reports success only after the publishing call succeeded
	for _, fn := range llmFuncs(L) {
		if fn.Parent() != nil || fn == install || pubFns[fn] || methodCallbacks[fn] {
			continue
		}
		for _, cs := range callsIn(fn) {
			callee := cs.common.StaticCallee()
			if callee == nil || !pubFns[callee] || cs.value() == nil || errorResultIndex(fn) < 0 {
				continue
			}
			var okInstall *ssa.BasicBlock
			for _, t := range nilTestsOf(errorResult(cs.value())) {
				okInstall = t.onNil
			}
			for _, r := range returnsOf(fn) {
				last := r.Results[len(r.Results)-1]
				if !isNilConst(last) && !knownNilAt(last, r.Block()) {
					continue
				}
				c.check(okInstall != nil && (okInstall == r.Block() || okInstall.Dominates(r.Block())), "C16.3", fnName(fn)+":skip-return", L.pos(r.Pos()),
					"a helper of the walk callback reports success only after installing the file", fmt.Sprintf("return in block %d", r.Block().Index))
			}
		}
	}

	// content parameter reaches Write unmodified
	for fn := range pubFns {
		// a nil (success) return is only possible after the rename succeeded: no "nothing to do" shortcut that
		// leaves an existing file with other content, mode or type in place
		for _, rn := range findCalls(fn, "os.Rename") {
			call := rn.value()
			if call == nil {
				continue
			}
			var onNil *ssa.BasicBlock
			for _, t := range nilTestsOf(errorResult(call)) {
				onNil = t.onNil
			}
			for _, r := range returnsOf(fn) {
				if !returnsNilError(r) {
					continue
				}
				c.check(onNil != nil && (onNil == r.Block() || onNil.Dominates(r.Block())), "C16.3", fnName(fn)+":success-implies-published", L.pos(r.Pos()),
					"the publishing function reports success only after os.Rename succeeded (no shortcut that keeps whatever already exists)", fmt.Sprintf("success return in block %d", r.Block().Index))
			}
		}
		for _, w := range findCalls(fn, "(*os.File).Write") {
			par, ok := resolve(w.arg(1)).(*ssa.Parameter)
			c.check(ok && types.Identical(par.Type(), types.NewSlice(types.Typ[types.Byte])), "C16.3", fnName(fn)+":Write.content", L.pos(w.instr.Pos()),
				"the bytes written are the content parameter, unmodified", "Write argument is "+describe(w.arg(1)))
		}
		for _, m := range findCalls(fn, "os.MkdirAll") {
			mode, ok := constInt(m.arg(1))
			c.check(ok && mode == 0o755, "C16.3", fnName(fn)+":MkdirAll.mode", L.pos(m.instr.Pos()), "missing parent directories are created with mode 0755", fmt.Sprintf("%#o", mode))
		}
		chmods := append(findCalls(fn, "os.Chmod"), findCalls(fn, "(*os.File).Chmod")...)
		for _, m := range chmods {
			mode, ok := constInt(m.arg(1))
			c.check(ok && mode == 0o644, "C16.3", fnName(fn)+":Chmod.mode", L.pos(m.instr.Pos()), "installed files get mode 0644", fmt.Sprintf("%#o", mode))
		}
		// the mode is set explicitly before publishing: a creation mode alone is subject to the process umask
		for _, rn := range findCalls(fn, "os.Rename") {
			okSet := false
			for _, m := range chmods {
				if m.value() != nil {
					if ok, _ := checkedBefore(m.value(), rn.instr); ok {
						okSet = true
					}
				}
			}
			c.check(okSet, "C16.3", fnName(fn)+":mode-set-explicitly-before-publish", L.pos(rn.instr.Pos()),
				"the published file's mode does not depend on the umask: a checked chmod to 0644 precedes the rename on every path", fmt.Sprintf("%d chmod call(s) in the publishing function", len(chmods)))
		}
	}

	// C16.5: the base is validated before the walk
	for _, w := range findCalls(install, "io/fs.WalkDir") {
		okV := false
		for _, v := range callsIn(install) {
			if v.common.StaticCallee() != nil && v.common.StaticCallee().Name() == "ValidatePath" && v.value() != nil {
				if ok, _ := checkedBefore(v.value(), w.instr); ok {
					okV = true
				}
			}
		}
		c.check(okV, "C16.5", "Install:ValidatePath-before-walk", L.pos(w.instr.Pos()), "the base path is validated (not a regular file) before anything is installed", "ValidatePath dominates WalkDir, error edge cannot reach it")
	}

	// C16.9 the two target flags are plain, independent flags: --path and --user may be combined (--path wins), so their kong
	// tags carry no exclusion/requirement option
	if ac := L.Pkgs[llmPkg].Types.Scope().Lookup("AgentCmd"); ac != nil {
		if st, ok := ac.Type().Underlying().(*types.Struct); ok {
			nFlags := 0
			for i := 0; i < st.NumFields(); i++ {
				f := st.Field(i)
				if f.Name() != "Path" && f.Name() != "User" {
					continue
				}
				nFlags++
				tag := parseKongTag(reflect.StructTag(st.Tag(i)).Get("kong"))
				var bad []string
				for k := range tag {
					switch k {
					case "short", "help", "name", "placeholder", "type", "aliases", "group", "negatable", "":
					default:
						bad = append(bad, k)
					}
				}
				sort.Strings(bad)
				c.check(len(bad) == 0, "C16.9", "AgentCmd."+f.Name()+":kong-options", "-", "the --"+strings.ToLower(f.Name())+" flag is an unconstrained flag whose value comes from the command line only (no xor/and/required/enum/hidden/env/default option): every documented flag combination reaches Run and nothing ambient chooses the directory", fmt.Sprintf("options: %v", sortedKeys(tag)))
			}
			c.floor("C16.9", "target flags of AgentCmd", nFlags, 2)
		}
	}

	// C16.9 (cont.) the parser is built with presentation options only: nothing that feeds flags from the environment, from
	// configuration files or through resolvers (the installation directory is a function of the command line alone)
	if run := L.fn(cfgPkg, "Run"); run != nil {
		c.seen(fnName(run))
		nOpt := 0
		for _, cs := range callsIn(run) {
			if cs.callee != "github.com/alecthomas/kong.Parse" && cs.callee != "github.com/alecthomas/kong.New" && cs.callee != "github.com/alecthomas/kong.Must" {
				continue
			}
			elems, ok := variadicElems(cs.common.Args[len(cs.common.Args)-1])
			if !ok {
				c.undecided("C16.9", "config.Run:kong-parser-options", "the option list of the kong parser is not a literal list")
				continue
			}
			for _, e := range elems {
				nOpt++
				v := resolve(e)
				if mi, isMI := v.(*ssa.MakeInterface); isMI {
					v = resolve(mi.X)
				}
				name := describe(v)
				okOpt := false
				if call, isCall := v.(*ssa.Call); isCall {
					name = calleeOf(call.Common())
					switch strings.TrimPrefix(name, "github.com/alecthomas/kong.") {
					case "Name", "Description", "UsageOnError", "ConfigureHelp", "Help", "HelpFormatter", "ShortUsageOnError", "ShortHelp", "Exit", "Writers", "NoDefaultHelp", "ExplicitGroups", "AutoGroup", "Bind", "BindTo", "BindToProvider", "WithBeforeApply", "ValueFormatter", "PostBuild":
						okOpt = true
					}
				} else if strings.HasSuffix(v.Type().String(), "kong.Vars") || strings.HasSuffix(e.Type().String(), "kong.Vars") {
					okOpt, name = true, "kong.Vars"
				} else if mi, isMI := resolve(e).(*ssa.MakeInterface); isMI && strings.HasSuffix(mi.X.Type().String(), "kong.Vars") {
					okOpt, name = true, "kong.Vars"
				}
				c.check(okOpt, "C16.9", "config.Run:kong-option:"+strings.TrimPrefix(name, "github.com/alecthomas/kong."), L.pos(cs.instr.Pos()),
					"the command-line parser gets presentation options only (no DefaultEnvars, Configuration, Resolvers or mappers: flag values come from the command line)", name)
			}
		}
		c.floor("C16.9", "options of the kong parser in config.Run", nOpt, 1)
	}

	// C16.6 success only after the whole walk: every success return of Install is dominated by the checked WalkDir call
	// (no "already installed" shortcut that skips files)
	ruleInstallWalksBeforeSuccess(c, "C16.6", install)
	ruleDestinationNotInspected(c, "C16.10")
	ruleRootPerMode(c, "C16.11")

	// C16.7 nothing outside the installation directory is modified: the mutator-ownership rule of C15.3 (every filesystem
	// mutator of the package takes the target directory, the temporary name or - Rename only - the destination) is also the
	// necessary condition of "only <base>/kessoku-di is written"
	{
		sub := &Ctx{Prop: c.Prop, Tier: c.Tier, L: c.L, FuncsSeen: c.FuncsSeen, Extra: map[string]any{}, RoleNames: c.RoleNames}
		runC15(sub)
		for _, o := range sub.Obls {
			if o.Rule == "C15.3" {
				o.Rule = "C16.7"
				c.Obls = append(c.Obls, o)
			}
		}
		for _, f := range sub.Finds {
			if f.Rule == "C15.3" {
				f.Rule = "C16.7"
				f.Property = c.Prop
				c.Finds = append(c.Finds, f)
			}
		}
	}
	// C16.8 a base that is a symbolic link to a directory is a directory: path validation follows links (no Lstat)
	nStat := 0
	for _, fn := range llmFuncs(L) {
		for _, cs := range callsIn(fn) {
			if cs.callee == "os.Stat" {
				nStat++
			}
			if cs.callee == "os.Lstat" {
				c.fail("C16.8", fnName(fn)+":os.Lstat", L.pos(cs.instr.Pos()), "the installer inspects a path without following symbolic links: a base directory reached through a link would be treated as a file")
			}
		}
	}
	c.floor("C16.8", "os.Stat calls in internal/llmsetup", nStat, 1)

	// Run passes its own flags
	if run := L.fn(llmPkg, "(*AgentCmd).Run"); run != nil {
		c.seen(fnName(run))
		for _, cs := range callsIn(run) {
			if cs.common.StaticCallee() == install {
				s := newSym(L, map[string]bool{})
				var terms []string
				for _, a := range cs.common.Args {
					terms = append(terms, strings.Join(s.eval(a), "|"))
				}
				okArgs := len(terms) == 3 && (strings.HasPrefix(terms[0], "zero:") || terms[0] == "nil") && strings.Contains(terms[1], "AgentCmd.Path(") && strings.Contains(terms[2], "AgentCmd.User(")
				c.check(okArgs, "C16.4", "AgentCmd.Run:arguments", L.pos(cs.instr.Pos()), "Run installs agent T with its own --path and --user flags", strings.Join(terms, " ; "))
			}
		}
	} else {
		c.undecided("C16.4", "AgentCmd.Run", "method (*AgentCmd[T]).Run not found")
	}
	sort.Strings(c.Notes)
}

// boundMethodValue: the one place in fns where method m is turned into a function value (recv.m), and the values stored
// into the fields of the bound receiver (a local struct filled in once per field, before the method value is taken), keyed
// like fieldKey.
func boundMethodValue(L *Loaded, fns []*ssa.Function, m *ssa.Function) (*ssa.MakeClosure, map[string]ssa.Value) {
	var found *ssa.MakeClosure
	n := 0
	for _, g := range fns {
		for _, b := range g.Blocks {
			for _, in := range b.Instrs {
				mc, ok := in.(*ssa.MakeClosure)
				if !ok {
					continue
				}
				bf, ok := mc.Fn.(*ssa.Function)
				if !ok || !strings.HasPrefix(bf.Synthetic, "bound method wrapper") || bf.Object() == nil || bf.Object() != m.Object() {
					continue
				}
				n++
				found = mc
			}
		}
	}
	if n != 1 || len(found.Bindings) != 1 {
		return nil, nil
	}
	v := found.Bindings[0]
	if u, ok := v.(*ssa.UnOp); ok && u.Op == token.MUL {
		v = u.X
	}
	al, ok := v.(*ssa.Alloc)
	if !ok {
		return nil, nil
	}
	fields := map[string]ssa.Value{}
	for _, b := range al.Parent().Blocks {
		for _, in := range b.Instrs {
			st, ok := in.(*ssa.Store)
			if !ok {
				continue
			}
			fa, ok := st.Addr.(*ssa.FieldAddr)
			if !ok || fa.X != ssa.Value(al) {
				continue
			}
			k := fieldKey(fa)
			if _, dup := fields[k]; dup || !instrDominates(st, found) {
				return nil, nil // written twice or after the method value was taken: not a plain bundle of values
			}
			fields[k] = st.Val
		}
	}
	return found, fields
}
