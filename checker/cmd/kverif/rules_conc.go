package main

// Property runners for the concurrency properties C01, C03, C05, C06, C07, C08: generator-source (GS) rules
// followed by the analysis of the checked-in outputs (CO, see co.go).

import (
	"strings"

	"golang.org/x/tools/go/ssa"
)

func init() {
	register(&propDef{
		id: "C01", withTestdata: true,
		run: func(c *Ctx) {
			ruleStmtOrder(c, "C01.1")
			ruleChannelGuards(c, "C01.3")
			ruleIsWaitTable(c, "C01.4")
			ruleRefTable(c, "C01.2")
			ruleAssignToken(c, "C01.5")
			rulePairedEdges(c, "C01.6")
			rulePoolsProcessed(c, "C01.6")
			ruleFieldAccessSync(c, "C01.7")
			ruleSnapshotReadOnly(c, "C01.4")
			ruleGuardReceivers(c, "C01.3")
			ruleNoEarlyExit(c, "C01.7", "(*InjectorProviderCallStmt).generateChannelWaitStatement", "(*InjectorProviderCallStmt).buildArguments", "(*Graph).buildPoolStmtsSimple")
			ruleClosedEmission(c, "C01.9")
			rulePoolsAppendOnly(c, "C01.6")
			ruleLaneIntegrity(c, "C01.6")
			ruleEveryStmtEmittedInPlace(c, "C01.6")
			ruleExprListsFresh(c, "C01.3")
			ruleWhoMayCall(c, "C01.7", "(*InjectorParam).Ref", "reference counts and channel flags are decided while the graph is built (Build), never while code is emitted", "(*Graph).Build")
			ruleWhoMayCall(c, "C01.7", "(*InjectorProviderCallStmt).channelsWait", "a wait is emitted only by a provider statement for its own arguments", "(*InjectorProviderCallStmt).Stmt")
			ruleSyncJoinsItsInputs(c, "C01.10")
			ruleDoneCaseLeaves(c, "C01.11")
			// user identifiers reach the allocator (a generated local that takes the name of a package-level variable of a sibling
			// file shadows it in the copied provider expression: the predeclared local is then read before it is written)
			{
				sub := &Ctx{Prop: c.Prop, Tier: c.Tier, L: c.L, FuncsSeen: c.FuncsSeen, Extra: c.Extra, RoleNames: c.RoleNames}
				alloc := map[*ssa.Function]bool{}
				for _, fn := range pkgFuncs(c.L, genPkg) {
					if strings.HasSuffix(fn.String(), "VarPool).GetName") || strings.HasSuffix(fn.String(), "VarPool).Get") || strings.HasSuffix(fn.String(), "VarPool).GetChannel") {
						alloc[fn] = true
					}
				}
				c12Registration(sub, alloc)
				for _, o := range sub.Obls {
					o.Rule = "C01.12"
					c.Obls = append(c.Obls, o)
				}
				for _, f := range sub.Finds {
					f.Rule = "C01.12"
					c.Finds = append(c.Finds, f)
				}
			}
			coRun(c, "C01.8", coRace)
		},
		explanation: "GS (all generator inputs, emission discipline): inside every producer statement the wait is appended before the provider call and the close after it; done-channels are declared, awaited and closed under one predicate (truth tables over the guarding atoms, exhaustively enumerated); IsWait=false implies same pool or already-provided (exhaustive table over pool indices in {-1,0,1}); InjectorParam.Ref keeps the channel flag sticky; shared variables are assigned with = whenever the injector predeclares them; each dependency edge is recorded in both directions in one block, the topological counter is len(reverseEdges); every built pool is marked processed; argument/wait collection loops have no early exit. " +
			"CO (all schedules, 36 checked-in injectors): a happens-before closure over each generated function shows every read of a shared variable ordered after its unique write, by program order or a close->receive edge.",
		notDecided:  "that the pool heuristic (findOptimalPool) places every field read in its struct's pool and that topologicalSortIter yields producers first for unseen DAGs (algorithmic); CO verdicts hold for the files as checked in.",
		assumptions: []string{"Go memory model: close(ch) happens-before a receive that returns because ch is closed; go statement happens-before the goroutine's start", "errgroup.Group.Go/Wait: Wait returns after all functions returned", "providers do not touch the injector's local variables"},
	})
	register(&propDef{
		id: "C03", withTestdata: true,
		run: func(c *Ctx) {
			ruleChannelGuards(c, "C03.1")
			ruleNoEarlyExit(c, "C03.2", "(*InjectorProviderCallStmt).generateChannelCloseStatement", "(*InjectorChainStmt).Stmt#emits", "generateStmts", "(*Graph).buildPoolStmtsSimple")
			ruleSpawnFirst(c, "C03.3")
			ruleWaitBeforeReturn(c, "C03.4")
			ruleChainWrapped(c, "C03.5")
			rulePoolPredicate(c, "C03.7")
			rulePoolsProcessed(c, "C03.7")
			rulePairedEdges(c, "C03.7")
			ruleRefTable(c, "C03.1")
			ruleGuardReceivers(c, "C03.1")
			ruleChainOnlyWraps(c, "C03.5")
			ruleFieldAccessSync(c, "C03.7")
			ruleClosedEmission(c, "C03.8")
			rulePoolsAppendOnly(c, "C03.7")
			ruleLaneIntegrity(c, "C03.7")
			ruleEveryStmtEmittedInPlace(c, "C03.5")
			ruleExprListsFresh(c, "C03.1")
			ruleWhoMayCall(c, "C03.1", "(*InjectorParam).Ref", "reference counts and channel flags are decided while the graph is built (Build), never while code is emitted", "(*Graph).Build")
			ruleWhoMayCall(c, "C03.1", "(*InjectorProviderCallStmt).channelsWait", "a wait is emitted only by a provider statement for its own arguments", "(*InjectorProviderCallStmt).Stmt")
			ruleCallerLaneChoice(c, "C03.7")
			ruleReadinessByFirstNode(c, "C03.9")
			ruleEmptyPoolForAsyncOnly(c, "C03.10")
			ruleEmittedPoolIsMarkedScheduled(c, "C03.11")
			ruleNoExitBypassesClose(c, "C03.12")
			c12Reserved(c, "C03.13")
			coRun(c, "C03.6", coTermination)
		},
		explanation: "GS: every producer kind closes exactly the channels the var block declares (one predicate, loops without early exit, hence one close per barrier); the emitted list is all eg.Go chains followed by the main thread, so no main-thread wait can precede a spawn; eg.Wait is appended before the normal return under the same predicate that declares the group; a chain is a single eg.Go(func() error {...; return nil}); a pool is a goroutine exactly when its first provider is Async, at every decision site; every built pool unblocks its dependants. " +
			"CO (all schedules, fault-free, 36 injectors): the event graph (program order + spawn + close->wait + goroutine end->Wait) is acyclic, every awaited barrier has exactly one close in an always-spawned thread on every path, no barrier is closed twice, and Wait precedes the normal return.",
		notDecided:  "acyclicity of cross-thread waits for unseen DAGs (depends on the heuristic's pool choice and on topologicalSortIter).",
		assumptions: []string{"errgroup.Group semantics", "providers return"},
	})
	register(&propDef{
		id: "C05", withTestdata: true,
		run: func(c *Ctx) {
			ruleSpawnFirst(c, "C05.1")
			ruleChainWrapped(c, "C05.2")
			ruleChainOnlyWraps(c, "C05.2")
			ruleChannelGuards(c, "C05.3")
			ruleNoEarlyExit(c, "C05.3", "(*InjectorProviderCallStmt).generateChannelWaitStatement")
			rulePoolPredicate(c, "C05.1")
			ruleAsyncFlag(c, "C05.5")
			ruleNoBreak(c, "C05.6", "(*Graph).findOptimalPool", "findOptimalPool: the backward scan of a candidate pool runs until it meets a dependency (reuse the pool) or an Async provider (try the next pool); it is never cut short, so an Async provider is not queued behind another Async provider that a sync provider happens to hide")
			ruleClosedEmission(c, "C05.7")
			rulePoolsAppendOnly(c, "C05.8")
			ruleLaneIntegrity(c, "C05.8")
			ruleProviderCallOnlyInItsStatement(c, "C05.10")
			rulePoolCountIsAntichain(c, "C05.11")
			ruleCandidatePoolScannedWhole(c, "C05.12")
			ruleCallerAppendsSyncPoolsOnly(c, "C05.13")
			ruleMatchingVisitedFreshPerRoot(c, "C05.14")
			ruleEmptyPoolForAsyncOnly(c, "C05.15")
			ruleQueueIsFIFO(c, "C05.9")
			ruleSourcesSeededFirst(c, "C05.9")
			ruleArgminOverCandidates(c, "C05.9")
			ruleSchedulerReadsAsyncFlag(c, "C05.9")
			ruleEveryStmtEmittedInPlace(c, "C05.2")
			coRun(c, "C05.4", coParallel)
		},
		explanation: "Narrow claim. GS: goroutines are spawned before the main thread's first call; chains are wrapped in eg.Go, never inlined; a provider statement waits only for channels collected from its own arguments, so an input-free provider emits no wait; a pool runs as a goroutine exactly when its first provider is Async; the Async marker is propagated through every wrapper the parser unwraps (Bind, Async, nested); the backward scan of the pool heuristic is never cut short by a break. " +
			"CO: in each checked-in injector the calls of input-free Async providers are pairwise unordered and none is ordered after another Async call (existence of an all-overlap schedule).",
		notDecided:  "that findOptimalPool keeps two independent Async nodes in different pools and that enough pools exist, for declarations outside the 36 checked-in ones - this is most of the property and is a fact about a greedy heuristic, not about code shape.",
		assumptions: []string{"an eg.Go body starts independently of the spawning thread"},
	})
	register(&propDef{
		id: "C06", withTestdata: true,
		run: func(c *Ctx) {
			ruleStmtOrder(c, "C06.1")
			ruleLaneIntegrity(c, "C06.12")
			ruleSameContextPredicate(c, "C06.13")
			ruleConstQualifiersBound(c, "C06.14")
			rulePairedEdges(c, "C06.15")
			ruleContextInjectedOnEveryPath(c, "C06.16")
			ruleTemplatesNotPatched(c, "C06.17")
			ruleHandlerNeverNil(c, "C06.2")
			ruleErrorFlow(c, "C06.3", true, false, false)
			ruleIsWaitTable(c, "C06.5")
			ruleRefTable(c, "C06.5")
			ruleChannelGuards(c, "C06.5")
			ruleFieldAccessSync(c, "C06.5")
			ruleSnapshotReadOnly(c, "C06.5")
			ruleTypeIdentity(c, "C06.6", genPkg)
			ruleErrorCheckTemplates(c, "C06.7")
			ruleClosedEmission(c, "C06.8")
			ruleHandlerDiscipline(c, "C06.9")
			ruleWhoMayCall(c, "C06.11", "(*InjectorParam).Ref", "reference counts and channel flags are decided while the graph is built (Build), never while code is emitted", "(*Graph).Build")
			ruleWhoMayCall(c, "C06.11", "(*InjectorProviderCallStmt).channelsWait", "a wait is emitted only by a provider statement for its own arguments", "(*InjectorProviderCallStmt).Stmt")
			ruleWaitCheckedWhenFallible(c, "C06.10")
			coRun(c, "C06.4", coErrors)
		},
		explanation: "GS: the error check is appended after the call and before the close (a failed provider never releases its dependants); a fallible call always gets a returning handler (handler is nil only when the injector has no error result, and the injector has one whenever a scheduled provider is fallible); classification of which error expression can reach which return context (provider error anywhere; ctx.Err() only inside goroutines); the wait discipline that keeps dependants behind their producers (IsWait table, sticky channel flag, guards). " +
			"CO: in the 36 injectors every fallible call is immediately followed by a check that returns that very variable, barriers are closed after the check, and injector-level returns of ctx.Err() are listed.",
		notDecided:  "which of several failing goroutines wins inside errgroup (trusted: first non-nil error); scheduling-dependent choice between a provider error and a sibling's cancellation inside goroutines.",
		assumptions: []string{"errgroup.Wait returns the first non-nil error passed to it", "errgroup.WithContext cancels the derived context on the first error"},
	})
	register(&propDef{
		id: "C07", withTestdata: true,
		run: func(c *Ctx) {
			ruleErrorFlow(c, "C07.1", false, true, false)
			ruleIgnoredWait(c, "C07.3")
			ruleContextThreaded(c, "C07.4")
			ruleErrorCheckTemplates(c, "C07.3")
			ruleConstQualifiersBound(c, "C07.5")
			ruleIsContextType(c, "C07.5")
			ruleParamsNamedFirst(c, "C07.5")
			ruleClosedEmission(c, "C07.6")
			ruleHandlerDiscipline(c, "C07.7")
			ruleDoneAndErrSameContext(c, "C07.9")
			ruleWrapperIdentity(c, "C07.10")
			ruleHandlerPassedUnchanged(c, "C07.11")
			ruleDoneCaseLeaves(c, "C07.12")
			ruleContextInjectedOnEveryPath(c, "C07.13")
			ruleHandlerNeverNil(c, "C07.1")
			ruleWhoMayCall(c, "C07.9", "(*InjectorParam).Ref", "reference counts and channel flags are decided while the graph is built (Build), never while code is emitted", "(*Graph).Build")
			ruleWhoMayCall(c, "C07.9", "(*InjectorProviderCallStmt).channelsWait", "a wait is emitted only by a provider statement for its own arguments", "(*InjectorProviderCallStmt).Stmt")
			ruleWaitCheckedWhenFallible(c, "C07.3")
			ruleSameContextPredicate(c, "C07.4")
			ruleTemplatesNotPatched(c, "C07.8")
			coRun(c, "C07.2", coCancellation)
		},
		explanation: "GS: the wait flavour per context (select with ctx.Done() vs plain receive) as a truth table over 'a context exists' and 'a handler exists'; the Wait result is kept exactly when the injector has an error result; errgroup.WithContext receives the context parameter and the 'context exists' predicate is the same at both sites; injectContextArg runs on every Build path. " +
			"CO: escapability of every wait of the 36 injectors under cancellation (least fixed point over closer threads) and 'the returned variable is written by the returning thread or its writer cannot exit early'.",
		notDecided:  "providers that block; timing.",
		assumptions: []string{"context cancellation closes Done()", "errgroup semantics"},
	})
	register(&propDef{
		id: "C08", withTestdata: true,
		run: func(c *Ctx) {
			ruleWaitBeforeReturn(c, "C08.1")
			ruleErrorFlow(c, "C08.1", false, false, true)
			ruleChainWrapped(c, "C08.2")
			ruleContextThreaded(c, "C08.2")
			ruleConstQualifiersBound(c, "C08.2")
			ruleParamsNamedFirst(c, "C08.4")
			ruleClosedEmission(c, "C08.5")
			ruleHandlerDiscipline(c, "C08.6")
			ruleSameContextPredicate(c, "C08.7")
			ruleTemplatesNotPatched(c, "C08.8")
			ruleCallerLaneChoice(c, "C08.9")
			ruleParamNamesWriteOnce(c, "C08.11")
			ruleProvidedCountPerDependency(c, "C08.12")
			ruleMatchingVisitedFreshPerRoot(c, "C08.13")
			ruleContextInjectedOnEveryPath(c, "C08.14")
			ruleQueueIsFIFO(c, "C08.10")
			ruleSourcesSeededFirst(c, "C08.10")
			ruleArgminOverCandidates(c, "C08.10")
			coRun(c, "C08.3", coLeaks)
		},
		explanation: "GS: every return template that can sit at injector level is either preceded by eg.Wait or emitted only without goroutines; goroutine bodies contain only escapable waits (their handler is the constant goroutine-level one, every wait gets its ctx.Done() case whenever some argument is a context, and the errgroup is derived from that context so a failure wakes the waiters). CO: for each early return of the 36 injectors, the goroutines that can still be parked on a barrier only the returning thread would lower.",
		notDecided:  "goroutines blocked inside user providers.",
		assumptions: []string{"errgroup semantics", "a goroutine blocked in select on ctx.Done() of a context nobody cancels stays blocked"},
	})
}
