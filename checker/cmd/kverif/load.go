package main

import (
	"encoding/json"
	"fmt"
	"go/ast"
	"go/token"
	"go/types"
	"os"
	"path/filepath"
	"sort"
	"strings"

	"golang.org/x/tools/go/callgraph"
	"golang.org/x/tools/go/callgraph/cha"
	"golang.org/x/tools/go/callgraph/vta"
	"golang.org/x/tools/go/packages"
	"golang.org/x/tools/go/ssa"
	"golang.org/x/tools/go/ssa/ssautil"
)

const (
	modPath    = "github.com/mazrean/kessoku"
	genPkg     = modPath + "/internal/kessoku"
	migPkg     = modPath + "/internal/migrate"
	llmPkg     = modPath + "/internal/llmsetup"
	cfgPkg     = modPath + "/internal/config"
	mainPkg    = modPath + "/cmd/kessoku"
	goToolRoot = "/opt/veriftools/go1.26.8/bin"
)

// Loaded is the type-checked, SSA-built view of the repository's current working tree.
type Loaded struct {
	Repo    string
	Fset    *token.FileSet
	Pkgs    map[string]*packages.Package // by import path, module packages only
	All     []*packages.Package
	Prog    *ssa.Program
	SSA     map[string]*ssa.Package
	cg      *callgraph.Graph
	Overlay map[string][]byte
	// CanonNotes: what the alpha-normalisation of this load renamed (empty when the tree uses the baseline's names)
	CanonNotes []string
	NonTest    map[*ssa.Function]bool // functions of module packages (no _test files are loaded)
	loadWall   float64
}

// Overlay spec: in-memory source variants used by the self-test (never touches the disk).
type overlaySpec struct {
	Name   string `json:"name"`
	Expect []struct {
		Property string `json:"property"`
		Rule     string `json:"rule"`
	} `json:"expect"`
	// Clean lists properties whose checks must stay silent under this (behaviour-preserving) variant.
	Clean []string `json:"clean"`
	Edits []struct {
		File  string `json:"file"`
		Old   string `json:"old"`
		New   string `json:"new"`
		All   bool   `json:"all"`   // replace every occurrence (renames)
		Whole bool   `json:"whole"` // New is the whole file
	} `json:"edits"`
	Note string `json:"note"`
}

func repoRoot() string {
	if r := os.Getenv("VERIF_REPO"); r != "" {
		return r
	}
	return "/repo"
}

func loadEnv() []string {
	env := []string{}
	for _, kv := range os.Environ() {
		k := strings.SplitN(kv, "=", 2)[0]
		switch k {
		case "GOFLAGS", "GOWORK", "GOTOOLCHAIN", "GOPROXY", "GOSUMDB", "PATH", "GOOS", "GOARCH":
			continue
		}
		env = append(env, kv)
	}
	env = append(env,
		"PATH="+goToolRoot+":"+strings.TrimPrefix(os.Getenv("PATH"), goToolRoot+":"),
		"GOTOOLCHAIN=local", "GOWORK=off", "GOFLAGS=-mod=readonly", "GOPROXY=off", "GOSUMDB=off",
	)
	if g := os.Getenv("VERIF_GOOS"); g != "" {
		env = append(env, "GOOS="+g)
	}
	return env
}

func readOverlay(path, repo string) (map[string][]byte, *overlaySpec, error) {
	if path == "" {
		return nil, nil, nil
	}
	b, err := os.ReadFile(path)
	if err != nil {
		return nil, nil, err
	}
	var spec overlaySpec
	if err := json.Unmarshal(b, &spec); err != nil {
		return nil, nil, fmt.Errorf("overlay %s: %w", path, err)
	}
	ov := map[string][]byte{}
	for _, e := range spec.Edits {
		full := filepath.Join(repo, e.File)
		if e.Whole {
			ov[full] = []byte(e.New)
			continue
		}
		src, ok := ov[full]
		if !ok {
			src, err = os.ReadFile(full)
			if err != nil {
				if os.IsNotExist(err) && e.Old == "" {
					ov[full] = []byte(e.New) // a file the variant adds
					continue
				}
				return nil, &spec, fmt.Errorf("overlay %s: %w", spec.Name, err)
			}
		}
		if e.All {
			if strings.Count(string(src), e.Old) < 1 {
				return nil, &spec, errOverlayStale{spec.Name, e.File}
			}
			ov[full] = []byte(strings.ReplaceAll(string(src), e.Old, e.New))
			continue
		}
		if strings.Count(string(src), e.Old) != 1 {
			return nil, &spec, errOverlayStale{spec.Name, e.File}
		}
		ov[full] = []byte(strings.Replace(string(src), e.Old, e.New, 1))
	}
	return ov, &spec, nil
}

type errOverlayStale struct{ name, file string }

func (e errOverlayStale) Error() string {
	return fmt.Sprintf("overlay %s: context not found exactly once in %s (variant is stale for this tree)", e.name, e.file)
}

// testdataDirs lists generator golden directories and example directories that carry checked-in outputs.
func testdataDirs(repo string) (golden []string, examples []string) {
	ents, _ := os.ReadDir(filepath.Join(repo, "internal/kessoku/testdata"))
	for _, e := range ents {
		if e.IsDir() {
			golden = append(golden, "./internal/kessoku/testdata/"+e.Name())
		}
	}
	ents, _ = os.ReadDir(filepath.Join(repo, "examples"))
	for _, e := range ents {
		if e.IsDir() {
			examples = append(examples, "./examples/"+e.Name())
		}
	}
	sort.Strings(golden)
	sort.Strings(examples)
	return
}

type loadOpts struct {
	withTestdata bool
	overlay      map[string][]byte
	noCanon      bool // analyse the tree as it is (used for the baseline itself and for the second, alpha-normalised load)
}

func load(opts loadOpts) (*Loaded, error) {
	repo := repoRoot()
	// go/packages resolves the "go" binary through this process's PATH
	if !strings.HasPrefix(os.Getenv("PATH"), goToolRoot+":") {
		os.Setenv("PATH", goToolRoot+":"+os.Getenv("PATH"))
	}
	fset := token.NewFileSet()
	cfg := &packages.Config{
		Mode:    packages.LoadAllSyntax,
		Dir:     repo,
		Env:     loadEnv(),
		Fset:    fset,
		Overlay: opts.overlay,
		Tests:   false,
	}
	patterns := []string{"./..."}
	if opts.withTestdata {
		g, _ := testdataDirs(repo)
		patterns = append(patterns, g...)
	}
	pkgs, err := packages.Load(cfg, patterns...)
	if err != nil {
		return nil, fmt.Errorf("packages.Load: %w", err)
	}
	L := &Loaded{Repo: repo, Fset: fset, Pkgs: map[string]*packages.Package{}, All: pkgs, Overlay: opts.overlay}
	var errs []string
	packages.Visit(pkgs, nil, func(p *packages.Package) {
		if strings.HasPrefix(p.PkgPath, modPath) {
			for _, e := range p.Errors {
				errs = append(errs, e.Error())
			}
		}
	})
	if len(errs) > 0 {
		sort.Strings(errs)
		if len(errs) > 8 {
			errs = errs[:8]
		}
		return nil, fmt.Errorf("type/load errors in module packages: %s", strings.Join(errs, " | "))
	}
	for _, p := range pkgs {
		L.Pkgs[p.PkgPath] = p
	}
	if len(pkgs) == 0 {
		return nil, fmt.Errorf("no packages loaded from %s", repo)
	}
	// alpha-normalisation (canon.go): identifiers that were only renamed are read under their baseline names
	if !opts.noCanon && os.Getenv("KVERIF_NO_CANON") == "" {
		if base := readBaseline(); base != nil {
			if ren, notes := canonRenames(pkgs, fset, base); len(ren) > 0 {
				ov, err := canonOverlay(pkgs, fset, ren, opts.overlay)
				if err == nil {
					L2, err2 := load(loadOpts{withTestdata: opts.withTestdata, overlay: ov, noCanon: true})
					if err2 == nil {
						L2.CanonNotes = append([]string{fmt.Sprintf("alpha-normalised: %d renamed objects read under their baseline names", len(ren))}, notes...)
						return L2, nil
					}
					L.CanonNotes = []string{"alpha-normalisation abandoned (the renamed tree does not type-check): " + err2.Error()}
				}
			}
		}
	}
	return L, nil
}

// buildSSA builds SSA for the whole program (needed for the call graph of function values).
func (L *Loaded) buildSSA() {
	if L.Prog != nil {
		return
	}
	prog, _ := ssautil.AllPackages(L.All, ssa.InstantiateGenerics)
	prog.Build()
	L.Prog = prog
	L.SSA = map[string]*ssa.Package{}
	for _, p := range prog.AllPackages() {
		L.SSA[p.Pkg.Path()] = p
	}
	L.NonTest = map[*ssa.Function]bool{}
	var add func(fn *ssa.Function)
	add = func(fn *ssa.Function) {
		if fn == nil || L.NonTest[fn] {
			return
		}
		L.NonTest[fn] = true
		for _, a := range fn.AnonFuncs {
			add(a)
		}
	}
	// enumerate from the package members (ssautil.AllFunctions misses methods of generic types that are only
	// reached through reflection, e.g. AgentCmd[T].Run which kong calls)
	for path, sp := range L.SSA {
		if !strings.HasPrefix(path, modPath) || strings.Contains(path, "/testdata/") {
			continue
		}
		for _, m := range sp.Members {
			switch m := m.(type) {
			case *ssa.Function:
				add(m)
			case *ssa.Type:
				named, ok := m.Type().(*types.Named)
				if !ok {
					continue
				}
				for i := 0; i < named.NumMethods(); i++ {
					add(prog.FuncValue(named.Method(i)))
				}
			}
		}
	}
	for fn := range ssautil.AllFunctions(prog) {
		if fn.Pkg != nil && strings.HasPrefix(fn.Pkg.Pkg.Path(), modPath) && !strings.Contains(fn.Pkg.Pkg.Path(), "/testdata/") {
			add(fn)
		}
	}
}

func (L *Loaded) callgraph() *callgraph.Graph {
	L.buildSSA()
	if L.cg == nil {
		L.cg = vta.CallGraph(ssautil.AllFunctions(L.Prog), cha.CallGraph(L.Prog))
	}
	return L.cg
}

// fn resolves a package-level function or a method ("(*T).M" / "T.M") to its SSA function.
func (L *Loaded) fn(pkgPath, name string) *ssa.Function {
	L.buildSSA()
	sp := L.SSA[pkgPath]
	if sp == nil {
		return nil
	}
	if !strings.Contains(name, ".") {
		return sp.Func(name)
	}
	ptr := false
	n := name
	if strings.HasPrefix(n, "(*") {
		ptr = true
		n = strings.TrimPrefix(n, "(*")
		n = strings.Replace(n, ")", "", 1)
	}
	parts := strings.SplitN(n, ".", 2)
	obj := sp.Pkg.Scope().Lookup(parts[0])
	if obj == nil {
		return nil
	}
	var t types.Type = obj.Type()
	if ptr {
		t = types.NewPointer(t)
	}
	if named, ok := obj.Type().(*types.Named); ok {
		for i := 0; i < named.NumMethods(); i++ {
			if named.Method(i).Name() == parts[1] {
				return L.Prog.FuncValue(named.Method(i))
			}
		}
	}
	sel := L.Prog.MethodSets.MethodSet(t).Lookup(sp.Pkg, parts[1])
	if sel == nil {
		return nil
	}
	return L.Prog.MethodValue(sel)
}

// funcDecl finds the syntax of a function or method in a module package.
func (L *Loaded) funcDecl(pkgPath, recv, name string) (*ast.FuncDecl, *packages.Package) {
	p := L.Pkgs[pkgPath]
	if p == nil {
		return nil, nil
	}
	for _, f := range p.Syntax {
		for _, d := range f.Decls {
			fd, ok := d.(*ast.FuncDecl)
			if !ok || fd.Name.Name != name {
				continue
			}
			r := ""
			if fd.Recv != nil && len(fd.Recv.List) == 1 {
				r = recvTypeName(fd.Recv.List[0].Type)
			}
			if r == recv {
				return fd, p
			}
		}
	}
	return nil, p
}

func recvTypeName(e ast.Expr) string {
	switch x := e.(type) {
	case *ast.StarExpr:
		return recvTypeName(x.X)
	case *ast.Ident:
		return x.Name
	case *ast.IndexExpr:
		return recvTypeName(x.X)
	case *ast.IndexListExpr:
		return recvTypeName(x.X)
	}
	return ""
}

func (L *Loaded) pos(p token.Pos) string {
	if !p.IsValid() {
		return "-"
	}
	ps := L.Fset.Position(p)
	rel, err := filepath.Rel(L.Repo, ps.Filename)
	if err != nil {
		rel = ps.Filename
	}
	return fmt.Sprintf("%s:%d", rel, ps.Line)
}

func (L *Loaded) relFile(p token.Pos) string {
	ps := L.Fset.Position(p)
	rel, err := filepath.Rel(L.Repo, ps.Filename)
	if err != nil {
		return ps.Filename
	}
	return rel
}
