package main

import (
	"go/ast"
	"strings"

	"golang.org/x/tools/go/ssa"
)

// Role resolution: rules name their anchor functions by the name they have on the pinned tree, but a
// behaviour-preserving rename of an unexported helper must not turn a check red. When the name does not resolve, the
// function is looked up by what it *does* (the fields it reads, the node kinds it allocates, its signature). Exactly
// one candidate must match, otherwise the rule is UNDECIDED.

func fnReadsField(fn *ssa.Function, key string) bool {
	for _, b := range fn.Blocks {
		for _, in := range b.Instrs {
			if fa, ok := in.(*ssa.FieldAddr); ok && fieldKey(fa) == key {
				return true
			}
		}
	}
	return false
}

func fnStoresField(fn *ssa.Function, key string) bool {
	return len(storesToField([]*ssa.Function{fn}, key)) > 0
}

func fnCalls(fn *ssa.Function, suffix string) bool {
	for _, cs := range callsIn(fn) {
		if strings.HasSuffix(cs.callee, suffix) {
			return true
		}
	}
	return false
}

func fnAllocs(fn *ssa.Function, kind string) bool {
	for _, b := range fn.Blocks {
		for _, in := range b.Instrs {
			if al, ok := in.(*ssa.Alloc); ok {
				if n, _ := isAstNodeType(al.Type()); n == kind {
					return true
				}
			}
		}
	}
	return false
}

func fnHasConst(fn *ssa.Function, s string) bool {
	for _, b := range fn.Blocks {
		for _, in := range b.Instrs {
			for _, op := range in.Operands(nil) {
				if op == nil || *op == nil {
					continue
				}
				if cs, ok := constString(*op); ok && cs == s {
					return true
				}
			}
		}
	}
	return false
}

func sig(fn *ssa.Function) string { return fn.Signature.String() }

func recvIs(fn *ssa.Function, typ string) bool {
	r := fn.Signature.Recv()
	return r != nil && strings.HasSuffix(r.Type().String(), "."+typ)
}

var roleFinders = map[string]func(fn *ssa.Function) bool{
	"(*InjectorProviderCallStmt).generateChannelWaitStatement": func(fn *ssa.Function) bool {
		return fnReadsField(fn, "internal/kessoku.InjectorCallArgument.IsWait") && fnCalls(fn, "InjectorParam).ChannelName")
	},
	"(*InjectorProviderCallStmt).generateChannelCloseStatement": func(fn *ssa.Function) bool {
		return recvIs(fn, "InjectorProviderCallStmt") && fnCalls(fn, "InjectorParam).ChannelName") && !fnReadsField(fn, "internal/kessoku.InjectorCallArgument.IsWait")
	},
	"generateVariableSpecs": func(fn *ssa.Function) bool {
		return fnReadsField(fn, "internal/kessoku.Injector.Vars") && fnAllocs(fn, "ValueSpec")
	},
	"(*InjectorProviderCallStmt).buildArguments": func(fn *ssa.Function) bool {
		return recvIs(fn, "InjectorProviderCallStmt") && fnReadsField(fn, "internal/kessoku.InjectorProviderCallStmt.Arguments") && fnCalls(fn, "InjectorParam).Name") && !fnReadsField(fn, "internal/kessoku.InjectorCallArgument.IsWait") && strings.HasSuffix(sig(fn), "[]go/ast.Expr")
	},
	"(*InjectorProviderCallStmt).buildLhsExpressions": func(fn *ssa.Function) bool {
		return recvIs(fn, "InjectorProviderCallStmt") && fnReadsField(fn, "internal/kessoku.InjectorProviderCallStmt.Returns") && fnCalls(fn, "InjectorParam).Name") && strings.HasSuffix(sig(fn), "[]go/ast.Expr")
	},
	"(*InjectorProviderCallStmt).buildErrorHandlingStatement": func(fn *ssa.Function) bool { return fnAllocs(fn, "EmptyStmt") },
	"(*InjectorProviderCallStmt).buildAssignmentStatement": func(fn *ssa.Function) bool {
		return fnAllocs(fn, "AssignStmt") && strings.Contains(sig(fn), "bool") && strings.HasSuffix(sig(fn), "go/ast.Stmt") && fn.Parent() == nil
	},
	"(*InjectorProviderCallStmt).buildWaitStatement": func(fn *ssa.Function) bool { return fnAllocs(fn, "SelectStmt") },
	"(*InjectorProviderCallStmt).channelsWait": func(fn *ssa.Function) bool {
		return recvIs(fn, "InjectorProviderCallStmt") && fnCalls(fn, "isContextType") && fnAllocs(fn, "RangeStmt")
	},
	"generateAsyncInitialization": func(fn *ssa.Function) bool {
		return fnReadsField(fn, "internal/kessoku.Injector.Args") && fnCalls(fn, "isContextType") && fnAllocs(fn, "DeclStmt") && fn.Signature.Recv() == nil
	},
	"generateInjectorDecl": func(fn *ssa.Function) bool { return fnAllocs(fn, "FuncDecl") },
	"(*Graph).injectContextArg": func(fn *ssa.Function) bool {
		return recvIs(fn, "Graph") && fnStoresField(fn, "internal/kessoku.Injector.Args") && fn.Parent() == nil && strings.HasSuffix(sig(fn), ") error")
	},
	"(*Graph).topologicalSortIter": func(fn *ssa.Function) bool {
		return recvIs(fn, "Graph") && fn.Parent() == nil && strings.Contains(sig(fn), "func(yield func(")
	},
	"(*Graph).findOptimalPool": func(fn *ssa.Function) bool {
		return recvIs(fn, "Graph") && fn.Parent() == nil && strings.HasSuffix(sig(fn), ") int") && strings.Contains(sig(fn), "[][]*")
	},
	"(*Parser).parseProviderType": func(fn *ssa.Function) bool {
		return recvIs(fn, "Parser") && strings.Contains(sig(fn), "parseProviderTypeResult")
	},
	"(*Processor).processFile": func(fn *ssa.Function) bool {
		return recvIs(fn, "Processor") && (fnCalls(fn, "os.Create") || fnCalls(fn, "os.OpenFile") || fnCalls(fn, "os.WriteFile"))
	},
	"extractExportedFields": func(fn *ssa.Function) bool {
		return fn.Signature.Recv() == nil && strings.Contains(sig(fn), "[]*"+genPkg+".StructFieldSpec")
	},
	"outputFileName": func(fn *ssa.Function) bool {
		return fn.Signature.Recv() == nil && sig(fn) == "func(filename string) string" || (fn.Signature.Recv() == nil && fnHasConst(fn, "_band"))
	},
	"(*Graph).dfsCycleDetection": func(fn *ssa.Function) bool {
		return recvIs(fn, "Graph") && strings.Contains(sig(fn), "nodeColor") && strings.HasSuffix(sig(fn), "[]*"+genPkg+".node") && fnCalls(fn, "dfsCycleDetection") || (recvIs(fn, "Graph") && strings.Contains(sig(fn), "map[*"+genPkg+".node]"+genPkg+".nodeColor") && strings.Count(sig(fn), "map[") == 2)
	},
	"(*Graph).detectCycles": func(fn *ssa.Function) bool {
		return recvIs(fn, "Graph") && sig(fn) == "func() error"
	},
	"(*InjectorParam).Ref": func(fn *ssa.Function) bool {
		return recvIs(fn, "InjectorParam") && fnStoresField(fn, "internal/kessoku.InjectorParam.withChannel")
	},
	"(*InjectorParam).WithChannel": func(fn *ssa.Function) bool {
		return recvIs(fn, "InjectorParam") && sig(fn) == "func() bool"
	},
	"(*Parser).findInjectDirectives": func(fn *ssa.Function) bool {
		return recvIs(fn, "Parser") && strings.HasSuffix(sig(fn), "([]*"+genPkg+".BuildDirective, error)") && !strings.Contains(sig(fn), "filename string")
	},
	"(*Graph).hasAsyncProviders": func(fn *ssa.Function) bool {
		return recvIs(fn, "Graph") && sig(fn) == "func() bool" && fnReadsField(fn, "internal/kessoku.ProviderSpec.IsAsync")
	},
	"(*Graph).isReturnError": func(fn *ssa.Function) bool {
		return recvIs(fn, "Graph") && sig(fn) == "func() bool" && fnReadsField(fn, "internal/kessoku.ProviderSpec.IsReturnError")
	},
	"generateErrGroupDeclaration": func(fn *ssa.Function) bool {
		return fn.Signature.Recv() == nil && strings.HasSuffix(sig(fn), "*go/ast.AssignStmt") && fnHasConst(fn, "WithContext")
	},
	"generateAsyncWaitStatements": func(fn *ssa.Function) bool {
		return fn.Signature.Recv() == nil && strings.HasSuffix(sig(fn), "[]go/ast.Stmt") && fnHasConst(fn, "Wait") && fn.Parent() == nil
	},
	// internal/migrate
	"(*Transformer).transformElements": func(fn *ssa.Function) bool {
		return recvIs(fn, "Transformer") && strings.Contains(sig(fn), "[]"+migPkg+".WirePattern") && strings.Contains(sig(fn), "[]"+migPkg+".KessokuPattern, error") && !strings.Contains(sig(fn), "TypeConverter")
	},
	"(*Transformer).transformBind": func(fn *ssa.Function) bool {
		return recvIs(fn, "Transformer") && strings.Contains(sig(fn), "KessokuBind, error")
	},
	"(*Migrator).mergeResults": func(fn *ssa.Function) bool {
		return recvIs(fn, "Migrator") && strings.Contains(sig(fn), "MergedOutput")
	},
	"(*Writer).buildImportDecl": func(fn *ssa.Function) bool {
		return recvIs(fn, "Writer") && strings.Contains(sig(fn), "[]"+migPkg+".ImportSpec") && strings.HasSuffix(sig(fn), "*go/ast.GenDecl")
	},
	"(*TypeConverter).AddImport": func(fn *ssa.Function) bool {
		return recvIs(fn, "TypeConverter") && fnStoresField(fn, "x") || (recvIs(fn, "TypeConverter") && sig(fn) == "func(path string, desiredName string) string")
	},
	"typeToExpr": func(fn *ssa.Function) bool {
		// the standalone printer: no receiver, types.Type -> ast.Expr, recursive
		if fn.Signature.Recv() != nil || sig(fn) != "func(t go/types.Type) go/ast.Expr" && !(fn.Signature.Params().Len() == 1 && fn.Signature.Params().At(0).Type().String() == "go/types.Type" && fn.Signature.Results().Len() == 1 && fn.Signature.Results().At(0).Type().String() == "go/ast.Expr") {
			return false
		}
		for _, cs := range callsIn(fn) {
			if cs.common.StaticCallee() == fn {
				return true
			}
		}
		return false
	},
	"(*TypeConverter).Imports": func(fn *ssa.Function) bool {
		return recvIs(fn, "TypeConverter") && fn.Signature.Params().Len() == 0 && fn.Signature.Results().Len() == 1 && strings.HasSuffix(fn.Signature.Results().At(0).Type().String(), "[]"+migPkg+".ImportSpec")
	},
	"(*Processor).ProcessFiles": func(fn *ssa.Function) bool {
		return recvIs(fn, "Processor") && sig(fn) == "func(files []string) error" || (recvIs(fn, "Processor") && fn.Signature.Params().Len() == 1 && fn.Signature.Params().At(0).Type().String() == "[]string" && fn.Signature.Results().Len() == 1)
	},
	"(*Transformer).mergeFieldsOf": func(fn *ssa.Function) bool {
		return recvIs(fn, "Transformer") && strings.Contains(sig(fn), "[]"+migPkg+".WirePattern") && strings.Contains(sig(fn), "map[string]*"+migPkg+".WireFieldsOf")
	},
	"(*TypeConverter).CollectExprImports": func(fn *ssa.Function) bool {
		return recvIs(fn, "TypeConverter") && strings.Contains(sig(fn), "go/ast.Expr") && strings.Contains(sig(fn), "map[string]string") && fn.Signature.Results().Len() == 0
	},
}

// resolveRole looks a function up by its pinned name, then by its role.
func resolveRole(c *Ctx, pkgPath, name string) *ssa.Function {
	L := c.L
	if fn := L.fn(pkgPath, name); fn != nil {
		return fn
	}
	bareFallback := func() *ssa.Function {
		bare := name
		if i := strings.LastIndex(bare, ")."); i >= 0 {
			bare = bare[i+2:]
		}
		var same []*ssa.Function
		for _, fn := range pkgFuncs(L, pkgPath) {
			if fn.Parent() == nil && fn.Name() == bare && fn.Origin() == nil {
				same = append(same, fn)
			}
		}
		if len(same) == 1 {
			c.Notes = append(c.Notes, "anchor "+name+" resolved by its bare name to "+fnName(same[0]))
			if c.RoleNames == nil {
				c.RoleNames = map[string]string{}
			}
			c.RoleNames[shortFn(name)] = shortFn(same[0].String()[strings.LastIndex(same[0].String(), "/")+1:])
			return same[0]
		}
		return nil
	}
	finder, ok := roleFinders[name]
	if !ok {
		return bareFallback()
	}
	var cands []*ssa.Function
	for _, fn := range pkgFuncs(L, pkgPath) {
		if fn.Parent() == nil && finder(fn) {
			cands = append(cands, fn)
		}
	}
	if len(cands) == 1 {
		c.Notes = append(c.Notes, "anchor "+name+" resolved by role to "+fnName(cands[0]))
		if c.RoleNames == nil {
			c.RoleNames = map[string]string{}
		}
		c.RoleNames[shortFn(name)] = shortFn(cands[0].String()[strings.LastIndex(cands[0].String(), "/")+1:])
		return cands[0]
	}
	return bareFallback()
}

// shortFn turns "(*InjectorProviderCallStmt).buildWaitStatement" / "(*pkg.T).M" into "T.M" (the form tmplSite.fnName uses).
func shortFn(name string) string {
	n := name
	if i := strings.LastIndex(n, "/"); i >= 0 {
		n = n[i+1:]
	}
	n = strings.TrimPrefix(n, "(*")
	n = strings.Replace(n, ")", "", 1)
	if i := strings.Index(n, "."); i >= 0 && strings.Count(n, ".") == 2 {
		n = n[i+1:] // drop the package qualifier
	}
	return n
}

// astFn returns the name tmplSite.fnName() reports for a pinned short name, after role resolution.
func (c *Ctx) astFn(short string) string {
	if r, ok := c.RoleNames[short]; ok {
		return r
	}
	return short
}

// funcDeclOfSSA finds the syntax of an SSA function.
func funcDeclOfSSA(L *Loaded, fn *ssa.Function) *ast.FuncDecl {
	if fd, ok := fn.Syntax().(*ast.FuncDecl); ok {
		return fd
	}
	return nil
}

// calleeIs: the statically resolved callee of a call site is the function playing the pinned role.
func calleeIs(c *Ctx, cs callSite, pkgPath, pinned string) bool {
	cal := cs.common.StaticCallee()
	if cal == nil {
		return false
	}
	want := resolveRole(c, pkgPath, pinned)
	return want != nil && originOf(cal) == want
}
