package main

import (
	"fmt"
	"go/ast"
	"go/constant"
	"go/token"
	"go/types"
	"regexp"
	"strings"

	"golang.org/x/tools/go/ssa"
)

// ruleAssignToken (C01.5 / C04.4): `=` is chosen whenever the injector predeclares its variables.
func ruleAssignToken(c *Ctx, rule string) {
	L := c.L
	n := 0
	for _, fn := range pkgFuncs(L, genPkg) {
		for _, b := range fn.Blocks {
			for _, in := range b.Instrs {
				st, ok := in.(*ssa.Store)
				if !ok {
					continue
				}
				fa, ok := st.Addr.(*ssa.FieldAddr)
				if !ok || fieldKey(fa) != "go/ast.AssignStmt.Tok" {
					continue
				}
				if _, isConst := st.Val.(*ssa.Const); isConst {
					continue // fixed token: decided by the template rules of C04
				}
				n++
				c.seen(fnName(fn))
				rows, ids, err := truthTable(L, fn.Blocks[0], st, st.Val)
				// the token may be chosen by a private helper: one table per return of the helper
				if hc, isCall := resolve(st.Val).(*ssa.Call); isCall && err == "" {
					if h := hc.Common().StaticCallee(); h != nil && h.Pkg == fn.Pkg && len(h.Blocks) > 0 && strings.HasSuffix(h.Signature.Results().String(), "go/token.Token)") {
						rows, ids = nil, nil
						seenID := map[string]bool{}
						for _, r := range returnsOf(h) {
							rs, is, e := truthTable(L, h.Blocks[0], r, r.Results[0])
							if e != "" {
								err = e
							}
							rows = append(rows, rs...)
							for _, id := range is {
								if !seenID[id] {
									seenID[id] = true
									ids = append(ids, id)
								}
							}
						}
						c.seen(fnName(h))
					}
				}
				if err != "" {
					c.undecided(rule, fnName(fn)+":AssignStmt.Tok", err)
					continue
				}
				// the atom that says "variables are predeclared": hasChainStmts(injector) or the bool parameter fed from it
				var pre []string
				for _, id := range ids {
					if strings.Contains(id, "hasChainStmts(") {
						pre = append(pre, id)
					}
					if strings.HasPrefix(id, "param:") {
						// a bool parameter: every caller must pass hasChainStmts(...)
						okCallers, nCallers := true, 0
						for _, caller := range pkgFuncs(L, genPkg) {
							for _, cs := range callsIn(caller) {
								if cs.common.StaticCallee() != fn {
									continue
								}
								nCallers++
								idx := -1
								for i, p := range fn.Params {
									if "param:"+p.Name() == id {
										idx = i
									}
								}
								if idx < 0 || idx >= len(cs.common.Args) {
									okCallers = false
									continue
								}
								call, isCall := resolve(cs.common.Args[idx]).(*ssa.Call)
								if !isCall || call.Common().StaticCallee() == nil || call.Common().StaticCallee().Name() != "hasChainStmts" {
									okCallers = false
								}
							}
						}
						if okCallers && nCallers > 0 {
							pre = append(pre, id)
						}
					}
				}
				if len(pre) == 0 {
					c.fail(rule, fnName(fn)+":AssignStmt.Tok", L.pos(st.Pos()), "the choice between := and = does not consult hasChainStmts(injector), the predicate under which all variables are predeclared", fmt.Sprintf("atoms: %v", ids))
					continue
				}
				bad := ""
				for _, r := range rows {
					if !r.reached {
						continue
					}
					p := false
					for _, id := range pre {
						if r.atoms[id].b {
							p = true
						}
					}
					// a nil injector (unit tests call Stmt with nil) cannot have chains
					for _, id := range ids {
						if strings.HasPrefix(id, "param:") && !r.atoms[id].isBool && r.atoms[id].i == 0 {
							p = false
						}
					}
					if p && r.result.i != int64(token.ASSIGN) {
						bad = rowString(r, ids) + " gives " + token.Token(r.result.i).String()
					}
				}
				c.check(bad == "", rule, fnName(fn)+":AssignStmt.Tok", L.pos(st.Pos()),
					fnName(fn)+": variables predeclared in the var block are assigned with '=' (':=' would shadow them inside a goroutine or fail to compile)", fmt.Sprintf("%d assignments enumerated over %v; %s", len(rows), ids, bad))
			}
		}
	}
	c.floor(rule, "assignment templates with a computed token", n, 2)
}

// ruleWaitBeforeReturn (C03.4 / C08.1): eg.Wait() is emitted before the normal return whenever goroutines exist.
func ruleWaitBeforeReturn(c *Ctx, rule string) {
	L := c.L
	fn := genFn(c, rule, "generateStmts")
	if fn == nil {
		return
	}
	var initCall, waitCall *ssa.Call
	var waitAppend, finalAppend *ssa.Call
	initFn := resolveRole(c, genPkg, "generateAsyncInitialization")
	waitFn := resolveRole(c, genPkg, "generateAsyncWaitStatements")
	for _, cs := range callsIn(fn) {
		if cal := cs.common.StaticCallee(); cal != nil {
			switch cal {
			case initFn:
				initCall = cs.value()
			case waitFn:
				waitCall = cs.value()
			}
		}
	}
	for _, a := range appendsIn(L, fn) {
		if waitCall != nil && resolve(a.call.Common().Args[1]) == ssa.Value(waitCall) {
			waitAppend = a.call
		}
		if strings.Contains(a.label, "lit:ReturnStmt") {
			finalAppend = a.call
		}
		// the final return built by a helper: every non-nil value it returns is a ReturnStmt
		if elems, ok := variadicElems(a.call.Common().Args[1]); ok && len(elems) == 1 {
			v := resolve(elems[0])
			if mi, isMI := v.(*ssa.MakeInterface); isMI {
				v = resolve(mi.X)
			}
			if hc, isCall := v.(*ssa.Call); isCall {
				if h := hc.Common().StaticCallee(); h != nil && fnPkgPath(h) == genPkg && len(h.Blocks) > 0 {
					all, some := true, false
					for _, r := range returnsOf(h) {
						if len(r.Results) != 1 {
							all = false
							continue
						}
						if isNilConst(r.Results[0]) {
							continue
						}
						al, isAl := resolve(r.Results[0]).(*ssa.Alloc)
						if !isAl {
							all = false
							continue
						}
						if nm, _ := isAstNodeType(al.Type()); nm != "ReturnStmt" {
							all = false
						} else {
							some = true
						}
					}
					if all && some {
						finalAppend = a.call
						c.seen(fnName(h))
					}
				}
			}
		}
	}
	if initCall == nil || waitCall == nil || waitAppend == nil || finalAppend == nil {
		c.undecided(rule, "generateStmts:wait-structure", "cannot identify async initialisation, wait statements and the final return in generateStmts")
		return
	}
	ctl := func(in ssa.Instruction) ssa.Value {
		for _, iff := range controllingIfs(in) {
			if iff.Block().Succs[0] == in.Block() || iff.Block().Succs[0].Dominates(in.Block()) {
				if !reachable(iff.Block().Succs[1], in.Block()) || iff.Block().Succs[1] != in.Block() {
					return iff.Cond
				}
			}
		}
		return nil
	}
	ci, cw := ctl(initCall), ctl(waitAppend)
	c.check(ci != nil && ci == cw, rule, "generateStmts:wait-same-predicate", L.pos(waitAppend.Pos()),
		"eg.Wait() is emitted under the very predicate that declares the errgroup (hasChainStmts)", "both branches test the same SSA value "+describe(ci))
	c.check(strictlyBefore(waitAppend, finalAppend), rule, "generateStmts:wait-before-return", L.pos(finalAppend.Pos()),
		"the Wait statements are appended before the final return statement", fmt.Sprintf("append in block %d precedes append in block %d", waitAppend.Block().Index, finalAppend.Block().Index))
	// nothing is appended between the wait and the final return that could compute values (the loop over statements is before)
	for _, a := range appendsIn(L, fn) {
		if strings.HasPrefix(a.label, "spread:invoke:Stmt") || strings.Contains(a.label, "invoke:Stmt") {
			c.check(strictlyBefore(a.call, waitAppend), rule, "generateStmts:statements-before-wait", L.pos(a.call.Pos()), "all provider statements are emitted before the Wait", "append order")
		}
	}
	// the wait templates themselves: both branches contain a call of <group>.Wait
	nWait := 0
	for _, s := range collectTemplates(L.Pkgs[genPkg]) {
		if waitCall.Common().StaticCallee() != nil && s.fn.Name.Name == waitCall.Common().StaticCallee().Name() && s.kind == "SelectorExpr" {
			if n, ok := identConst(s.pkg, s.fn, s.fields["Sel"]); ok && n == "Wait" {
				nWait++
			}
		}
	}
	// counted per returned list (a Wait call built once and shared by both forms counts for both)
	if wf := waitCall.Common().StaticCallee(); wf != nil && len(wf.Blocks) > 0 {
		nWait = 0
		for _, r := range returnsOf(wf) {
			if len(r.Results) == 1 && nodeTreeContains(wf, r.Results[0], func(al *ssa.Alloc) bool {
				if nm, _ := isAstNodeType(al.Type()); nm != "SelectorExpr" {
					return false
				}
				for _, st := range storesInto(al) {
					if fa, ok := st.Addr.(*ssa.FieldAddr); ok && fieldKey(fa) == "go/ast.SelectorExpr.Sel" {
						if call, ok := resolve(st.Val).(*ssa.Call); ok && calleeOf(call.Common()) == "go/ast.NewIdent" {
							if s, ok := constString(call.Common().Args[0]); ok && s == "Wait" {
								return true
							}
						}
					}
				}
				return false
			}) {
				nWait++
			}
		}
		okWait := nWait == len(returnsOf(wf)) && nWait >= 2
		why := fmt.Sprintf("%d of %d returned lists contain <group>.Wait()", nWait, len(returnsOf(wf)))
		if !okWait {
			// the call expression may come from a builder helper: count the instantiated templates instead (one per form)
			k := 0
			wd := funcDeclOfSSA(L, wf)
			for _, s := range collectTemplates(L.Pkgs[genPkg]) {
				if s.kind != "SelectorExpr" {
					continue
				}
				root := s
				for root.parent != nil {
					root = root.parent
				}
				if root.fn != wd {
					continue
				}
				if n, ok := identConst(s.pkg, s.fn, s.fields["Sel"]); ok && n == "Wait" {
					k++
				}
			}
			if k >= len(returnsOf(wf)) && k >= 2 {
				okWait, why = true, fmt.Sprintf("%d instantiated <group>.Wait() templates for %d returned lists", k, len(returnsOf(wf)))
			}
		}
		c.check(okWait, rule, "generateAsyncWaitStatements:both-branches-wait", "-", "both forms of the wait statement (with and without error result) call Wait on the group", why)
	} else {
		c.check(nWait >= 2, rule, "generateAsyncWaitStatements:both-branches-wait", "-", "both forms of the wait statement (with and without error result) call Wait on the group", fmt.Sprintf("%d Wait templates", nWait))
	}
}

// ruleChainWrapped (C03.5 / C05.2 / C08.2)
func ruleChainWrapped(c *Ctx, rule string) {
	L := c.L
	p := L.Pkgs[genPkg]
	sites := collectTemplates(p)
	okGo, okNil := false, false
	// the chain statement and the helpers only it uses
	var fam []*ssa.Function
	famDecl := map[*ast.FuncDecl]bool{}
	if root := resolveRole(c, genPkg, "(*InjectorChainStmt).Stmt"); root != nil {
		fam = family(L, root)
		for _, f := range fam {
			if d, ok := f.Syntax().(*ast.FuncDecl); ok {
				famDecl[d] = true
			}
		}
	}
	for _, s := range sites {
		root := s
		for root.parent != nil {
			root = root.parent
		}
		if !famDecl[s.fn] && !famDecl[root.fn] {
			continue // (a builder helper's literal belongs to the function it is instantiated in)
		}
		if s.kind == "FuncLit" && s.parent != nil && s.parent.kind == "CallExpr" && s.slot == "Args" {
			if fun := s.parent.fields["Fun"]; fun != nil {
				for _, s2 := range sites {
					if s2.parent == s.parent && s2.slot == "Fun" && s2.kind == "SelectorExpr" {
						if n, ok := identConst(p, s2.fn, s2.fields["Sel"]); ok && n == "Go" && s.parent.parent != nil && s.parent.parent.kind == "ExprStmt" {
							okGo = true
						}
					}
				}
			}
		}
		if s.kind == "ReturnStmt" && s.parent == nil {
			if r := s.fields["Results"]; r != nil {
				if cl, ok := r.(*ast.CompositeLit); ok && len(cl.Elts) == 1 {
					if n, ok := identConst(p, s.fn, cl.Elts[0]); ok && n == "nil" {
						okNil = true
					}
				}
			}
		}
	}
	c.check(okGo, rule, "InjectorChainStmt.Stmt:wrapped-in-Go", "-", "a chain is emitted as one statement <group>.Go(func() error { ... })", "template ExprStmt > CallExpr{Fun: .Go, Args: FuncLit}")
	c.check(okNil, rule, "InjectorChainStmt.Stmt:ends-return-nil", "-", "the goroutine body ends with `return nil`", "template ReturnStmt{nil} appended to the chain's statements")
	// nested statements get the goroutine-level handler (a constant function), never nil
	okHandler := false
	for fd := range famDecl {
		if fd.Body == nil {
			continue
		}
		ast.Inspect(fd.Body, func(n ast.Node) bool {
			call, ok := n.(*ast.CallExpr)
			if !ok || len(call.Args) != 3 {
				return true
			}
			if sel, ok := call.Fun.(*ast.SelectorExpr); ok && sel.Sel.Name == "Stmt" {
				if id, ok := call.Args[2].(*ast.Ident); ok {
					if obj := p.TypesInfo.Uses[id]; obj != nil && obj.Pkg() != nil && obj.Parent() == obj.Pkg().Scope() {
						okHandler = true
					}
				}
			}
			return true
		})
	}
	c.check(okHandler, rule, "InjectorChainStmt.Stmt:constant-handler", "-", "statements inside a goroutine always get the package-level goroutine handler (`return err`), so their waits can escape on ctx.Done()", "third argument of the nested Stmt call is a package-level function")
	if fn := genFn(c, rule, "(*InjectorChainStmt).Stmt"); fn != nil {
		// `return nil` is appended after the loop over the chain's statements
		var loopAppend, nilAppend *ssa.Call
		for _, g := range fam {
			var la, na *ssa.Call
			for _, a := range appendsIn(L, g) {
				if strings.Contains(a.label, "invoke:Stmt") {
					la = a.call
				}
				if strings.Contains(a.label, "lit:ReturnStmt") {
					na = a.call
				}
			}
			if la != nil && na != nil {
				loopAppend, nilAppend = la, na
			}
		}
		c.check(loopAppend != nil && nilAppend != nil && strictlyBefore(loopAppend, nilAppend), rule, "InjectorChainStmt.Stmt:return-last", L.pos(fn.Pos()), "`return nil` is the last statement of the goroutine body", "append order")
		// the list that ends with `return nil` is the body of the function literal
		if nilAppend != nil {
			okBody, nBody := false, 0
			for _, g := range fam {
				for _, st := range storesToField([]*ssa.Function{g}, "go/ast.BlockStmt.List") {
					nBody++
					if listOrigin(fam, st.Val, 0) == ssa.Value(nilAppend) {
						okBody = true
					}
				}
			}
			c.check(okBody, rule, "InjectorChainStmt.Stmt:body-is-the-chain-list", L.pos(fn.Pos()), "the body of the goroutine is the list of the chain's statements ending with `return nil`", fmt.Sprintf("%d BlockStmt.List stores in the chain statement and its helpers", nBody))
		}
	}
}

// ruleAsyncFlag (C05.5): wrappers unwrapped by the parser keep the inner provider's flags.
func ruleAsyncFlag(c *Ctx, rule string) {
	L := c.L
	fn := genFn(c, rule, "(*Parser).parseProviderType")
	if fn == nil {
		return
	}
	var rec []*ssa.Call
	for _, cs := range callsIn(fn) {
		if cs.value() == nil {
			continue
		}
		cal := cs.common.StaticCallee()
		if cal == fn {
			rec = append(rec, cs.value())
			continue
		}
		// the recursive step behind a private helper (parse the inner type, wrap the error): the helper calls back into fn
		if cal != nil && cal.Pkg == fn.Pkg && len(cal.Blocks) > 0 && cal.Signature.Results().String() == fn.Signature.Results().String() {
			for _, cs2 := range callsIn(cal) {
				if cs2.common.StaticCallee() == fn {
					rec = append(rec, cs.value())
					break
				}
			}
		}
	}
	c.floor(rule, "recursive unwrapping calls in parseProviderType", len(rec), 2)
	for _, b := range fn.Blocks {
		for _, in := range b.Instrs {
			al, ok := in.(*ssa.Alloc)
			if !ok || !al.Heap {
				continue
			}
			if n, _ := isAstNodeType(al.Type()); n != "parseProviderTypeResult" {
				continue
			}
			var inner *ssa.Call
			for _, r := range rec {
				if instrDominates(r, al) {
					inner = r
				}
			}
			if inner == nil {
				continue // a leaf case builds its result from scratch
			}
			// a fresh result on a wrapper path: every field must be carried over
			stored := map[string]ssa.Value{}
			for _, r := range *al.Referrers() {
				if fa, ok := r.(*ssa.FieldAddr); ok {
					for _, rr := range *fa.Referrers() {
						if st, ok := rr.(*ssa.Store); ok && st.Addr == fa {
							stored[fieldKey(fa)] = st.Val
						}
					}
				}
			}
			// every field of the result type, whatever fields it has today (a flag added later must be carried over too)
			var fieldNames []string
			isBool := map[string]bool{}
			if pt, isP := al.Type().(*types.Pointer); isP {
				if st, isS := pt.Elem().Underlying().(*types.Struct); isS {
					for i := 0; i < st.NumFields(); i++ {
						fieldNames = append(fieldNames, st.Field(i).Name())
						isBool[st.Field(i).Name()] = st.Field(i).Type().Underlying().String() == "bool"
					}
				}
			}
			for _, f := range fieldNames {
				v, ok := stored["internal/kessoku.parseProviderTypeResult."+f]
				okF := ok
				why := "field not set on the copy"
				if ok {
					s := newSym(L, map[string]bool{})
					t := strings.Join(s.eval(v), "|")
					why = t
					if isBool[f] && !(strings.Contains(t, "parseProviderTypeResult."+f+"(") || t == "true") {
						okF = false
					}
				}
				c.check(okF, rule, "parseProviderType:wrapper-keeps-"+f, L.pos(al.Pos()), "a wrapper (Bind/Async) keeps the wrapped provider's "+f, why)
			}
		}
	}
	// the Async case sets the flag
	okSet := false
	for _, st := range storesToField([]*ssa.Function{fn}, "internal/kessoku.parseProviderTypeResult.IsAsync") {
		if k, ok := st.Val.(*ssa.Const); ok && k.Value != nil && k.Value.String() == "true" {
			okSet = true
		}
	}
	c.check(okSet, rule, "parseProviderType:Async-sets-flag", L.pos(fn.Pos()), "the asyncProvider case marks the result Async", "store of true into IsAsync")
}

// ruleHandlerNeverNil (C06.2)
func ruleHandlerNeverNil(c *Ctx, rule string) {
	L := c.L
	fn := genFn(c, rule, "generateStmts")
	if fn == nil {
		return
	}
	// the handler passed to top-level statements
	var handler ssa.Value
	var use ssa.Instruction
	for _, cs := range callsIn(fn) {
		if cs.common.IsInvoke() && cs.common.Method.Name() == "Stmt" && len(cs.common.Args) == 3 {
			handler, use = cs.common.Args[2], cs.instr
		}
	}
	if handler == nil {
		c.undecided(rule, "generateStmts:handler", "cannot find the Stmt invocation that receives the error handler")
		return
	}
	_ = use
	var rows []tableRow
	var ids []string
	if ph, ok := handler.(*ssa.Phi); ok {
		// evaluate which value the phi takes under each assignment: interpret to the phi's block
		var err string
		rows, ids, err = truthTable(L, fn.Blocks[0], ph.Block().Instrs[len(ph.Block().Instrs)-1], ph)
		if err != "" {
			c.undecided(rule, "generateStmts:handler-table", err)
			return
		}
	} else if factory := handlerFactory(fn); factory != nil {
		// the selection lives in a helper that receives this injector: one table per return of the helper
		c.seen(fnName(factory))
		idSet := map[string]bool{}
		for _, r := range returnsOf(factory) {
			rs, is, err := truthTable(L, factory.Blocks[0], r, r.Results[0])
			if err != "" {
				c.undecided(rule, "generateStmts:handler-table", err)
				return
			}
			rows = append(rows, rs...)
			for _, id := range is {
				if !idSet[id] {
					idSet[id] = true
					ids = append(ids, id)
				}
			}
		}
	} else {
		c.undecided(rule, "generateStmts:handler", "handler is not selected by a switch: "+describe(handler))
		return
	}
	var ire string
	for _, id := range ids {
		if strings.Contains(id, "Injector.IsReturnError(") {
			ire = id
		}
	}
	bad := ""
	n := 0
	for _, r := range rows {
		if !r.reached {
			continue
		}
		n++
		if ire != "" && r.atoms[ire].b && r.result.i == 0 {
			bad = rowString(r, ids)
		}
	}
	c.check(ire != "" && bad == "" && n > 0, rule, "generateStmts:handler-nil-iff-no-error-result", L.pos(fn.Pos()),
		"the injector-level error handler is nil only when the injector has no error result", fmt.Sprintf("%d assignments; counterexample %s", n, bad))
	// Build sets Injector.IsReturnError for every scheduled fallible provider
	if build := genFn(c, rule, "(*Graph).Build"); build != nil {
		okStore := false
		for _, st := range storesToField(family(L, build), "internal/kessoku.Injector.IsReturnError") {
			// flag = flag || node.providerSpec.IsReturnError: a phi of `true` (taken when the flag's own load is true) and
			// the scheduled node's flag
			if ph, isPhi := st.Val.(*ssa.Phi); isPhi && len(ph.Edges) == 2 {
				okOr, nodeFlag := true, false
				for i, e := range ph.Edges {
					if k, isC := e.(*ssa.Const); isC && k.Value != nil && k.Value.String() == "true" {
						pred := ph.Block().Preds[i]
						iff, isIf := pred.Instrs[len(pred.Instrs)-1].(*ssa.If)
						own := false
						if isIf {
							if u, isU := iff.Cond.(*ssa.UnOp); isU && u.Op == token.MUL {
								if fa, isF := u.X.(*ssa.FieldAddr); isF && fieldKey(fa) == "internal/kessoku.Injector.IsReturnError" {
									own = true
								}
							}
						}
						if !own {
							okOr = false
						}
						continue
					}
					s := newSym(L, map[string]bool{})
					s.maxD = 0
					if strings.Contains(strings.Join(liftParams(L, pkgFuncs(L, genPkg), st.Parent(), s.eval(e)), "|"), "ProviderSpec.IsReturnError(field:internal/kessoku.node.providerSpec(") {
						nodeFlag = true
					} else {
						okOr = false
					}
				}
				if okOr && nodeFlag {
					okStore = true
				}
				continue
			}
			k, isConst := st.Val.(*ssa.Const)
			if !isConst || k.Value == nil || k.Value.String() != "true" {
				continue
			}
			for _, iff := range controllingIfs(st) {
				s := newSym(L, map[string]bool{})
				s.maxD = 0
				if strings.Contains(strings.Join(liftParams(L, pkgFuncs(L, genPkg), st.Parent(), s.eval(iff.Cond)), "|"), "ProviderSpec.IsReturnError(field:internal/kessoku.node.providerSpec(") && iff.Block().Succs[0] == st.Block() {
					okStore = true
				}
				break
			}
		}
		c.check(okStore, rule, "Build:IsReturnError-from-scheduled-nodes", L.pos(build.Pos()), "the injector gets an error result whenever a scheduled provider is fallible", "store of true directly under the test of node.providerSpec.IsReturnError")
	}
	// the fallback for a nil handler is the empty statement: only reachable when the handler is nil
	if beh := genFn(c, rule, "(*InjectorProviderCallStmt).buildErrorHandlingStatement"); beh != nil {
		okShape := false
		for _, b := range beh.Blocks {
			for _, in := range b.Instrs {
				if al, ok := in.(*ssa.Alloc); ok {
					if nm, _ := isAstNodeType(al.Type()); nm == "EmptyStmt" {
						for _, iff := range controllingIfs(al) {
							if bo, ok := iff.Cond.(*ssa.BinOp); ok && bo.Op == token.EQL && (isNilConst(bo.X) || isNilConst(bo.Y)) {
								okShape = true
							}
						}
						// the inverted form (`if handler != nil { return checked }; return empty`): the literal lies on the
						// nil side of the test and cannot be reached from the other side
						for _, b2 := range beh.Blocks {
							iff, isIf := b2.Instrs[len(b2.Instrs)-1].(*ssa.If)
							if !isIf {
								continue
							}
							bo, isB := iff.Cond.(*ssa.BinOp)
							if !isB || (bo.Op != token.EQL && bo.Op != token.NEQ) || !(isNilConst(bo.X) || isNilConst(bo.Y)) {
								continue
							}
							nilSide, other := b2.Succs[0], b2.Succs[1]
							if bo.Op == token.NEQ {
								nilSide, other = other, nilSide
							}
							if (nilSide == al.Block() || nilSide.Dominates(al.Block())) && len(nilSide.Preds) == 1 && !reachable(other, al.Block()) {
								okShape = true
							}
						}
					}
				}
			}
		}
		c.check(okShape, rule, "buildErrorHandlingStatement:empty-only-for-nil-handler", L.pos(beh.Pos()), "an unchecked fallible call can only be emitted for a nil handler", "EmptyStmt is guarded by handler == nil")
	}
}

// ruleErrorFlow: which handlers reach which emission sites (function-value flow through the VTA call graph).
//
//	c06: report ctx.Err() handed to an injector-level handler (C06.3)
//	c07: report a plain receive although a context exists (C07.1)
//	c08: report injector-level error returns that are emitted without Wait/cancel while goroutines may exist (C08.1)
func ruleErrorFlow(c *Ctx, rule string, c06, c07, c08 bool) {
	L := c.L
	bws := genFn(c, rule, "(*InjectorProviderCallStmt).buildWaitStatement")
	gs := genFn(c, rule, "generateStmts")
	if bws == nil || gs == nil {
		return
	}
	cg := L.callgraph()
	injectorLevel := map[*ssa.Function]bool{}
	for _, a := range gs.AnonFuncs {
		injectorLevel[a] = true
	}
	if factory := handlerFactory(gs); factory != nil {
		for _, a := range factory.AnonFuncs {
			injectorLevel[a] = true
		}
	}
	// dynamic calls of the handler parameter
	var handlerCalls []*ssa.Call
	for _, fn := range []*ssa.Function{bws, resolveRole(c, genPkg, "(*InjectorProviderCallStmt).buildErrorHandlingStatement")} {
		if fn == nil {
			continue
		}
		for _, cs := range callsIn(fn) {
			if cs.common.StaticCallee() == nil && !cs.common.IsInvoke() && cs.value() != nil {
				if _, isB := cs.common.Value.(*ssa.Builtin); !isB {
					handlerCalls = append(handlerCalls, cs.value())
				}
			}
		}
	}
	c.floor(rule, "dynamic calls of the error-handler parameter", len(handlerCalls), 2)
	calleesOf := func(call *ssa.Call) []*ssa.Function {
		var out []*ssa.Function
		if n := cg.Nodes[call.Parent()]; n != nil {
			for _, e := range n.Out {
				if e.Site == ssa.CallInstruction(call) {
					out = append(out, e.Callee.Func)
				}
			}
		}
		return out
	}
	if c06 {
		for _, call := range handlerCalls {
			if call.Parent() != bws {
				continue
			}
			// argument template: a CallExpr whose Fun is a selector .Err
			isCtxErr := false
			s := newSym(L, map[string]bool{})
			_ = s
			for _, site := range collectTemplates(L.Pkgs[genPkg]) {
				if site.fn.Name.Name == bws.Name() && site.kind == "SelectorExpr" {
					if n, ok := identConst(site.pkg, site.fn, site.fields["Sel"]); ok && n == "Err" {
						isCtxErr = true
					}
				}
			}
			var inj, gor []string
			for _, f := range calleesOf(call) {
				if injectorLevel[f] {
					inj = append(inj, fnName(f))
				} else {
					gor = append(gor, fnName(f))
				}
			}
			c.sample(map[string]any{"site": L.pos(call.Pos()), "handlers_injector_level": inj, "handlers_goroutine_level": gor, "error_expression": "ctx.Err()"})
			if isCtxErr && len(inj) > 0 {
				c.fail(rule, "buildWaitStatement:ctx.Err-into-injector-level-return", L.pos(call.Pos()),
					"the cancellation branch of a main-thread wait returns ctx.Err() of the errgroup-derived context as the injector's result: when a goroutine's provider fails, the caller gets `context canceled` instead of that provider's error",
					fmt.Sprintf("handlers reaching this call: injector level %v, goroutine level %v", inj, gor))
			} else {
				c.ok(rule, "ctx.Err() is only returned from goroutines (errgroup keeps the first error)", fmt.Sprintf("handlers: %v", gor))
			}
		}
		// the provider's own error variable is what the check returns
		if fn := genFn(c, rule, "(*InjectorProviderCallStmt).Stmt"); fn != nil {
			okErr := false
			for _, cs := range callsIn(fn) {
				if calleeIs(c, cs, genPkg, "(*InjectorProviderCallStmt).buildErrorHandlingStatement") {
					// arg1 is the ident created from the pool's err name, the same ident appended to lhs
					id := resolve(cs.arg(1))
					for _, a := range cs.common.Args {
						if strings.HasSuffix(a.Type().String(), "go/ast.Ident") { // wherever the identifier stands in the parameter list
							id = resolve(a)
						}
					}
					// `var errIdent *ast.Ident` set only for fallible providers and used under `errIdent != nil`: the one non-nil value
					if ph, isPhi := id.(*ssa.Phi); isPhi {
						var nonNil []ssa.Value
						for _, e := range ph.Edges {
							if !isNilConst(e) {
								nonNil = append(nonNil, resolve(e))
							}
						}
						if len(nonNil) == 1 {
							id = nonNil[0]
						}
					}
					for _, a := range appendsIn(L, fn) {
						if elems, ok := variadicElems(a.call.Common().Args[1]); ok && len(elems) == 1 && resolve(elems[0]) == id {
							okErr = true
						}
					}
				}
			}
			c.check(okErr, rule, "InjectorProviderCallStmt.Stmt:check-tests-call-error", L.pos(fn.Pos()), "the error check tests the very variable the provider call assigns", "same *ast.Ident value in the assignment's left-hand side and in the check")
		}
	}
	if c07 {
		// which literal is produced under which (hasCtx, handler==nil)
		var plain *ssa.Alloc
		for _, b := range bws.Blocks {
			for _, in := range b.Instrs {
				if al, ok := in.(*ssa.Alloc); ok {
					if nm, _ := isAstNodeType(al.Type()); nm == "ExprStmt" {
						plain = al
					}
				}
			}
		}
		if plain == nil {
			c.ok(rule, "buildWaitStatement has no plain-receive form", "no ExprStmt template")
		} else {
			rows, ids, err := truthTable(L, bws.Blocks[0], plain, nil)
			if err != "" {
				c.undecided(rule, "buildWaitStatement:table", err)
			} else {
				var ctxAtom, hAtom string
				for _, id := range ids {
					if id == "param:hasCtx" || (strings.HasPrefix(id, "param:") && !strings.Contains(id, "returnErrStmts") && ctxAtom == "") {
						ctxAtom = id
					}
					if strings.Contains(id, "returnErrStmts") || strings.HasPrefix(id, "bin==(param:") {
						hAtom = id
					}
				}
				bad := ""
				for _, r := range rows {
					if r.reached && r.atoms[ctxAtom].b {
						bad = rowString(r, ids)
					}
				}
				nilPossible := false
				for _, call := range handlerCalls {
					_ = call
				}
				// can a nil handler reach buildWaitStatement? (VTA does not track nil; look at generateStmts' selection)
				for _, cs := range callsIn(gs) {
					if cs.common.IsInvoke() && cs.common.Method.Name() == "Stmt" {
						if ph, ok := cs.common.Args[2].(*ssa.Phi); ok {
							for _, e := range ph.Edges {
								if isNilConst(e) {
									nilPossible = true
								}
							}
						}
					}
				}
				if bad != "" && nilPossible {
					c.fail(rule, "buildWaitStatement:plain-receive-despite-context", L.pos(plain.Pos()),
						"a main-thread wait is emitted as a plain `<-ch` although a context exists (the handler is nil when the injector has no error result): goroutines can leave on ctx.Done() before closing the channel, so a cancelled call never returns",
						"plain form reached for "+bad+" (atoms: hasCtx="+ctxAtom+", handler="+hAtom+")")
				} else {
					c.ok(rule, "with a context every wait can escape on ctx.Done()", "truth table of buildWaitStatement")
				}
			}
		}
		// every place that can emit an early exit: today a provider-error check and a cancellable wait. While main-thread
		// waits can be plain receives (finding above), any further early exit inside a goroutine before its close is one
		// more way to hang the caller, so a new site is reported for triage.
		allowed := map[*ssa.Function]bool{}
		for _, role := range []string{"(*InjectorProviderCallStmt).buildWaitStatement", "(*InjectorProviderCallStmt).buildErrorHandlingStatement"} {
			if f := resolveRole(c, genPkg, role); f != nil {
				allowed[f] = true
			}
		}
		for _, fn := range pkgFuncs(L, genPkg) {
			for _, cs := range callsIn(fn) {
				if cs.common.StaticCallee() != nil || cs.common.IsInvoke() {
					continue
				}
				if _, isB := cs.common.Value.(*ssa.Builtin); isB {
					continue
				}
				if cs.common.Signature().String() != "func(errExpr go/ast.Expr) []go/ast.Stmt" && !strings.HasSuffix(cs.common.Signature().String(), "(go/ast.Expr) []go/ast.Stmt") {
					continue
				}
				c.check(allowed[fn], rule, fnName(fn)+":early-exit-template", L.pos(cs.instr.Pos()),
					"early exits of generated code are emitted only by the provider-error check and by the cancellable wait", "handler invoked in "+fnName(fn))
			}
		}
	}
	if c08 {
		for f := range injectorLevel {
			hasReturn, hasWait := false, false
			for _, b := range f.Blocks {
				for _, in := range b.Instrs {
					if al, ok := in.(*ssa.Alloc); ok {
						if nm, _ := isAstNodeType(al.Type()); nm == "ReturnStmt" {
							hasReturn = true
						}
					}
				}
			}
			for _, site := range collectTemplates(L.Pkgs[genPkg]) {
				if site.fnLit != nil && site.fn.Name.Name == gs.Name() && site.kind == "SelectorExpr" {
					if n, ok := identConst(site.pkg, site.fn, site.fields["Sel"]); ok && (n == "Wait" || n == "cancel") {
						hasWait = true
					}
				}
			}
			if hasReturn && !hasWait {
				c.fail(rule, "generateStmts:injector-level-error-return-without-Wait", L.pos(f.Pos()),
					"the main thread's error/cancellation return is emitted without eg.Wait() or a cancel: goroutines parked on a barrier only the main thread would lower stay blocked after the injector returned",
					"handler "+fnName(f)+" builds a ReturnStmt; no Wait/cancel template in it; it is passed to every top-level statement also when goroutines exist")
			} else if hasReturn {
				c.ok(rule, "injector-level error return joins or cancels the goroutines first", fnName(f))
			}
		}
	}
}

// ruleIgnoredWait (C07.3): `_ = eg.Wait()`.
func ruleIgnoredWait(c *Ctx, rule string) {
	L := c.L
	p := L.Pkgs[genPkg]
	found := false
	sites := collectTemplates(p)
	for _, s := range sites {
		if s.kind != "AssignStmt" {
			continue
		}
		lhs, ok := s.fields["Lhs"].(*ast.CompositeLit)
		if !ok || len(lhs.Elts) != 1 {
			continue
		}
		if n, ok := identConst(p, s.fn, lhs.Elts[0]); !ok || n != "_" {
			continue
		}
		for _, s2 := range sites {
			if s2.kind == "SelectorExpr" && s2.nestedIn("AssignStmt") == s {
				if n, ok := identConst(p, s2.fn, s2.fields["Sel"]); ok && n == "Wait" {
					found = true
					c.fail(rule, "template:ignored-Wait-result", L.pos(s.lit.Pos()),
						"when the injector has no error result the outcome of eg.Wait() is discarded: a goroutine that left early (ctx.Done()) leaves the returned variable unset and the injector returns a zero value without any error",
						"template `_ = <group>.Wait()`")
				}
			}
		}
	}
	if !found {
		c.ok(rule, "the result of Wait is never discarded", "no `_ = x.Wait()` template")
	}
}

// existsLoopFlag: value v is computed as "some element of the ranged slice satisfies pred": a phi whose incoming
// values are only its initial false, itself, or the constant true set on the predicate's true edge.
func existsLoopFlag(v ssa.Value) (bool, string) {
	seen := map[ssa.Value]bool{}
	var walk func(x ssa.Value) (bool, string)
	walk = func(x ssa.Value) (bool, string) {
		if seen[x] {
			return true, ""
		}
		seen[x] = true
		switch y := x.(type) {
		case *ssa.Const:
			return true, ""
		case *ssa.Phi:
			for _, e := range y.Edges {
				if ok, why := walk(e); !ok {
					return false, why
				}
			}
			return true, ""
		}
		return false, "the flag takes the value " + describe(x) + " (last element wins instead of any element)"
	}
	return walk(v)
}

// ruleContextThreaded (C07.4 / C07.5)
func ruleContextThreaded(c *Ctx, rule string) {
	L := c.L
	// (i) errgroup.WithContext gets the context argument's name
	if fn := genFn(c, rule, "generateAsyncInitialization"); fn != nil {
		ok := false
		why := "call not found"
		// the function that emits `errgroup.WithContext(<ctx>)` and the parameter that becomes <ctx> (found by content, so that
		// the declaration builder may be split into a with-context and a without-context variant)
		wcFn, wcIdx := withContextBuilder(L)
		for _, cs := range callsIn(fn) {
			isDecl := calleeIs(c, cs, genPkg, "generateErrGroupDeclaration")
			if wcFn != nil {
				isDecl = cs.common.StaticCallee() == wcFn
			}
			if isDecl {
				arg := cs.common.Args[len(cs.common.Args)-1]
				if wcFn != nil && wcIdx < len(cs.common.Args) {
					arg = cs.common.Args[wcIdx]
				}
				s := newSym(L, map[string]bool{})
				ts := s.eval(arg)
				why = strings.Join(ts, " | ")
				ok = true
				for _, t := range ts {
					if t == `""` {
						continue
					}
					if strings.Contains(t, "field:internal/kessoku.InjectorArgument.Param(nil)") {
						continue // the finder's "none" result: excluded by the nil test the guard check below insists on
					}
					if !strings.Contains(t, "InjectorParam).Name(field:internal/kessoku.InjectorArgument.Param(index(field:internal/kessoku.Injector.Args(") {
						ok = false
					}
				}
				// the name is taken only from an argument that passed isContextType
				for _, cs2 := range callsIn(fn) {
					if cal2 := cs2.common.StaticCallee(); cal2 != nil && cal2.Name() == "Name" && cs2.value() != nil {
						guarded := false
						for _, iff := range controllingIfs(cs2.instr) {
							if call, isCall := iff.Cond.(*ssa.Call); isCall && call.Common().StaticCallee() != nil && call.Common().StaticCallee().Name() == "isContextType" {
								s2 := newSym(L, map[string]bool{})
								if strings.Contains(strings.Join(s2.eval(call.Common().Args[0]), "|"), "InjectorArgument.Type(index(field:internal/kessoku.Injector.Args(") {
									guarded = true
								}
							}
							// the argument found by a finder helper: `if a := contextArg(injector); a != nil { a.Param.Name(..) }`
							if fm, _, isFM := firstMatchTest(iff.Cond); isFM && fm.pred == "isContextType" && fm.listKey == "internal/kessoku.Injector.Args" && fm.fieldKey == "internal/kessoku.InjectorArgument.Type" {
								guarded = true
							}
						}
						if !guarded {
							ok = false
							why += "; the name is not taken under isContextType(arg.Type) of an element of injector.Args"
						}
					}
				}
			}
		}
		c.check(ok, rule, "generateAsyncInitialization:context-name", L.pos(fn.Pos()), "errgroup.WithContext receives the name of the injector argument whose type is context.Context", why)
	}
	// (ii) hasCtx in channelsWait is "some argument is a context"
	if fn := genFn(c, rule, "(*InjectorProviderCallStmt).channelsWait"); fn != nil {
		n := 0
		for _, cs := range callsIn(fn) {
			if cal := cs.common.StaticCallee(); cal != nil && cal.Name() == "buildWaitStatement" {
				n++
				ok, why := existsLoopFlag(cs.arg(1))
				if ok {
					// and nothing but the injector's arguments decides it (the statement's own arguments, the channels, ... do not
					// switch the escape off again)
					ok, why = flagDecidedByInjectorOnly(L, fn, cs.arg(1))
				}
				// and the loop's predicate is isContextType over injector.Args
				pred := false
				for _, cs2 := range callsIn(fn) {
					if cal2 := cs2.common.StaticCallee(); cal2 != nil && cal2.Name() == "isContextType" {
						s := newSym(L, map[string]bool{})
						if strings.Contains(strings.Join(s.eval(cs2.arg(0)), "|"), "InjectorArgument.Type(index(field:internal/kessoku.Injector.Args(") {
							pred = true
						}
					}
				}
				// the same scan behind a finder helper: contextArg(injector) != nil
				if !ok {
					if fm, _, isFM := firstMatchTest(cs.arg(1)); isFM && fm.pred == "isContextType" && fm.listKey == "internal/kessoku.Injector.Args" && fm.fieldKey == "internal/kessoku.InjectorArgument.Type" {
						if bo, isB := resolve(cs.arg(1)).(*ssa.BinOp); isB && bo.Op == token.NEQ {
							ok, pred, why = true, true, "finder helper over injector.Args with predicate isContextType(elem.Type), compared with nil"
						}
					}
				}
				// the library form of the same scan: slices.ContainsFunc(injector.Args, func(a) bool { return isContextType(a.Type) })
				if !ok {
					if ok2, why2 := containsFuncOver(L, cs.arg(1), "field:internal/kessoku.Injector.Args(", "isContextType", "internal/kessoku.InjectorArgument.Type"); ok2 {
						ok, pred, why = true, true, why2
					}
				}
				c.check(ok && pred, rule, "channelsWait:hasCtx", L.pos(cs.instr.Pos()), "a wait gets its ctx.Done() escape whenever some injector argument is a context.Context", why)
			}
		}
		c.floor(rule, "buildWaitStatement call sites", n, 2)
	}
	// (iii) Build injects the context before it returns the injector
	if build := genFn(c, rule, "(*Graph).Build"); build != nil {
		var inj *ssa.Call
		for _, cs := range callsIn(build) {
			if calleeIs(c, cs, genPkg, "(*Graph).injectContextArg") {
				inj = cs.value()
			}
		}
		okAll := inj != nil
		for _, r := range returnsOf(build) {
			if returnsNilError(r) && inj != nil {
				if errorResultIndex(inj.Common().StaticCallee()) < 0 {
					// an injection step that cannot fail: it only has to come first
					if !instrDominates(inj, r) {
						okAll = false
					}
					continue
				}
				if ok, _ := checkedBefore(inj, r); !ok {
					okAll = false
				}
			}
		}
		c.check(okAll, rule, "Build:injectContextArg-before-success", L.pos(build.Pos()), "every successful Build went through injectContextArg", "checked call dominates the success return")
	}
	if ica := genFn(c, rule, "(*Graph).injectContextArg"); ica != nil {
		// the early return without injecting is taken only when no scheduled provider is async
		okGate := false
		for _, cs := range callsIn(ica) {
			if calleeIs(c, cs, genPkg, "(*Graph).hasAsyncProviders") && cs.value() != nil {
				for _, r := range *cs.value().Referrers() {
					if iff, ok := r.(*ssa.If); ok {
						// true edge must not return immediately
						t := iff.Block().Succs[0]
						isRet := false
						for _, in := range t.Instrs {
							if _, ok := in.(*ssa.Return); ok {
								isRet = true
							}
						}
						okGate = !isRet
					}
					if u, ok := r.(*ssa.UnOp); ok && u.Op == token.NOT {
						for _, rr := range *u.Referrers() {
							if iff, ok := rr.(*ssa.If); ok {
								f := iff.Block().Succs[1]
								isRet := false
								for _, in := range f.Instrs {
									if _, ok := in.(*ssa.Return); ok {
										isRet = true
									}
								}
								okGate = !isRet
							}
						}
					}
				}
			}
		}
		c.check(okGate, rule, "injectContextArg:gate", L.pos(ica.Pos()), "the context is injected whenever a scheduled provider is Async", "hasAsyncProviders() == true does not take the early return")
	}
}

// containsFuncOver accepts v == slices.ContainsFunc(<slice>, pred) (or slices.IndexFunc(...) >= 0 / != -1) where the slice's
// origin term contains sliceTerm and pred returns exactly predFn(elem.<field>) for its parameter.
func containsFuncOver(L *Loaded, v ssa.Value, sliceTerm, predFn, fieldK string) (bool, string) {
	v = resolve(v)
	var call *ssa.Call
	switch x := v.(type) {
	case *ssa.Call:
		call = x
	case *ssa.BinOp:
		cst, isC := x.Y.(*ssa.Const)
		inner, isCall := resolve(x.X).(*ssa.Call)
		if !isC || !isCall || cst.Value == nil {
			return false, ""
		}
		cal := inner.Common().StaticCallee()
		if cal == nil || fnPkgPath(cal) != "slices" || !strings.HasPrefix(cal.Name(), "IndexFunc") {
			return false, ""
		}
		n := cst.Int64()
		if !((x.Op == token.GEQ && n == 0) || (x.Op == token.NEQ && n == -1) || (x.Op == token.GTR && n == -1)) {
			return false, ""
		}
		call = inner
	default:
		return false, ""
	}
	cal := call.Common().StaticCallee()
	if cal == nil || fnPkgPath(cal) != "slices" || len(call.Common().Args) != 2 {
		return false, ""
	}
	if _, isB := v.(*ssa.Call); isB && !strings.HasPrefix(cal.Name(), "ContainsFunc") {
		return false, ""
	}
	s := newSym(L, map[string]bool{})
	if !strings.Contains(strings.Join(s.eval(call.Common().Args[0]), "|"), sliceTerm) {
		return false, "the scanned slice is " + strings.Join(s.eval(call.Common().Args[0]), "|")
	}
	var pf *ssa.Function
	switch p := resolve(call.Common().Args[1]).(type) {
	case *ssa.MakeClosure:
		pf = p.Fn.(*ssa.Function)
	case *ssa.Function:
		pf = p
	}
	if pf == nil || len(pf.Params) != 1 {
		return false, "predicate is not a function literal"
	}
	rets := returnsOf(pf)
	if len(rets) != 1 || len(rets[0].Results) != 1 {
		return false, "predicate has several returns"
	}
	pc, isCall := resolve(rets[0].Results[0]).(*ssa.Call)
	if !isCall || pc.Common().StaticCallee() == nil || pc.Common().StaticCallee().Name() != predFn || len(pc.Common().Args) != 1 {
		return false, "predicate does not return " + predFn + "(…)"
	}
	u, isU := pc.Common().Args[0].(*ssa.UnOp)
	if !isU {
		return false, "predicate argument is not a field load"
	}
	fa, isF := u.X.(*ssa.FieldAddr)
	if !isF || fieldKey(fa) != fieldK || resolve(fa.X) != ssa.Value(pf.Params[0]) {
		return false, "predicate does not test " + fieldK + " of its element"
	}
	return true, cal.Name() + " over " + sliceTerm + "…) with predicate " + predFn + "(elem." + fieldK + ")"
}

// fnPkgPath is the package path of a function, looking through generic instantiation.
func fnPkgPath(f *ssa.Function) string {
	if f.Origin() != nil {
		f = f.Origin()
	}
	if f.Pkg != nil {
		return f.Pkg.Pkg.Path()
	}
	if o := f.Object(); o != nil && o.Pkg() != nil {
		return o.Pkg().Path()
	}
	return ""
}

// handlerFactory: when generateStmts obtains the injector-level error handler from a helper (`h := f(injector)`), the helper.
// The helper must be a module function that receives generateStmts' own injector and returns the handler type.
func handlerFactory(gs *ssa.Function) *ssa.Function {
	for _, cs := range callsIn(gs) {
		if !(cs.common.IsInvoke() && cs.common.Method.Name() == "Stmt" && len(cs.common.Args) == 3) {
			continue
		}
		call, ok := resolve(cs.common.Args[2]).(*ssa.Call)
		if !ok {
			continue
		}
		cal := call.Common().StaticCallee()
		if cal == nil || cal.Pkg != gs.Pkg || len(cal.Blocks) == 0 {
			continue
		}
		if _, isSig := cal.Signature.Results().At(0).Type().Underlying().(*types.Signature); cal.Signature.Results().Len() != 1 || !isSig {
			continue
		}
		passes := false
		for _, a := range call.Common().Args {
			if p, isP := resolve(a).(*ssa.Parameter); isP && p.Parent() == gs && strings.HasSuffix(p.Type().String(), "internal/kessoku.Injector") {
				passes = true
			}
		}
		if passes {
			return cal
		}
	}
	return nil
}

// withContextBuilder: the generator function that builds the `<errgroup>.WithContext(<ctx>)` call, and the index of its
// parameter that is emitted as <ctx> (the identifier placed in the call's argument list).
func withContextBuilder(L *Loaded) (*ssa.Function, int) {
	for _, fn := range pkgFuncs(L, genPkg) {
		if fn.Parent() != nil {
			continue
		}
		has := false
		for _, cs := range callsIn(fn) {
			if cs.callee == "go/ast.NewIdent" {
				if s, ok := constString(cs.arg(0)); ok && s == "WithContext" {
					has = true
				}
			}
		}
		if !has {
			continue
		}
		for _, cs := range callsIn(fn) {
			if cs.callee != "go/ast.NewIdent" || cs.value() == nil {
				continue
			}
			p, isP := resolve(cs.arg(0)).(*ssa.Parameter)
			if !isP || p.Parent() != fn {
				continue
			}
			// emitted as an element of an argument list (a slice literal element), not as a selector's qualifier
			for _, r := range *cs.value().Referrers() {
				var v ssa.Value = cs.value()
				if mi, ok := r.(*ssa.MakeInterface); ok {
					v = mi
					for _, r2 := range *mi.Referrers() {
						if st, ok := r2.(*ssa.Store); ok && st.Val == v {
							if _, isIdx := st.Addr.(*ssa.IndexAddr); isIdx {
								for i, q := range fn.Params {
									if q == p {
										return fn, i
									}
								}
							}
						}
					}
				}
				if st, ok := r.(*ssa.Store); ok && st.Val == v {
					if _, isIdx := st.Addr.(*ssa.IndexAddr); isIdx {
						for i, q := range fn.Params {
							if q == p {
								return fn, i
							}
						}
					}
				}
			}
		}
	}
	return nil, 0
}

// listOrigin follows a value back through the helpers of a family: a parameter to the argument of its only call site,
// the i-th result of a helper call to what the helper returns on its only return.
func listOrigin(fam []*ssa.Function, v ssa.Value, d int) ssa.Value {
	if d > 6 || v == nil {
		return v
	}
	v = resolve(v)
	switch x := v.(type) {
	case *ssa.Parameter:
		pf := x.Parent()
		idx := -1
		for i, pp := range pf.Params {
			if pp == x {
				idx = i
			}
		}
		var arg ssa.Value
		n := 0
		for _, g := range fam {
			for _, cs := range callsIn(g) {
				if cal := cs.common.StaticCallee(); cal != nil && originOf(cal) == pf && idx >= 0 {
					args := cs.common.Args
					if idx < len(args) {
						n++
						arg = args[idx]
					}
				}
			}
		}
		if n == 1 {
			return listOrigin(fam, arg, d+1)
		}
	case *ssa.Extract:
		if call, ok := x.Tuple.(*ssa.Call); ok {
			if cal := call.Common().StaticCallee(); cal != nil {
				if rs := returnsOf(cal); len(rs) == 1 && x.Index < len(rs[0].Results) {
					return listOrigin(fam, rs[0].Results[x.Index], d+1)
				}
			}
		}
	case *ssa.Call:
		if cal := x.Common().StaticCallee(); cal != nil && cal.Signature.Results().Len() == 1 {
			if rs := returnsOf(cal); len(rs) == 1 && len(rs[0].Results) == 1 {
				return listOrigin(fam, rs[0].Results[0], d+1)
			}
		}
	}
	return v
}

// flagDecidedByInjectorOnly: the boolean v of fn is a web of phis over constants, both values occur, and every branch that
// selects between different values of the web tests something computed from the injector alone (a parameter of type
// *Injector or its argument list) - not the statement being emitted, its arguments or the channels.
func flagDecidedByInjectorOnly(L *Loaded, fn *ssa.Function, v ssa.Value) (bool, string) {
	var phis []*ssa.Phi
	hasT, hasF := false, false
	seen := map[ssa.Value]bool{}
	var walk func(x ssa.Value) bool
	walk = func(x ssa.Value) bool {
		if seen[x] {
			return true
		}
		seen[x] = true
		switch y := x.(type) {
		case *ssa.Const:
			if y.Value == nil || y.Value.Kind() != constant.Bool {
				return false
			}
			if constant.BoolVal(y.Value) {
				hasT = true
			} else {
				hasF = true
			}
			return true
		case *ssa.Phi:
			phis = append(phis, y)
			for _, e := range y.Edges {
				if !walk(e) {
					return false
				}
			}
			return true
		}
		return false
	}
	if !walk(v) {
		return false, "the flag is not a web of constants"
	}
	if !hasT || !hasF {
		return false, "the flag is a constant"
	}
	key := func(x ssa.Value) string {
		if c, ok := x.(*ssa.Const); ok {
			return c.String()
		}
		return x.Name()
	}
	for _, p := range phis {
		B := p.Block()
		for _, X := range fn.Blocks {
			if len(X.Instrs) == 0 {
				continue
			}
			iff, ok := X.Instrs[len(X.Instrs)-1].(*ssa.If)
			if !ok {
				continue
			}
			var sets [2]map[string]bool
			for i, S := range X.Succs {
				sets[i] = map[string]bool{}
				vis := map[*ssa.BasicBlock]bool{}
				type edge struct{ u, w *ssa.BasicBlock }
				work := []edge{{X, S}}
				for len(work) > 0 {
					e := work[len(work)-1]
					work = work[:len(work)-1]
					if e.w == B {
						for k, pr := range B.Preds {
							if pr == e.u {
								sets[i][key(p.Edges[k])] = true
							}
						}
						continue
					}
					if vis[e.w] {
						continue
					}
					vis[e.w] = true
					for _, n := range e.w.Succs {
						work = append(work, edge{e.w, n})
					}
				}
			}
			same := len(sets[0]) == len(sets[1])
			for k := range sets[0] {
				if !sets[1][k] {
					same = false
				}
			}
			if same {
				continue
			}
			s := newSym(L, map[string]bool{})
			s.maxD = 0
			term := strings.Join(s.eval(iff.Cond), "|")
			for _, m := range regexp.MustCompile(`param:([A-Za-z_0-9]+)`).FindAllStringSubmatch(term, -1) {
				okP := false
				for _, q := range fn.Params {
					if q.Name() == m[1] && (strings.HasSuffix(q.Type().String(), genPkg+".Injector") || strings.HasSuffix(q.Type().String(), genPkg+".InjectorArgument")) {
						okP = true
					}
				}
				if !okP {
					return false, "whether the wait can be cancelled also depends on " + m[1] + ": " + term
				}
			}
		}
	}
	return true, "a web of constants selected by tests over the injector's arguments only"
}
