package main

import (
	"fmt"
	"go/token"
	"go/types"
	"sort"
	"strings"

	"golang.org/x/tools/go/ssa"
)

// Branch-sensitive value-origin terms (S2 with conditional constant propagation).
//
// eval(v) gives the set of canonical terms an SSA value can denote on the *success* paths of the
// enclosing function: module-local static calls are inlined (bounded depth), loads of local variables are
// resolved to their stores, phi nodes only take edges from feasible blocks, and an `if` whose condition is
// decided by the assumptions (a boolean parameter, `param != ""`, or an `err != nil` test of a call result,
// which is assumed nil = success) contributes only the taken branch. External calls and interface invokes
// become opaque terms `callee(args)`. Nothing is executed and no solver is involved: conditions are either
// syntactically one of the assumed atoms or left undecided (both branches feasible).

type symCtx struct {
	L       *Loaded
	assume  map[string]bool // atom -> truth value; atoms: "param:<name>" (bool param), "nonempty:param:<name>"
	depth   int
	maxD    int
	binds   map[*ssa.Parameter][]string
	feas    map[*ssa.Function]map[*ssa.BasicBlock]bool
	feasE   map[*ssa.Function]map[[2]int]bool
	parent  *symCtx
	stack   map[*ssa.Function]bool
	unknown *[]string
	memo    map[ssa.Value][]string
	active  map[ssa.Value]bool
}

func newSym(L *Loaded, assume map[string]bool) *symCtx {
	u := []string{}
	return &symCtx{L: L, assume: assume, maxD: 6, binds: map[*ssa.Parameter][]string{}, feas: map[*ssa.Function]map[*ssa.BasicBlock]bool{},
		feasE: map[*ssa.Function]map[[2]int]bool{}, stack: map[*ssa.Function]bool{}, unknown: &u}
}

// condValue decides an if-condition under the assumptions. known=false => both branches feasible.
func (s *symCtx) condValue(cond ssa.Value) (known, val bool) {
	switch c := cond.(type) {
	case *ssa.Const:
		if c.Value != nil {
			return true, c.Value.String() == "true"
		}
	case *ssa.Parameter:
		for _, t := range s.eval(c) {
			if v, ok := s.assume[t]; ok {
				return true, v
			}
		}
	case *ssa.UnOp:
		if c.Op == token.NOT {
			k, v := s.condValue(c.X)
			return k, !v
		}
		if c.Op == token.MUL {
			ts := s.eval(c)
			if len(ts) == 1 {
				if v, ok := s.assume[ts[0]]; ok {
					return true, v
				}
			}
		}
	case *ssa.BinOp:
		// the emptiness test written on the length: len(p) > 0, len(p) != 0, len(p) >= 1, len(p) == 0, len(p) < 1 and their mirrors
		if lenOf, nonEmptyWhenTrue, ok := lengthTest(c); ok {
			ts := s.eval(lenOf)
			if len(ts) == 1 {
				if v, have := s.assume["nonempty:"+ts[0]]; have {
					return true, v == nonEmptyWhenTrue
				}
			}
		}
		if c.Op == token.NEQ || c.Op == token.EQL {
			x, y := c.X, c.Y
			if isNilConst(x) {
				x, y = y, x
			}
			if isNilConst(y) && isErrorType(x.Type()) {
				// error of a call: assume success
				return true, c.Op == token.EQL
			}
			if cs, ok := constString(y); ok && cs == "" {
				ts := s.eval(x)
				if len(ts) == 1 {
					if v, ok := s.assume["nonempty:"+ts[0]]; ok {
						if c.Op == token.NEQ {
							return true, v
						}
						return true, !v
					}
				}
			}
		}
	}
	return false, false
}

// lengthTest: c compares len(x) of a string x with 0 or 1 so that it decides "x is not empty". Returns x and whether a true
// outcome means non-empty.
func lengthTest(c *ssa.BinOp) (ssa.Value, bool, bool) {
	lenArg := func(v ssa.Value) ssa.Value {
		call, ok := v.(*ssa.Call)
		if !ok || len(call.Common().Args) != 1 {
			return nil
		}
		if bi, isB := call.Common().Value.(*ssa.Builtin); !isB || bi.Name() != "len" {
			return nil
		}
		if b, isBasic := call.Common().Args[0].Type().Underlying().(*types.Basic); !isBasic || b.Info()&types.IsString == 0 {
			return nil
		}
		return call.Common().Args[0]
	}
	x, y, op := c.X, c.Y, c.Op
	if lenArg(x) == nil && lenArg(y) != nil {
		// mirror: k op len(s)  ==  len(s) op' k
		x, y = y, x
		switch op {
		case token.LSS:
			op = token.GTR
		case token.GTR:
			op = token.LSS
		case token.LEQ:
			op = token.GEQ
		case token.GEQ:
			op = token.LEQ
		}
	}
	arg := lenArg(x)
	k, isK := constInt(y)
	if arg == nil || !isK {
		return nil, false, false
	}
	switch {
	case k == 0 && (op == token.GTR || op == token.NEQ), k == 1 && op == token.GEQ:
		return arg, true, true
	case k == 0 && (op == token.EQL || op == token.LEQ), k == 1 && op == token.LSS:
		return arg, false, true
	}
	return nil, false, false
}

// feasible computes the blocks and edges of fn reachable under the assumptions.
func (s *symCtx) feasible(fn *ssa.Function) (map[*ssa.BasicBlock]bool, map[[2]int]bool) {
	if f, ok := s.feas[fn]; ok {
		return f, s.feasE[fn]
	}
	blocks := map[*ssa.BasicBlock]bool{}
	edges := map[[2]int]bool{}
	s.feas[fn], s.feasE[fn] = blocks, edges
	if len(fn.Blocks) == 0 {
		return blocks, edges
	}
	work := []*ssa.BasicBlock{fn.Blocks[0]}
	for len(work) > 0 {
		b := work[len(work)-1]
		work = work[:len(work)-1]
		if blocks[b] {
			continue
		}
		blocks[b] = true
		succs := b.Succs
		if len(b.Instrs) > 0 {
			if iff, ok := b.Instrs[len(b.Instrs)-1].(*ssa.If); ok {
				if known, val := s.condValue(iff.Cond); known {
					if val {
						succs = b.Succs[:1]
					} else {
						succs = b.Succs[1:2]
					}
				}
			}
		}
		for _, n := range succs {
			edges[[2]int{b.Index, n.Index}] = true
			work = append(work, n)
		}
	}
	return blocks, edges
}

func uniq(ts []string) []string {
	m := map[string]bool{}
	for _, t := range ts {
		m[t] = true
	}
	out := make([]string, 0, len(m))
	for t := range m {
		out = append(out, t)
	}
	sort.Strings(out)
	return out
}

func cross(prefix string, argSets [][]string) []string {
	res := []string{""}
	for i, set := range argSets {
		var next []string
		for _, r := range res {
			for _, a := range set {
				sep := ", "
				if i == 0 {
					sep = ""
				}
				next = append(next, r+sep+a)
			}
		}
		res = next
		if len(res) > 64 {
			res = res[:64]
		}
	}
	for i := range res {
		res[i] = prefix + "(" + res[i] + ")"
	}
	return res
}

func (s *symCtx) eval(v ssa.Value) []string {
	if s.memo == nil {
		s.memo = map[ssa.Value][]string{}
		s.active = map[ssa.Value]bool{}
	}
	if m, ok := s.memo[v]; ok {
		return m
	}
	if s.active[v] {
		return []string{"cycle"}
	}
	if s.depth > 60 {
		return []string{"deep"}
	}
	s.active[v] = true
	s.depth++
	res := s.eval1(v)
	s.depth--
	delete(s.active, v)
	if len(res) > 32 {
		res = res[:32]
	}
	s.memo[v] = res
	return res
}

func (s *symCtx) eval1(v ssa.Value) []string {
	switch x := v.(type) {
	case *ssa.Const:
		if str, ok := constString(x); ok {
			return []string{fmt.Sprintf("%q", str)}
		}
		if x.Value == nil {
			return []string{"nil"}
		}
		return []string{x.Value.ExactString()}
	case *ssa.Parameter:
		if b, ok := s.binds[x]; ok {
			return b
		}
		return []string{"param:" + x.Name()}
	case *ssa.FreeVar:
		if b := freeVarBinding(x); b != nil {
			return s.inParent(x.Parent().Parent(), func(c *symCtx) []string { return c.eval(b) })
		}
		return []string{"freevar:" + x.Name()}
	case *ssa.Global:
		return []string{"global:" + x.Pkg.Pkg.Path() + "." + x.Name()}
	case *ssa.Function:
		return []string{"func:" + x.String()}
	case *ssa.MakeClosure:
		return []string{"closure:" + x.Fn.String()}
	case *ssa.MakeInterface:
		return s.eval(x.X)
	case *ssa.ChangeInterface:
		return s.eval(x.X)
	case *ssa.ChangeType:
		return s.eval(x.X)
	case *ssa.Convert:
		return s.eval(x.X)
	case *ssa.TypeAssert:
		return s.eval(x.X)
	case *ssa.Alloc:
		// address of a local: used for zero values `var agent T`
		var out []string
		for _, st := range storesTo(x) {
			out = append(out, s.eval(st.Val)...)
		}
		if len(out) == 0 {
			return []string{"zero:" + x.Type().String()}
		}
		return uniq(out)
	case *ssa.UnOp:
		if x.Op == token.MUL {
			if rs, ok := loadStores(x); ok {
				var out []string
				for _, st := range rs {
					if _, isFV := x.X.(*ssa.FreeVar); isFV {
						out = append(out, s.inParent(x.X.(*ssa.FreeVar).Parent().Parent(), func(c *symCtx) []string { return c.eval(st.Val) })...)
					} else {
						out = append(out, s.eval(st.Val)...)
					}
				}
				return uniq(out)
			}
			switch a := x.X.(type) {
			case *ssa.Alloc:
				return s.eval(a)
			case *ssa.FreeVar:
				if b := freeVarBinding(a); b != nil {
					return s.inParent(a.Parent().Parent(), func(c *symCtx) []string { return c.eval(b) })
				}
			case *ssa.Global:
				return []string{"global:" + a.Pkg.Pkg.Path() + "." + a.Name()}
			case *ssa.FieldAddr:
				return cross("field:"+fieldName(a), [][]string{s.eval(a.X)})
			case *ssa.IndexAddr:
				return cross("index", [][]string{s.eval(a.X)})
			}
			return []string{"load:" + x.X.Name()}
		}
		return cross("op"+x.Op.String(), [][]string{s.eval(x.X)})
	case *ssa.BinOp:
		return cross("bin"+x.Op.String(), [][]string{s.eval(x.X), s.eval(x.Y)})
	case *ssa.Phi:
		_, edges := s.feasible(x.Block().Parent())
		var out []string
		for i, e := range x.Edges {
			pred := x.Block().Preds[i]
			if edges[[2]int{pred.Index, x.Block().Index}] {
				out = append(out, s.eval(e)...)
			}
		}
		if len(out) == 0 {
			return []string{"phi:infeasible"}
		}
		return uniq(out)
	case *ssa.Extract:
		if c, ok := x.Tuple.(*ssa.Call); ok {
			return s.evalCall(c, x.Index)
		}
		switch t := x.Tuple.(type) {
		case *ssa.TypeAssert:
			if x.Index == 0 {
				return s.eval(t.X)
			}
		case *ssa.Lookup:
			if x.Index == 0 {
				return cross("lookup", [][]string{s.eval(t.X), s.eval(t.Index)})
			}
		case *ssa.Next:
			return cross(fmt.Sprintf("next#%d", x.Index), [][]string{s.eval(t.Iter)})
		}
		return []string{"extract:" + x.Tuple.Name()}
	case *ssa.Call:
		return s.evalCall(x, 0)
	case *ssa.Slice:
		if elems, ok := variadicElems(x); ok {
			sets := [][]string{}
			for _, e := range elems {
				sets = append(sets, s.eval(e))
			}
			return cross("list", sets)
		}
		return cross("slice", [][]string{s.eval(x.X)})
	case *ssa.FieldAddr:
		return cross("addr:"+fieldName(x), [][]string{s.eval(x.X)})
	case *ssa.Field:
		name := "?"
		if st, ok := x.X.Type().Underlying().(*types.Struct); ok {
			name = st.Field(x.Field).Name()
		}
		tn := x.X.Type().String()
		return cross("field:"+strings.TrimPrefix(tn, modPath+"/")+"."+name, [][]string{s.eval(x.X)})
	case *ssa.Index:
		return cross("index", [][]string{s.eval(x.X)})
	case *ssa.IndexAddr:
		return cross("index", [][]string{s.eval(x.X)})
	case *ssa.Next:
		return cross("next", [][]string{s.eval(x.Iter)})
	case *ssa.Range:
		return cross("range", [][]string{s.eval(x.X)})
	case *ssa.MakeMap:
		return []string{"makemap@" + s.L.pos(x.Pos())}
	case *ssa.MakeSlice:
		return []string{"makeslice@" + s.L.pos(x.Pos())}
	case *ssa.Lookup:
		return cross("lookup", [][]string{s.eval(x.X), s.eval(x.Index)})
	}
	*s.unknown = append(*s.unknown, fmt.Sprintf("%T", v))
	return []string{fmt.Sprintf("unknown:%T", v)}
}

func fieldName(fa *ssa.FieldAddr) string {
	return fieldKey(fa)
}

func (s *symCtx) inParent(fn *ssa.Function, f func(c *symCtx) []string) []string {
	// walk to the context evaluating fn (closures are evaluated in a child context of their parent)
	for c := s; c != nil; c = c.parent {
		if c.stack[fn] || c.parent == nil {
			return f(c)
		}
	}
	return f(s)
}

// evalCall: module-local static callees are inlined along their feasible returns; others are opaque terms.
func (s *symCtx) evalCall(c *ssa.Call, idx int) []string {
	cc := c.Common()
	name := calleeOf(cc)
	argSets := [][]string{}
	if cc.IsInvoke() {
		argSets = append(argSets, s.eval(cc.Value))
	}
	for _, a := range cc.Args {
		argSets = append(argSets, s.eval(a))
	}
	callee := cc.StaticCallee()
	if callee != nil && symOpaque(callee) {
		callee = nil
	}
	if callee != nil && callee.Blocks != nil && s.L.NonTest[originOf(callee)] && len(s.stack) < s.maxD && !s.stack[callee] {
		child := &symCtx{L: s.L, assume: s.assume, maxD: s.maxD, binds: map[*ssa.Parameter][]string{}, feas: map[*ssa.Function]map[*ssa.BasicBlock]bool{},
			feasE: map[*ssa.Function]map[[2]int]bool{}, parent: s, stack: map[*ssa.Function]bool{}, unknown: s.unknown, depth: s.depth}
		for f := range s.stack {
			child.stack[f] = true
		}
		child.stack[callee] = true
		for i, p := range callee.Params {
			if i < len(argSets) {
				child.binds[p] = argSets[i]
			}
		}
		blocks, _ := child.feasible(callee)
		var out []string
		for _, r := range returnsOf(callee) {
			if !blocks[r.Block()] {
				continue
			}
			if idx < len(r.Results) {
				out = append(out, child.eval(r.Results[idx])...)
			}
		}
		if len(out) > 0 {
			return uniq(out)
		}
	}
	suffix := ""
	if sigLen := cc.Signature().Results().Len(); sigLen > 1 {
		suffix = fmt.Sprintf("#%d", idx)
	}
	if name == "" {
		name = "dyn:" + strings.Join(s.eval(cc.Value), "|")
	}
	return cross(name+suffix, argSets)
}

func originOf(fn *ssa.Function) *ssa.Function {
	if fn.Origin() != nil {
		return fn.Origin()
	}
	return fn
}

// evalFn evaluates the idx-th result of fn under the assumptions, with parameters left symbolic.
func (s *symCtx) evalFn(fn *ssa.Function, idx int) []string {
	s.stack[fn] = true
	blocks, _ := s.feasible(fn)
	var out []string
	for _, r := range returnsOf(fn) {
		if blocks[r.Block()] && idx < len(r.Results) {
			out = append(out, s.eval(r.Results[idx])...)
		}
	}
	return uniq(out)
}

// symOpaque: functions whose result is an allocator decision, never inlined (their term is the call itself).
func symOpaque(fn *ssa.Function) bool {
	if fn.Signature.Recv() == nil {
		return false
	}
	r := fn.Signature.Recv().Type().String()
	if strings.HasSuffix(r, genPkg+".VarPool") {
		return true
	}
	if strings.HasSuffix(r, genPkg+".InjectorParam") && (fn.Name() == "Name" || fn.Name() == "ChannelName") {
		return true
	}
	return false
}
