package main

import (
	"go/token"
	"strings"

	"golang.org/x/tools/go/ssa"
)

// S10: frozen table of filesystem mutators (resolved callees) and the positions of their path arguments.
var fsMutators = map[string][]int{
	"os.Create": {0}, "os.OpenFile": {0}, "os.WriteFile": {0}, "os.Rename": {0, 1}, "os.Remove": {0},
	"os.RemoveAll": {0}, "os.Mkdir": {0}, "os.MkdirAll": {0}, "os.MkdirTemp": {0}, "os.CreateTemp": {0},
	"os.Chmod": {0}, "os.Chown": {0}, "os.Lchown": {0}, "os.Truncate": {0}, "os.Symlink": {0, 1},
	"os.Link": {0, 1}, "os.Chtimes": {0}, "os.CopyFS": {0},
	"io/ioutil.WriteFile": {0}, "io/ioutil.TempFile": {0}, "io/ioutil.TempDir": {0},
}

// methods of *os.File that change the file (receiver is argument 0 of the static call)
var fileMutatorMethods = map[string]bool{
	"(*os.File).Write": true, "(*os.File).WriteString": true, "(*os.File).WriteAt": true, "(*os.File).Truncate": true,
	"(*os.File).Chmod": true, "(*os.File).Chown": true, "(*os.File).ReadFrom": true, "(*os.File).WriteTo": false,
}

// S10: nondeterminism sources
var nondetSources = map[string]bool{
	"time.Now": true, "time.Since": true, "time.Until": true,
	"math/rand.Int": true, "math/rand.Intn": true, "math/rand.Seed": true, "math/rand.Shuffle": true, "math/rand.Perm": true,
	"math/rand.Float64": true, "math/rand.New": true, "math/rand/v2.IntN": true, "math/rand/v2.Int": true, "math/rand/v2.Shuffle": true,
	"math/rand/v2.N": true, "math/rand/v2.Perm": true,
	"crypto/rand.Read": true, "crypto/rand.Int": true, "crypto/rand.Text": true,
	"os.Getpid": true, "os.Hostname": true, "os.Getenv": true, "os.Environ": true, "os.LookupEnv": true, "os.Getppid": true,
	"runtime.NumGoroutine": true, "runtime.GOMAXPROCS": true, "runtime.NumCPU": true,
	"os.Getwd": false,
	// the identity of the running binary, of the user and of the machine
	"runtime/debug.ReadBuildInfo": true, "runtime.Version": true, "os.Executable": true, "os/user.Current": true, "os.Getuid": true,
	"os.Geteuid": true, "os.Getgid": true, "os.UserHomeDir": true, "os.UserCacheDir": true, "os.UserConfigDir": true, "os.TempDir": true,
	// the generator's declared input is what packages.Load reads; it reads no file of its own (an earlier output, a leftover)
	"os.Open": true, "os.ReadFile": true, "os.ReadDir": true, "(*os.File).Read": true, "(*os.File).ReadAt": true, "(*os.File).ReadDir": true,
	"io/fs.ReadFile": true, "io/fs.ReadDir": true, "path/filepath.Glob": true, "path/filepath.WalkDir": true, "path/filepath.Walk": true,
	// file metadata (timestamps, inode identity) is not part of the declared input
	"os.Stat": true, "os.Lstat": true, "(*os.File).Stat": true, "invoke (io/fs.FileInfo).ModTime": true,
	"os.SameFile": true, "os.Chtimes": true, "invoke (io/fs.DirEntry).Info": true,
	// library-level concurrency: work handed to other goroutines (the allocator is shared by all files of a run)
	"(*golang.org/x/sync/errgroup.Group).Go": true, "(*golang.org/x/sync/errgroup.Group).TryGo": true, "(*sync.WaitGroup).Go": true,
}

func isFsMutator(callee string) bool {
	if _, ok := fsMutators[callee]; ok {
		return true
	}
	return fileMutatorMethods[callee]
}

// variadicElems returns the elements of a `[]T{a, b, ...}` / variadic argument slice built in SSA as
// `slice (new [n]T)[:]` with one store per index. ok=false if the shape is different.
func variadicElems(v ssa.Value) ([]ssa.Value, bool) {
	sl, ok := v.(*ssa.Slice)
	if !ok {
		return nil, false
	}
	al, ok := sl.X.(*ssa.Alloc)
	if !ok || al.Referrers() == nil {
		return nil, false
	}
	elems := map[int64]ssa.Value{}
	for _, r := range *al.Referrers() {
		ia, ok := r.(*ssa.IndexAddr)
		if !ok {
			continue
		}
		idx, ok := constInt(ia.Index)
		if !ok || ia.Referrers() == nil {
			return nil, false
		}
		for _, rr := range *ia.Referrers() {
			if st, ok := rr.(*ssa.Store); ok && st.Addr == ia {
				if _, dup := elems[idx]; dup {
					return nil, false
				}
				elems[idx] = st.Val
			}
		}
	}
	out := make([]ssa.Value, len(elems))
	for i := range out {
		e, ok := elems[int64(i)]
		if !ok {
			return nil, false
		}
		out[i] = e
	}
	return out, true
}

// callResultOf: v (after resolve) is the result (or the #idx component) of a static call to callee.
func callResultOf(v ssa.Value, callee string, idx int) *ssa.Call {
	v = resolve(v)
	if e, ok := v.(*ssa.Extract); ok {
		if c, ok := e.Tuple.(*ssa.Call); ok && e.Index == idx && calleeOf(c.Common()) == callee {
			return c
		}
		return nil
	}
	if c, ok := v.(*ssa.Call); ok && idx <= 0 && calleeOf(c.Common()) == callee {
		return c
	}
	return nil
}

// joinElems: v is filepath.Join(a, b, ...) -> its element values.
func joinElems(v ssa.Value) ([]ssa.Value, bool) {
	c := callResultOf(v, "path/filepath.Join", 0)
	if c == nil || len(c.Common().Args) != 1 {
		return nil, false
	}
	return variadicElems(c.Common().Args[0])
}

func sameValue(a, b ssa.Value) bool { return resolve(a) == resolve(b) }

func describe(v ssa.Value) string {
	v = resolve(v)
	switch x := v.(type) {
	case *ssa.Parameter:
		return "parameter " + x.Name()
	case *ssa.Const:
		return "constant " + x.String()
	case *ssa.Call:
		return "result of " + calleeOf(x.Common())
	case *ssa.Extract:
		if c, ok := x.Tuple.(*ssa.Call); ok {
			return "result #" + string(rune('0'+x.Index)) + " of " + calleeOf(c.Common())
		}
	case *ssa.UnOp:
		if x.Op == token.MUL {
			return "load of " + x.X.Name()
		}
	}
	return strings.TrimSpace(v.Name() + " " + v.String())
}
