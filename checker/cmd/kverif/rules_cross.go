package main

import (
	"strings"

	"golang.org/x/tools/go/ssa"
)

// Cross-registration: rules that were written for one property and are necessary conditions of its neighbours as well. A
// defect in one mechanism of the generator (dependency order, the parser's reading of a provider, context threading, lane
// assignment) violates several of the listed properties, each on its own inputs: a provider scheduled before its input is a
// data race under goroutines (C01), a wrong result (C02), a deadlock when the misplaced call waits (C03), a compile error
// in an injector without goroutines (C04) and a dependant that runs although its provider failed (C06). The rule ids
// Cxx.40 and up are the same rules run under the neighbouring property.
func crossRegistered(c *Ctx) {
	order := func(base string, skip ...string) {
		sk := map[string]bool{}
		for _, s := range skip {
			sk[s] = true
		}
		run := func(name string, f func()) {
			if !sk[name] {
				f()
			}
		}
		run("pairedEdges", func() { rulePairedEdges(c, base+".40") })
		run("isWait", func() { ruleIsWaitTable(c, base+".40") })
		run("refTable", func() { ruleRefTable(c, base+".40") })
		run("fieldAccess", func() { ruleFieldAccessSync(c, base+".40") })
		run("guardReceivers", func() { ruleGuardReceivers(c, base+".40") })
		run("snapshot", func() { ruleSnapshotReadOnly(c, base+".40") })
		run("poolsAppendOnly", func() { rulePoolsAppendOnly(c, base+".41") })
		run("poolsProcessed", func() { rulePoolsProcessed(c, base+".41") })
		run("laneIntegrity", func() { ruleLaneIntegrity(c, base+".41") })
		run("stmtOrder", func() { ruleStmtOrder(c, base+".41") })
		run("syncJoins", func() { ruleSyncJoinsItsInputs(c, base+".41") })
		run("emittedInPlace", func() { ruleEveryStmtEmittedInPlace(c, base+".41") })
		run("exprListsFresh", func() { ruleExprListsFresh(c, base+".41") })
		run("noEarlyExit", func() {
			// the loops that collect arguments, waits, closes and statements visit every element
			ruleNoEarlyExit(c, base+".42", "(*InjectorProviderCallStmt).generateChannelWaitStatement", "(*InjectorProviderCallStmt).generateChannelCloseStatement",
				"(*InjectorProviderCallStmt).buildArguments", "(*InjectorChainStmt).Stmt#emits", "generateStmts", "(*Graph).buildPoolStmtsSimple")
		})
		run("readiness", func() { ruleReadinessByFirstNode(c, base+".42") })
		run("providedCount", func() { ruleProvidedCountPerDependency(c, base+".42") })
		run("fifo", func() { ruleQueueIsFIFO(c, base+".42") })
		run("seeded", func() { ruleSourcesSeededFirst(c, base+".42") })
	}
	parse := func(base string, skip ...string) {
		sk := map[string]bool{}
		for _, s := range skip {
			sk[s] = true
		}
		if !sk["typeIdentity"] {
			ruleTypeIdentity(c, base+".43", genPkg)
		}
		if !sk["asyncFlag"] {
			ruleAsyncFlag(c, base+".43")
		}
		if !sk["resultsFresh"] {
			ruleProviderTypeResultsFresh(c, base+".43")
		}
		if !sk["varDecl"] {
			ruleVarDeclByName(c, base+".43")
		}
	}
	ctx := func(base string, skip ...string) {
		sk := map[string]bool{}
		for _, s := range skip {
			sk[s] = true
		}
		run := func(name string, f func()) {
			if !sk[name] {
				f()
			}
		}
		run("threaded", func() { ruleContextThreaded(c, base+".44") })
		run("samePredicate", func() { ruleSameContextPredicate(c, base+".44") })
		run("constQualifiers", func() { ruleConstQualifiersBound(c, base+".44") })
		run("injected", func() { ruleContextInjectedOnEveryPath(c, base+".44") })
		run("isContextType", func() { ruleIsContextType(c, base+".44") })
		run("doneErr", func() { ruleDoneAndErrSameContext(c, base+".45") })
		run("doneLeaves", func() { ruleDoneCaseLeaves(c, base+".45") })
		run("handlerUnchanged", func() { ruleHandlerPassedUnchanged(c, base+".45") })
		run("paramsNamedFirst", func() { ruleParamsNamedFirst(c, base+".45") })
		run("namesWriteOnce", func() { ruleParamNamesWriteOnce(c, base+".45") })
		run("notPatched", func() { ruleTemplatesNotPatched(c, base+".45") })
	}
	lanes := func(base string, skip ...string) {
		sk := map[string]bool{}
		for _, s := range skip {
			sk[s] = true
		}
		run := func(name string, f func()) {
			if !sk[name] {
				f()
			}
		}
		run("poolPredicate", func() { rulePoolPredicate(c, base+".46") })
		run("callerLane", func() { ruleCallerLaneChoice(c, base+".46") })
		run("callerAppends", func() { ruleCallerAppendsSyncPoolsOnly(c, base+".46") })
		run("matching", func() { ruleMatchingVisitedFreshPerRoot(c, base+".46") })
		run("antichain", func() { rulePoolCountIsAntichain(c, base+".46") })
		run("argmin", func() { ruleArgminOverCandidates(c, base+".46") })
		run("scannedWhole", func() { ruleCandidatePoolScannedWhole(c, base+".46") })
	}
	switch c.Prop {
	case "C01":
		order("C01", "pairedEdges", "isWait", "refTable", "fieldAccess", "guardReceivers", "snapshot", "poolsAppendOnly", "poolsProcessed", "laneIntegrity", "stmtOrder", "syncJoins", "emittedInPlace", "exprListsFresh")
		parse("C01")
	case "C02":
		order("C02", "pairedEdges", "isWait", "refTable", "fieldAccess", "guardReceivers", "snapshot", "poolsProcessed", "laneIntegrity", "exprListsFresh")
		parse("C02", "typeIdentity", "asyncFlag")
		ctx("C02", "threaded", "samePredicate", "constQualifiers", "injected", "isContextType", "doneErr", "handlerUnchanged", "paramsNamedFirst", "namesWriteOnce", "notPatched")
	case "C03":
		order("C03", "pairedEdges", "refTable", "fieldAccess", "guardReceivers", "poolsAppendOnly", "poolsProcessed", "laneIntegrity", "emittedInPlace", "exprListsFresh", "readiness")
		lanes("C03", "poolPredicate", "callerLane", "matching", "antichain", "argmin", "scannedWhole")
	case "C04":
		order("C04", "pairedEdges", "isWait", "refTable", "fieldAccess", "guardReceivers", "snapshot", "laneIntegrity", "stmtOrder", "emittedInPlace", "exprListsFresh", "fifo", "seeded")
		parse("C04", "asyncFlag")
	case "C05":
		parse("C05", "typeIdentity", "asyncFlag")
		lanes("C05", "poolPredicate", "callerAppends", "matching", "antichain", "argmin", "scannedWhole")
		order("C05", "pairedEdges", "isWait", "refTable", "fieldAccess", "guardReceivers", "snapshot", "poolsAppendOnly", "poolsProcessed", "laneIntegrity", "stmtOrder", "syncJoins", "emittedInPlace", "exprListsFresh", "readiness", "fifo", "seeded")
	case "C06":
		order("C06", "pairedEdges", "isWait", "refTable", "fieldAccess", "snapshot", "laneIntegrity", "stmtOrder")
		parse("C06", "typeIdentity")
		ctx("C06", "samePredicate", "constQualifiers", "injected", "notPatched")
	case "C07":
		// a wait nobody answers hangs the injector with or without cancellation: the close / wait discipline
		order("C07", "pairedEdges", "isWait", "snapshot", "poolsAppendOnly", "poolsProcessed", "laneIntegrity", "stmtOrder", "syncJoins", "emittedInPlace", "exprListsFresh", "readiness", "providedCount", "fifo", "seeded")
		ruleChannelGuards(c, "C07.40")
		ctx("C07", "threaded", "samePredicate", "constQualifiers", "injected", "isContextType", "doneErr", "doneLeaves", "handlerUnchanged", "paramsNamedFirst", "notPatched")
		parse("C07", "typeIdentity")
	case "C08":
		order("C08", "pairedEdges", "isWait", "snapshot", "poolsAppendOnly", "poolsProcessed", "laneIntegrity", "stmtOrder", "syncJoins", "emittedInPlace", "exprListsFresh", "readiness", "providedCount", "fifo", "seeded")
		ruleChannelGuards(c, "C08.40")
		ctx("C08", "threaded", "samePredicate", "constQualifiers", "injected", "paramsNamedFirst", "namesWriteOnce", "notPatched")
		lanes("C08", "callerLane", "matching", "argmin")
		parse("C08", "typeIdentity")
	case "C09":
		parse("C09", "typeIdentity", "resultsFresh", "varDecl")
		ruleOutputOpenedLast(c, "C09.47")
	case "C10":
		parse("C10", "typeIdentity", "resultsFresh", "varDecl")
		ruleSameContextPredicate(c, "C10.44")
	case "C13":
		parse("C13", "typeIdentity", "asyncFlag", "varDecl")
		// C13 is stated about the injector kessoku generates from the migrated file: dependency order and the reservation
		// of the user's identifiers (a migrated wire.Value(x) copies x verbatim) are part of it
		rulePairedEdges(c, "C13.40")
		namesReachAllocator(c, "C13.48")
	}
}

// namesReachAllocator: the registration rules of C12 (every package-level identifier of every file reaches the allocator
// before names are handed out) under another property's id.
func namesReachAllocator(c *Ctx, rule string) {
	sub := &Ctx{Prop: c.Prop, Tier: c.Tier, L: c.L, FuncsSeen: c.FuncsSeen, Extra: c.Extra, RoleNames: c.RoleNames}
	alloc := map[*ssa.Function]bool{}
	for _, fn := range pkgFuncs(c.L, genPkg) {
		if strings.HasSuffix(fn.String(), "VarPool).GetName") || strings.HasSuffix(fn.String(), "VarPool).Get") || strings.HasSuffix(fn.String(), "VarPool).GetChannel") {
			alloc[fn] = true
		}
	}
	c12Registration(sub, alloc)
	for _, o := range sub.Obls {
		o.Rule = rule
		c.Obls = append(c.Obls, o)
	}
	for _, f := range sub.Finds {
		f.Rule = rule
		c.Finds = append(c.Finds, f)
	}
}
