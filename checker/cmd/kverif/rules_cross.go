package main

import (
	"fmt"
	"go/token"
	"strings"

	"golang.org/x/tools/go/ssa"
)

// Cross-registration: rules that were written for one property and are necessary conditions of its neighbours as well. A
// defect in one mechanism of the generator (dependency order, the parser's reading of a provider, context threading, lane
// assignment) violates several of the listed properties, each on its own inputs: a provider scheduled before its input is a
// data race under goroutines (C01), a wrong result (C02), a deadlock when the misplaced call waits (C03), a compile error
// in an injector without goroutines (C04) and a dependant that runs although its provider failed (C06). The rule ids
// Cxx.40 and up are the same rules run under the neighbouring property.
func crossRegistered(c *Ctx) {
	order := func(base string, skip ...string) {
		sk := map[string]bool{}
		for _, s := range skip {
			sk[s] = true
		}
		run := func(name string, f func()) {
			if !sk[name] {
				f()
			}
		}
		run("pairedEdges", func() { rulePairedEdges(c, base+".40") })
		run("isWait", func() { ruleIsWaitTable(c, base+".40") })
		run("refTable", func() { ruleRefTable(c, base+".40") })
		run("fieldAccess", func() { ruleFieldAccessSync(c, base+".40") })
		run("guardReceivers", func() { ruleGuardReceivers(c, base+".40") })
		run("snapshot", func() { ruleSnapshotReadOnly(c, base+".40") })
		run("poolsAppendOnly", func() { rulePoolsAppendOnly(c, base+".41") })
		run("poolsProcessed", func() { rulePoolsProcessed(c, base+".41") })
		run("laneIntegrity", func() { ruleLaneIntegrity(c, base+".41") })
		run("stmtOrder", func() { ruleStmtOrder(c, base+".41") })
		run("syncJoins", func() { ruleSyncJoinsItsInputs(c, base+".41") })
		run("emittedInPlace", func() { ruleEveryStmtEmittedInPlace(c, base+".41") })
		run("exprListsFresh", func() { ruleExprListsFresh(c, base+".41") })
		run("noEarlyExit", func() {
			// the loops that collect arguments, waits, closes and statements visit every element
			ruleNoEarlyExit(c, base+".42", "(*InjectorProviderCallStmt).generateChannelWaitStatement", "(*InjectorProviderCallStmt).generateChannelCloseStatement",
				"(*InjectorProviderCallStmt).buildArguments", "(*InjectorChainStmt).Stmt#emits", "generateStmts", "(*Graph).buildPoolStmtsSimple")
		})
		run("readiness", func() { ruleReadinessByFirstNode(c, base+".42") })
		run("providedCount", func() { ruleProvidedCountPerDependency(c, base+".42") })
		run("fifo", func() { ruleQueueIsFIFO(c, base+".42") })
		run("seeded", func() { ruleSourcesSeededFirst(c, base+".42") })
	}
	parse := func(base string, skip ...string) {
		sk := map[string]bool{}
		for _, s := range skip {
			sk[s] = true
		}
		if !sk["typeIdentity"] {
			ruleTypeIdentity(c, base+".43", genPkg)
		}
		if !sk["asyncFlag"] {
			ruleAsyncFlag(c, base+".43")
		}
		if !sk["resultsFresh"] {
			ruleProviderTypeResultsFresh(c, base+".43")
		}
		if !sk["varDecl"] {
			ruleVarDeclByName(c, base+".43")
		}
		if !sk["bindAllGroups"] {
			ruleBindVisitsEveryResultGroup(c, base+".43")
		}
	}
	ctx := func(base string, skip ...string) {
		sk := map[string]bool{}
		for _, s := range skip {
			sk[s] = true
		}
		run := func(name string, f func()) {
			if !sk[name] {
				f()
			}
		}
		run("threaded", func() { ruleContextThreaded(c, base+".44") })
		run("samePredicate", func() { ruleSameContextPredicate(c, base+".44") })
		run("constQualifiers", func() { ruleConstQualifiersBound(c, base+".44") })
		run("injected", func() { ruleContextInjectedOnEveryPath(c, base+".44") })
		run("isContextType", func() { ruleIsContextType(c, base+".44") })
		run("doneErr", func() { ruleDoneAndErrSameContext(c, base+".45") })
		run("doneLeaves", func() { ruleDoneCaseLeaves(c, base+".45") })
		run("handlerUnchanged", func() { ruleHandlerPassedUnchanged(c, base+".45") })
		run("paramsNamedFirst", func() { ruleParamsNamedFirst(c, base+".45") })
		run("namesWriteOnce", func() { ruleParamNamesWriteOnce(c, base+".45") })
		run("notPatched", func() { ruleTemplatesNotPatched(c, base+".45") })
	}
	lanes := func(base string, skip ...string) {
		sk := map[string]bool{}
		for _, s := range skip {
			sk[s] = true
		}
		run := func(name string, f func()) {
			if !sk[name] {
				f()
			}
		}
		run("poolPredicate", func() { rulePoolPredicate(c, base+".46") })
		run("callerLane", func() { ruleCallerLaneChoice(c, base+".46") })
		run("callerAppends", func() { ruleCallerAppendsSyncPoolsOnly(c, base+".46") })
		run("matching", func() { ruleMatchingVisitedFreshPerRoot(c, base+".46") })
		run("antichain", func() { rulePoolCountIsAntichain(c, base+".46") })
		run("argmin", func() { ruleArgminOverCandidates(c, base+".46") })
		run("scannedWhole", func() { ruleCandidatePoolScannedWhole(c, base+".46") })
	}
	switch c.Prop {
	case "C01":
		order("C01", "pairedEdges", "isWait", "refTable", "fieldAccess", "guardReceivers", "snapshot", "poolsAppendOnly", "poolsProcessed", "laneIntegrity", "stmtOrder", "syncJoins", "emittedInPlace", "exprListsFresh")
		parse("C01")
		namesInEmissionOrder(c, "C01.49")
	case "C02":
		order("C02", "pairedEdges", "isWait", "refTable", "fieldAccess", "guardReceivers", "snapshot", "poolsProcessed", "laneIntegrity", "exprListsFresh")
		parse("C02", "typeIdentity", "asyncFlag")
		ctx("C02", "threaded", "samePredicate", "constQualifiers", "injected", "isContextType", "doneErr", "handlerUnchanged", "paramsNamedFirst", "namesWriteOnce", "notPatched")
		ruleProviderSpecCarriesItsExpression(c, "C02.47")
		c12All(c, "C02.48")
		ruleRuntimeFnIsIdentity(c, "C02.49")
	case "C03":
		order("C03", "pairedEdges", "refTable", "fieldAccess", "guardReceivers", "poolsAppendOnly", "poolsProcessed", "laneIntegrity", "emittedInPlace", "exprListsFresh", "readiness")
		lanes("C03", "poolPredicate", "callerLane", "matching", "antichain", "argmin", "scannedWhole")
	case "C04":
		order("C04", "pairedEdges", "isWait", "refTable", "fieldAccess", "guardReceivers", "snapshot", "laneIntegrity", "stmtOrder", "emittedInPlace", "exprListsFresh", "fifo", "seeded")
		parse("C04", "asyncFlag")
		namesInEmissionOrder(c, "C04.49")
	case "C05":
		parse("C05", "typeIdentity", "asyncFlag")
		lanes("C05", "poolPredicate", "callerAppends", "matching", "antichain", "argmin", "scannedWhole")
		ruleRuntimeFnIsIdentity(c, "C05.47")
		order("C05", "pairedEdges", "isWait", "refTable", "fieldAccess", "guardReceivers", "snapshot", "poolsAppendOnly", "poolsProcessed", "laneIntegrity", "stmtOrder", "syncJoins", "emittedInPlace", "exprListsFresh", "readiness", "fifo", "seeded")
	case "C06":
		order("C06", "pairedEdges", "isWait", "refTable", "fieldAccess", "snapshot", "laneIntegrity", "stmtOrder")
		parse("C06", "typeIdentity")
		ctx("C06", "samePredicate", "constQualifiers", "injected", "notPatched")
	case "C07":
		// a wait nobody answers hangs the injector with or without cancellation: the close / wait discipline
		order("C07", "pairedEdges", "isWait", "snapshot", "poolsAppendOnly", "poolsProcessed", "laneIntegrity", "stmtOrder", "syncJoins", "emittedInPlace", "exprListsFresh", "readiness", "providedCount", "fifo", "seeded")
		ruleChannelGuards(c, "C07.40")
		ctx("C07", "threaded", "samePredicate", "constQualifiers", "injected", "isContextType", "doneErr", "doneLeaves", "handlerUnchanged", "paramsNamedFirst", "notPatched")
		parse("C07", "typeIdentity")
	case "C08":
		order("C08", "pairedEdges", "isWait", "snapshot", "poolsAppendOnly", "poolsProcessed", "laneIntegrity", "stmtOrder", "syncJoins", "emittedInPlace", "exprListsFresh", "readiness", "providedCount", "fifo", "seeded")
		ruleChannelGuards(c, "C08.40")
		ctx("C08", "threaded", "samePredicate", "constQualifiers", "injected", "paramsNamedFirst", "namesWriteOnce", "notPatched")
		lanes("C08", "callerLane", "matching", "argmin")
		parse("C08", "typeIdentity")
	case "C09":
		parse("C09", "typeIdentity", "resultsFresh", "varDecl")
		ruleOutputOpenedLast(c, "C09.47")
	case "C10":
		parse("C10", "typeIdentity", "resultsFresh", "varDecl")
		ruleSameContextPredicate(c, "C10.44")
	case "C13":
		parse("C13", "typeIdentity", "asyncFlag", "varDecl")
		// C13 is stated about the injector kessoku generates from the migrated file: dependency order and the reservation
		// of the user's identifiers (a migrated wire.Value(x) copies x verbatim) are part of it
		rulePairedEdges(c, "C13.40")
		namesReachAllocator(c, "C13.48")
	}
}

// namesReachAllocator: the registration rules of C12 (every package-level identifier of every file reaches the allocator
// before names are handed out) under another property's id.
func namesReachAllocator(c *Ctx, rule string) {
	sub := &Ctx{Prop: c.Prop, Tier: c.Tier, L: c.L, FuncsSeen: c.FuncsSeen, Extra: c.Extra, RoleNames: c.RoleNames}
	alloc := map[*ssa.Function]bool{}
	for _, fn := range pkgFuncs(c.L, genPkg) {
		if strings.HasSuffix(fn.String(), "VarPool).GetName") || strings.HasSuffix(fn.String(), "VarPool).Get") || strings.HasSuffix(fn.String(), "VarPool).GetChannel") {
			alloc[fn] = true
		}
	}
	c12Registration(sub, alloc)
	for _, o := range sub.Obls {
		o.Rule = rule
		c.Obls = append(c.Obls, o)
	}
	for _, f := range sub.Finds {
		f.Rule = rule
		c.Finds = append(c.Finds, f)
	}
}

// ruleBindVisitsEveryResultGroup: Bind[I] attaches the interface to whichever result of the wrapped provider implements it. The
// stores that extend a result group of the parsed provider (`result.Provides[i] = append(result.Provides[i], I)`) are indexed
// by a loop variable over the groups, never by a constant: bound to group 0 only, a provider whose implementing result comes
// second no longer supplies the interface, which silently becomes an injector parameter.
func ruleBindVisitsEveryResultGroup(c *Ctx, rule string) {
	L := c.L
	fn := genFn(c, rule, "(*Parser).parseProviderType")
	if fn == nil {
		return
	}
	n := 0
	for _, f := range family(L, fn) {
		for _, b := range f.Blocks {
			for _, in := range b.Instrs {
				st, ok := in.(*ssa.Store)
				if !ok {
					continue
				}
				ia, ok := st.Addr.(*ssa.IndexAddr)
				if !ok {
					continue
				}
				ld, ok := resolve(ia.X).(*ssa.UnOp)
				if !ok {
					continue
				}
				fa, ok := ld.X.(*ssa.FieldAddr)
				if !ok || fieldKey(fa) != "internal/kessoku.parseProviderTypeResult.Provides" {
					continue
				}
				n++
				_, isConst := constInt(ia.Index)
				c.check(!isConst, rule, fnName(f)+":bind-extends-every-result-group", L.pos(st.Pos()),
					"the interface of a Bind is attached to whichever result group of the wrapped provider implements it (the store is indexed by the loop over the groups, not by a constant)", "index "+describe(ia.Index))
			}
		}
	}
	if n == 0 {
		c.ok(rule, "parseProviderType: no store into a result group of the parsed provider recognised; rule not applied", "shape not recognised")
	}
}

// ruleDefaultNameFlagComputed: an import whose name was handed out by the allocator is printed without an alias only when the
// allocator answered the package's own name. Wherever an Import gets its Name from VarPool.GetName, its IsDefaultName is the
// comparison of that very answer with something (or false); a constant true prints `import "path"` while the body uses the
// suffixed name the allocator chose (`errgroup0`): undefined identifier, and the unaliased import clashes with the user's name.
func ruleDefaultNameFlagComputed(c *Ctx, rule string) {
	L := c.L
	n := 0
	for _, fn := range pkgFuncs(L, genPkg) {
		for _, f := range withClosures(fn) {
			var names, flags []*ssa.Store
			for _, b := range f.Blocks {
				for _, in := range b.Instrs {
					st, ok := in.(*ssa.Store)
					if !ok {
						continue
					}
					fa, ok := st.Addr.(*ssa.FieldAddr)
					if !ok {
						continue
					}
					switch fieldKey(fa) {
					case "internal/kessoku.Import.Name":
						names = append(names, st)
					case "internal/kessoku.Import.IsDefaultName":
						flags = append(flags, st)
					}
				}
			}
			for _, nm := range names {
				call, ok := resolve(nm.Val).(*ssa.Call)
				if !ok || !strings.HasSuffix(calleeOf(call.Common()), "VarPool).GetName") {
					continue
				}
				base := nm.Addr.(*ssa.FieldAddr).X
				for _, fl := range flags {
					if fl.Addr.(*ssa.FieldAddr).X != base {
						continue
					}
					n++
					ok, why := false, "the flag is "+describe(resolve(fl.Val))
					switch v := resolve(fl.Val).(type) {
					case *ssa.Const:
						ok = v.Value != nil && v.Value.String() == "false"
						why = "constant " + v.Value.String()
					case *ssa.BinOp:
						if v.Op == token.EQL && (resolve(v.X) == ssa.Value(call) || resolve(v.Y) == ssa.Value(call)) {
							ok, why = true, "comparison of the allocator's answer with the package name"
						}
					}
					c.check(ok, rule, fnName(f)+":default-name-flag-compares-the-allocated-name", L.pos(fl.Pos()),
						"an import named by the allocator is printed without alias only when the allocator answered the package's own name", why)
				}
			}
		}
	}
	c.floor(rule, "imports named by the allocator whose default-name flag is set", n, 3)
}

// c12Reserved: the reserved-word rules of C12.3 (both lists complete, both seeded into the pool) under another property's id.
// The templates call the builtins close and make by their plain names: a generated local that is allowed to be called `close`
// (a provided type Close) shadows the builtin, the "close" of a done-channel then calls the user's value and the waiters
// block for ever.
func c12Reserved(c *Ctx, rule string) {
	sub := &Ctx{Prop: c.Prop, Tier: c.Tier, L: c.L, FuncsSeen: c.FuncsSeen, Extra: c.Extra, RoleNames: c.RoleNames}
	runC12(sub)
	for _, o := range sub.Obls {
		if o.Rule == "C12.3" {
			o.Rule = rule
			c.Obls = append(c.Obls, o)
		}
	}
	for _, f := range sub.Finds {
		if f.Rule == "C12.3" {
			f.Rule = rule
			c.Finds = append(c.Finds, f)
		}
	}
}

// ruleProviderSpecCarriesItsExpression: every provider specification that parseProviderArgument adds to the declaration is built
// for the argument at hand: its ASTExpr (the expression the generated injector will call) is this call's argument expression.
// A specification taken from anywhere else (a cache keyed by the provider's type) makes two providers of one Go type share the
// expression of whichever came first: the second injector calls the first one's provider.
func ruleProviderSpecCarriesItsExpression(c *Ctx, rule string) {
	L := c.L
	fn := genFn(c, rule, "(*Parser).parseProviderArgument")
	if fn == nil {
		return
	}
	// the argument expression, as it is or as a function of the package returned it (the requalifying copy of
	// collectDependencies)
	var exprParam func(v ssa.Value, d int) bool
	exprParam = func(v ssa.Value, d int) bool {
		switch x := resolve(v).(type) {
		case *ssa.Parameter:
			return strings.HasSuffix(x.Type().String(), "go/ast.Expr")
		case *ssa.Extract:
			return d < 2 && exprParam(x.Tuple, d+1)
		case *ssa.Call:
			if h := x.Common().StaticCallee(); h == nil || h.Pkg != fn.Pkg || d >= 2 {
				return false
			}
			for _, a := range x.Common().Args {
				if strings.HasSuffix(a.Type().String(), "go/ast.Expr") && exprParam(a, d+1) {
					return true
				}
			}
		}
		return false
	}
	isExprParam := func(v ssa.Value) bool { return exprParam(v, 0) }
	var fromAlloc func(v ssa.Value, d int) (bool, bool) // (decided, ok)
	fromAlloc = func(v ssa.Value, d int) (bool, bool) {
		switch x := resolve(v).(type) {
		case *ssa.Alloc:
			if x.Referrers() == nil {
				return true, false
			}
			for _, r := range *x.Referrers() {
				fa, ok := r.(*ssa.FieldAddr)
				if !ok || fieldKey(fa) != "internal/kessoku.ProviderSpec.ASTExpr" || fa.Referrers() == nil {
					continue
				}
				for _, rr := range *fa.Referrers() {
					if st, isSt := rr.(*ssa.Store); isSt && st.Addr == ssa.Value(fa) && isExprParam(st.Val) {
						return true, true
					}
				}
			}
			return true, false
		case *ssa.Call:
			h := x.Common().StaticCallee()
			if h == nil || h.Pkg != fn.Pkg || len(h.Blocks) == 0 || d >= 2 {
				return false, false
			}
			all := true
			for _, r := range returnsOf(h) {
				dec, ok := fromAlloc(r.Results[0], d+1)
				if !dec {
					return false, false
				}
				all = all && ok
			}
			// the helper's expression parameter must be fed this function's expression parameter
			fed := false
			for _, a := range x.Common().Args {
				if isExprParam(a) {
					fed = true
				}
			}
			return true, all && fed
		}
		return false, false
	}
	n := 0
	for _, f := range family(L, fn) {
		for _, st := range storesToField([]*ssa.Function{f}, "internal/kessoku.BuildDirective.Providers") {
			call, ok := st.Val.(*ssa.Call)
			if !ok || calleeOf(call.Common()) != "builtin append" || len(call.Common().Args) != 2 {
				continue
			}
			elems, ok := variadicElems(resolve(call.Common().Args[1]))
			if !ok {
				continue
			}
			for _, e := range elems {
				dec, good := fromAlloc(e, 0)
				if !dec {
					c.ok(rule, fnName(f)+": a provider specification added to the declaration is not a literal built here; rule not applied", describe(resolve(e)))
					continue
				}
				n++
				c.check(good, rule, fnName(f)+":provider-spec-built-for-this-argument", L.pos(st.Pos()),
					"the provider specification added to the declaration is built for the argument at hand: its ASTExpr is this call's argument expression", "no store of the argument expression into ASTExpr of "+describe(resolve(e)))
			}
		}
	}
	if n == 0 {
		c.ok(rule, "parseProviderArgument: no literal provider specification appended; rule not applied", "shape not recognised")
	}
}

// c12All: the whole allocator discipline of C12 under another property's id (a generated local that captures a user identifier
// changes what a provider expression copied into the injector evaluates to).
func c12All(c *Ctx, rule string) {
	sub := &Ctx{Prop: c.Prop, Tier: c.Tier, L: c.L, FuncsSeen: c.FuncsSeen, Extra: c.Extra, RoleNames: c.RoleNames}
	runC12(sub)
	for _, o := range sub.Obls {
		o.Rule = rule
		c.Obls = append(c.Obls, o)
	}
	for _, f := range sub.Finds {
		f.Rule = rule
		c.Finds = append(c.Finds, f)
	}
}

// namesInEmissionOrder: the who-may-call rule of C11.14 under another property's id. Values are named when the code that
// mentions them is emitted, the injector's parameters first; a name asked for earlier (an argument of a log call is evaluated
// whether or not the level is enabled) lets a provided context.Context take `ctx`, the name the errgroup declaration assigns:
// the derived context is then written into a provided variable that other lanes read (C01), and `ctx0` is left unused (C04).
func namesInEmissionOrder(c *Ctx, rule string) {
	ruleWhoMayCallReach(c, rule, "(*InjectorParam).Name", "a value gets its name when the code that mentions it is emitted (first come, first served in emission order): nothing outside the emission - logging, validation - asks for names", "Generate", "(*InjectorProviderCallStmt).Stmt", "(*InjectorFieldAccessStmt).Stmt", "(*InjectorChainStmt).Stmt", "(*InjectorParam).ChannelName")
}

// ruleRuntimeFnIsIdentity: the run-time half of the library is transparent. Generated code calls providers as
// `kessoku.Async(kessoku.Provide(f)).Fn()(args)`; every Fn method of the annotation package hands back the function it was
// given (a field of its receiver, or what the wrapped annotation's Fn returns) and calls nothing else - no lock, no cache, no
// reflection. A wrapper installed there (memoising under a mutex) serialises the very providers the generated goroutines
// were meant to overlap, and no generated file changes by a byte.
func ruleRuntimeFnIsIdentity(c *Ctx, rule string) {
	L := c.L
	n := 0
	for _, fn := range pkgFuncs(L, modPath) {
		if fn.Name() != "Fn" || fn.Signature.Recv() == nil || len(fn.Blocks) == 0 {
			continue
		}
		n++
		bad := ""
		for _, f := range withClosures(fn) {
			for _, b := range f.Blocks {
				for _, in := range b.Instrs {
					switch x := in.(type) {
					case *ssa.Go, *ssa.Defer, *ssa.Send, *ssa.Select, *ssa.MapUpdate:
						bad = fmt.Sprintf("%T", x)
					case *ssa.Call:
						cc := x.Common()
						if cc.IsInvoke() {
							if cc.Method.Name() != "Fn" {
								bad = "call of " + cc.Method.FullName()
							}
						} else if h := cc.StaticCallee(); h == nil || h.Name() != "Fn" || h.Pkg != fn.Pkg {
							bad = "call of " + calleeOf(cc)
						}
					case *ssa.Store:
						if _, isAlloc := x.Addr.(*ssa.Alloc); !isAlloc {
							bad = "store to " + describe(x.Addr)
						}
					case *ssa.UnOp:
						if g, isG := x.X.(*ssa.Global); isG && x.Op == token.MUL {
							bad = "read of the package variable " + g.Name()
						}
					}
				}
			}
		}
		c.check(bad == "", rule, fnName(fn)+":runtime-Fn-hands-back-the-function", L.pos(fn.Pos()),
			"an annotation's Fn hands back the wrapped function and does nothing else (no lock, cache, reflection or shared state between provider calls)", bad)
	}
	c.floor(rule, "Fn methods of the annotation package", n, 3)
}
