package main

import (
	"bytes"
	"fmt"
	"go/scanner"
	"go/token"
	"os"
	"path/filepath"
	"sort"
	"strings"

	"golang.org/x/tools/go/ssa"
)

func init() {
	register(&propDef{
		id: "C11", withTestdata: true,
		run: runC11,
		explanation: "Determinism rules over the generator's source: (1) every range over a map in internal/kessoku and internal/pkg is classified by the effects of its body - order-insensitive (map updates, constant stores into the iterated value, writes to a slot indexed by the key) or an append whose slice is sorted by a total key before any other use; anything else (allocator calls, I/O, early exits carrying a value) is reported; (2) no call to a nondeterminism source (time, rand, pid, env, GOMAXPROCS) and no go/select statement in the generator; (3) exported struct fields are sorted by their unique name before use; " +
			"(4) the previous outputs of the package's source files take no part in name pre-registration (the verified skip predicate guards both walks); (5) the output file is opened truncating; (6) each example that has a golden twin equals it: inputs equal modulo comments, kessoku_band.go byte-equal to expected.go, so the golden test carries 'examples are what the generator produces'.",
		notDecided:  "behaviour on syntactically broken leftovers (go/packages error handling), determinism of go/packages itself, different Go toolchains; examples/cross_package has no golden twin and is reported as not covered.",
		assumptions: []string{"go/packages returns files and imports in a deterministic order", "TestGoldenGeneration ties expected.go to the current generator"},
	})
}

// mapRangeLoops finds every range over a map in fn with its natural loop body.
type mapLoop struct {
	rng    *ssa.Range
	header *ssa.BasicBlock
	body   map[*ssa.BasicBlock]bool
}

func mapRangeLoops(fn *ssa.Function) []mapLoop {
	var out []mapLoop
	for _, b := range fn.Blocks {
		for _, in := range b.Instrs {
			r, ok := in.(*ssa.Range)
			if !ok {
				continue
			}
			if _, isMap := r.X.Type().Underlying().(interface{ Key() interface{} }); isMap {
				_ = isMap
			}
			if !strings.HasPrefix(r.X.Type().Underlying().String(), "map[") {
				continue
			}
			// header: the block holding the Next of this range
			var hdr *ssa.BasicBlock
			for _, ref := range *r.Referrers() {
				if nx, ok := ref.(*ssa.Next); ok {
					hdr = nx.Block()
				}
			}
			if hdr == nil {
				continue
			}
			body := map[*ssa.BasicBlock]bool{}
			var work []*ssa.BasicBlock
			for _, p := range hdr.Preds {
				if hdr.Dominates(p) && p != hdr {
					work = append(work, p)
				}
			}
			for len(work) > 0 {
				x := work[len(work)-1]
				work = work[:len(work)-1]
				if body[x] || x == hdr {
					continue
				}
				body[x] = true
				work = append(work, x.Preds...)
			}
			out = append(out, mapLoop{r, hdr, body})
		}
	}
	return out
}

func runC11(c *Ctx) {
	L := c.L
	L.buildSSA()
	pkgs := []string{genPkg, modPath + "/internal/pkg/strings", modPath + "/internal/pkg/collection"}
	fns := pkgFuncs(L, pkgs...)

	// ---- C11.1 / C11.2 map-order lint
	nLoops := 0
	for _, fn := range fns {
		for _, ml := range mapRangeLoops(fn) {
			nLoops++
			c.seen(fnName(fn))
			c11ClassifyLoop(c, fn, ml)
		}
		// maps.Keys / maps.Values / maps.All hand out iteration order too
		for _, cs := range callsIn(fn) {
			if cs.callee == "maps.Keys" || cs.callee == "maps.Values" || cs.callee == "maps.All" {
				c.fail("C11.1", fnName(fn)+":"+cs.callee, L.pos(cs.instr.Pos()), "iteration order of a map escapes through "+cs.callee)
			}
		}
	}
	c.floor("C11.1", "ranges over maps in the generator", nLoops, 6)

	// ---- C11.3 nondeterminism sources
	nCalls := 0
	for _, fn := range fns {
		for _, b := range fn.Blocks {
			for _, in := range b.Instrs {
				switch x := in.(type) {
				case *ssa.Go:
					c.fail("C11.3", fnName(fn)+":go-statement", L.pos(x.Pos()), "the generator starts a goroutine (scheduling would influence its output)")
				case *ssa.Select:
					c.fail("C11.3", fnName(fn)+":select", L.pos(x.Pos()), "the generator uses select")
				}
			}
		}
		for _, cs := range callsIn(fn) {
			nCalls++
			if nondetSources[cs.callee] {
				c.fail("C11.3", fnName(fn)+":"+cs.callee, L.pos(cs.instr.Pos()), "the generator calls the nondeterminism source "+cs.callee)
			}
		}
	}
	c.ok("C11.3", fmt.Sprintf("no nondeterminism source, go statement or select among %d call sites of %d functions", nCalls, len(fns)), "frozen table of "+fmt.Sprint(len(nondetSources))+" callees")
	// positive control: the table matches a known call
	c.check(nondetSources["time.Now"] && nondetSources["os.Getenv"], "C11.3", "table:positive-control", "-", "the nondeterminism table is armed", "time.Now and os.Getenv are members")

	ruleLoadedPackageReadOnly(c, "C11.8")
	rulePackageLoadedPerFile(c, "C11.9")
	ruleNoCrossFilePositionOrder(c, "C11.11")
	ruleGenerateOncePerFile(c, "C11.12")
	rulePreviousOutputsOfEveryFile(c, "C11.13")
	ruleWhoMayCallReach(c, "C11.14", "(*InjectorParam).Name", "a value gets its name when the code that mentions it is emitted (first come, first served in emission order): nothing outside the emission - logging, validation - asks for names, or the output would depend on whether that code ran", "Generate", "(*InjectorProviderCallStmt).Stmt", "(*InjectorFieldAccessStmt).Stmt", "(*InjectorChainStmt).Stmt", "(*InjectorParam).ChannelName")
	ruleOutputOpenedLast(c, "C11.10")

	// ---- C11.4 deterministic field order
	if fn := genFn(c, "C11.4", "extractExportedFields"); fn != nil {
		ok := false
		for _, cs := range callsIn(fn) {
			if cs.callee == "sort.Slice" || strings.HasPrefix(cs.callee, "slices.SortFunc") || cs.callee == "sort.SliceStable" || strings.HasPrefix(cs.callee, "slices.SortStableFunc") {
				// comparator compares the Name field
				var cmpFn *ssa.Function
				switch x := resolve(cs.arg(1)).(type) {
				case *ssa.MakeClosure:
					cmpFn = x.Fn.(*ssa.Function)
				case *ssa.Function:
					cmpFn = x // a function literal that captures nothing
				}
				if cmpFn != nil {
					for _, b := range cmpFn.Blocks {
						for _, in := range b.Instrs {
							if fa, isF := in.(*ssa.FieldAddr); isF && fieldKey(fa) == "internal/kessoku.StructFieldSpec.Name" {
								ok = true
							}
						}
					}
				}
				// the sort dominates every success return
				for _, r := range returnsOf(fn) {
					if returnsNilError(r) && !instrDominates(cs.instr, r) {
						ok = false
					}
				}
			}
		}
		c.check(ok, "C11.4", "extractExportedFields:sorted", L.pos(fn.Pos()), "expanded struct fields are sorted by their (unique) name before they are returned", "sort call with a comparator on StructFieldSpec.Name dominates the return")
	}

	// ---- C11.5 previous outputs do not feed the generator
	if pf := genFn(c, "C11.5", "(*Parser).ParseFile"); pf != nil {
		nGuarded := 0
		for _, chain := range poolCallChains(c, pf, func(callee *ssa.Function) bool { return strings.HasSuffix(callee.String(), "VarPool).GetName") }) {
			cs := callSite{instr: chain[len(chain)-1]}
			guarded := false
			var ifs []*ssa.If
			for _, link := range chain {
				ifs = append(ifs, controllingIfs(link)...)
			}
			for _, iff := range ifs {
				conds := []ssa.Value{iff.Cond}
				if ph, ok := iff.Cond.(*ssa.Phi); ok {
					conds = ph.Edges
				}
				for _, cv := range conds {
					if call, ok := cv.(*ssa.Call); ok {
						if okP, _ := c12PreviousOutputPredicate(c, call); okP {
							guarded = true
						}
					}
				}
			}
			c.check(guarded, "C11.5", "ParseFile:registration-skips-previous-output", L.pos(cs.instr.Pos()),
				"names and imports of the generator's earlier outputs (x_band.go for a source file x.go of the package) are not pre-registered, so regenerating over them allocates the same names as a clean run", "registration call is guarded by the verified previous-output predicate")
			nGuarded++
		}
		c.floor("C11.5", "allocator registrations in ParseFile", nGuarded, 4)
	}

	// ---- C11.7 the output file is opened truncating
	ruleOutputOpenedTruncating(c, "C11.7")

	// ---- C11.6 examples equal their golden twins
	c11Twins(c)
}

// c11ClassifyLoop classifies one range-over-map loop.
func c11ClassifyLoop(c *Ctx, fn *ssa.Function, ml mapLoop) {
	L := c.L
	where := fnName(fn)
	pos := L.pos(ml.rng.Pos())
	var sensitive []string
	var appends []*ssa.Call
	blocks := []*ssa.BasicBlock{ml.header}
	for b := range ml.body {
		blocks = append(blocks, b)
	}
	sort.Slice(blocks, func(i, j int) bool { return blocks[i].Index < blocks[j].Index })
	for _, b := range blocks {
		for _, in := range b.Instrs {
			switch x := in.(type) {
			case *ssa.Call:
				callee := calleeOf(x.Common())
				switch {
				case callee == "builtin append":
					// slot indexed by the key: base is a load of an element address and the result is stored back there
					slot := false
					if u, ok := x.Common().Args[0].(*ssa.UnOp); ok {
						if ia, ok := u.X.(*ssa.IndexAddr); ok {
							for _, r := range *x.Referrers() {
								if st, ok := r.(*ssa.Store); ok {
									if ia2, ok := st.Addr.(*ssa.IndexAddr); ok && sameLoadedValue(ia2.X, ia.X) {
										slot = true
									}
								}
							}
						}
					}
					if !slot {
						appends = append(appends, x)
					}
				case strings.HasPrefix(callee, "builtin "), strings.HasPrefix(callee, "log/slog."), callee == "strconv.Quote":
				case callee == "internal/kessoku.importSpec" || strings.HasSuffix(callee, "internal/kessoku.importSpec"):
					// builds an ImportSpec from the element and marks it used: effect confined to the element
				default:
					sensitive = append(sensitive, "call "+callee)
				}
			case *ssa.Store:
				if _, isConst := x.Val.(*ssa.Const); isConst {
					continue
				}
				if _, isIdx := x.Addr.(*ssa.IndexAddr); isIdx {
					continue // slot store (handled with its append)
				}
				if _, isAlloc := x.Addr.(*ssa.Alloc); isAlloc {
					continue // local temporaries of the loop body
				}
				sensitive = append(sensitive, "store "+describe(x.Val)+" to "+x.Addr.String())
			case *ssa.Return:
				sensitive = append(sensitive, "return inside the loop")
			case *ssa.Send, *ssa.Go, *ssa.Defer:
				sensitive = append(sensitive, fmt.Sprintf("%T", x))
			}
		}
	}
	if len(sensitive) > 0 {
		c.fail("C11.1", where+":map-range:order-sensitive", pos, "the body of a range over a map has an order-sensitive effect: output depends on map iteration order", strings.Join(sensitive, "; "))
		return
	}
	if len(appends) == 0 {
		c.ok("C11.1", where+": range over "+ml.rng.X.Type().String()+" has only order-insensitive effects", "map updates / constant stores / key-indexed slots")
		return
	}
	// appended slice must be sorted after the loop before any other use
	for _, ap := range appends {
		sorted := false
		var keyOK bool
		for _, cs := range callsIn(fn) {
			if cs.callee != "slices.SortFunc" && cs.callee != "sort.Slice" && cs.callee != "slices.SortStableFunc" && cs.callee != "sort.SliceStable" && cs.callee != "sort.Strings" && cs.callee != "slices.Sort" {
				continue
			}
			if ml.body[cs.instr.Block()] || cs.instr.Block() == ml.header {
				continue
			}
			if !reachableAfter(ap, cs.instr) {
				continue
			}
			// the sorted value derives from the appended slice (phi of the loop)
			if derivesFrom(resolve(cs.arg(0)), ap, 0) {
				sorted = true
				// C11.2 total order: comparator compares a field that is unique per map key (the import path)
				if mc, ok := resolve(cs.arg(1)).(*ssa.MakeClosure); ok {
					s := ""
					for _, b := range mc.Fn.(*ssa.Function).Blocks {
						for _, in := range b.Instrs {
							if fa, ok := in.(*ssa.FieldAddr); ok {
								s += fieldKey(fa) + " "
							}
						}
					}
					keyOK = strings.Contains(s, "go/ast.ImportSpec.Path") && strings.Contains(s, "go/ast.BasicLit.Value")
				} else if fnv, ok := resolve(cs.arg(1)).(*ssa.Function); ok {
					for _, b := range fnv.Blocks {
						for _, in := range b.Instrs {
							if fa, ok := in.(*ssa.FieldAddr); ok && (fieldKey(fa) == "go/ast.ImportSpec.Path" || fieldKey(fa) == "go/ast.BasicLit.Value") {
								keyOK = true
							}
						}
					}
				}
			}
		}
		c.check(sorted, "C11.1", where+":map-range:append-sorted", pos, where+": the slice filled while ranging over a map is sorted before it is used", "sort call after the loop on the appended slice")
		if sorted {
			c.check(keyOK, "C11.2", where+":sort-key-total", pos, where+": the sort key is the quoted import path, which is unique per map key (total order, no ties)", "comparator reads ImportSpec.Path.Value")
		}
	}
}

// sameLoadedValue: a and b are the same value, or two loads of one local cell (a variable captured by a closure is spilled to a
// cell and reloaded at each use) in one block with no store to that cell between them.
func sameLoadedValue(a, b ssa.Value) bool {
	if a == b {
		return true
	}
	la, okA := a.(*ssa.UnOp)
	lb, okB := b.(*ssa.UnOp)
	if !okA || !okB || la.Op != token.MUL || lb.Op != token.MUL || la.Block() != lb.Block() {
		return false
	}
	al := allocOf(la.X)
	if al == nil || allocOf(lb.X) != al {
		return false
	}
	i, j := instrIndex(la), instrIndex(lb)
	if i > j {
		i, j = j, i
	}
	for _, in := range la.Block().Instrs[i:j] {
		switch x := in.(type) {
		case *ssa.Store:
			if allocOf(x.Addr) == al {
				return false
			}
		case *ssa.Call:
			if _, bi := x.Common().Value.(*ssa.Builtin); !bi {
				return false // a call may run the closure that captured the cell
			}
		}
	}
	return true
}

// derivesFrom: v is the append result or a phi/append chain containing it.
func derivesFrom(v ssa.Value, target *ssa.Call, depth int) bool {
	if depth > 8 {
		return false
	}
	if v == ssa.Value(target) {
		return true
	}
	switch x := v.(type) {
	case *ssa.Phi:
		for _, e := range x.Edges {
			if e != v && derivesFrom(e, target, depth+1) {
				return true
			}
		}
	case *ssa.Call:
		if bi, ok := x.Common().Value.(*ssa.Builtin); ok && bi.Name() == "append" {
			return derivesFrom(x.Common().Args[0], target, depth+1)
		}
	}
	return false
}

// c11Twins: examples/X vs internal/kessoku/testdata/X.
func c11Twins(c *Ctx) {
	L := c.L
	ents, err := os.ReadDir(filepath.Join(L.Repo, "examples"))
	if err != nil {
		c.undecided("C11.6", "examples", err.Error())
		return
	}
	// token stream without comments (layout and comments do not matter to the generator)
	stripped := func(path string) (string, error) {
		src, err := os.ReadFile(path)
		if err != nil {
			return "", err
		}
		fset := token.NewFileSet()
		file := fset.AddFile(path, fset.Base(), len(src))
		var sc scanner.Scanner
		nErr := 0
		sc.Init(file, src, func(token.Position, string) { nErr++ }, 0)
		var sb strings.Builder
		for {
			_, tok, lit := sc.Scan()
			if tok == token.EOF {
				break
			}
			if tok == token.SEMICOLON {
				lit = ";"
			}
			sb.WriteString(tok.String())
			sb.WriteByte(' ')
			sb.WriteString(lit)
			sb.WriteByte('\n')
		}
		if nErr > 0 {
			return "", fmt.Errorf("scan errors in %s", path)
		}
		return sb.String(), nil
	}
	nTwins := 0
	var uncovered []string
	for _, e := range ents {
		if !e.IsDir() {
			continue
		}
		ex := filepath.Join(L.Repo, "examples", e.Name())
		tw := filepath.Join(L.Repo, "internal/kessoku/testdata", e.Name())
		if _, err := os.Stat(filepath.Join(tw, "expected.go")); err != nil {
			uncovered = append(uncovered, e.Name())
			continue
		}
		nTwins++
		a, err1 := os.ReadFile(filepath.Join(ex, "kessoku_band.go"))
		b, err2 := os.ReadFile(filepath.Join(tw, "expected.go"))
		c.check(err1 == nil && err2 == nil && bytes.Equal(a, b), "C11.6", "examples/"+e.Name()+":band-equals-golden", "examples/"+e.Name()+"/kessoku_band.go",
			"examples/"+e.Name()+"/kessoku_band.go is byte-identical to the golden output the test suite pins to the generator", fmt.Sprintf("%d bytes", len(a)))
		gofiles, _ := filepath.Glob(filepath.Join(ex, "*.go"))
		for _, gf := range gofiles {
			base := filepath.Base(gf)
			if base == "kessoku_band.go" {
				continue
			}
			sa, e1 := stripped(gf)
			sb, e2 := stripped(filepath.Join(tw, base))
			c.check(e1 == nil && e2 == nil && sa == sb, "C11.6", "examples/"+e.Name()+"/"+base+":input-equals-twin", "examples/"+e.Name()+"/"+base,
				"example input "+e.Name()+"/"+base+" equals the golden test's input modulo comments", "token streams without comments compared (go/scanner)")
		}
		// no extra input in the twin
		twfiles, _ := filepath.Glob(filepath.Join(tw, "*.go"))
		c.check(len(twfiles) == len(gofiles), "C11.6", "examples/"+e.Name()+":same-file-set", "examples/"+e.Name(), "example and golden directory hold the same Go files", fmt.Sprintf("%d vs %d", len(gofiles), len(twfiles)))
	}
	c.floor("C11.6", "examples with a golden twin", nTwins, 7)
	c.Extra["examples_without_golden_twin"] = uncovered
	// premise: the generator never reads comments
	nDoc := 0
	for _, fn := range pkgFuncs(L, genPkg) {
		for _, b := range fn.Blocks {
			for _, in := range b.Instrs {
				if fa, ok := in.(*ssa.FieldAddr); ok {
					k := fieldKey(fa)
					if strings.HasSuffix(k, ".Doc") || strings.HasSuffix(k, ".Comment") || k == "go/ast.File.Comments" {
						nDoc++
						c.fail("C11.6", fnName(fn)+":reads-comments", L.pos(fa.Pos()), "the generator reads comments, so inputs that differ only in comments are not interchangeable: "+k)
					}
				}
			}
		}
	}
	if nDoc == 0 {
		c.ok("C11.6", "the generator never reads Doc/Comment fields (inputs equal modulo comments are interchangeable)", "no FieldAddr of a comment field in internal/kessoku")
	}
}

// ruleOutputOpenedTruncating: wherever the generator opens its output file, an existing (longer) file is truncated: os.Create,
// os.WriteFile, or os.OpenFile with O_TRUNC among constant flags. Without it the tail of a previous, longer output survives a
// regeneration: the run exits 0 and the file does not compile (C04), and the result depends on what was there before (C11).
func ruleOutputOpenedTruncating(c *Ctx, rule string) {
	L := c.L
	nOpen := 0
	for _, fn := range pkgFuncs(L, genPkg) {
		for _, cs := range callsIn(fn) {
			switch cs.callee {
			case "os.Create", "os.WriteFile":
				nOpen++
				c.ok(rule, fnName(fn)+": the output is written through "+cs.callee+" (truncates an existing file)", "callee")
			case "os.OpenFile":
				nOpen++
				flag, ok := constInt(cs.arg(1))
				c.check(ok && flag&int64(os.O_TRUNC) != 0, rule, fnName(fn)+":os.OpenFile-flags", L.pos(cs.instr.Pos()), "an existing (longer) output file is truncated before the new content is written", fmt.Sprintf("flags %#x", flag))
			}
		}
	}
	c.floor(rule, "sites that open the output file", nOpen, 1)
}
