package main

import (
	"fmt"
	"go/constant"
	"go/token"
	"go/types"
	"regexp"
	"sort"
	"strings"

	"golang.org/x/tools/go/ssa"
)

// ---- callee resolution (never by source text) ----

// calleeOf returns the fully qualified name of a statically resolved callee, e.g. "os.Rename",
// "(*os.File).Sync", or "" when the call is dynamic. Interface invokes give "invoke <iface>.<method>".
func calleeOf(cc *ssa.CallCommon) string {
	if f := cc.StaticCallee(); f != nil {
		if f.Origin() != nil {
			f = f.Origin()
		}
		return f.String()
	}
	if cc.IsInvoke() {
		return "invoke " + cc.Method.FullName()
	}
	if b, ok := cc.Value.(*ssa.Builtin); ok {
		return "builtin " + b.Name()
	}
	return ""
}

type callSite struct {
	instr  ssa.CallInstruction
	common *ssa.CallCommon
	callee string
	fn     *ssa.Function
}

func (cs callSite) value() *ssa.Call {
	if c, ok := cs.instr.(*ssa.Call); ok {
		return c
	}
	return nil
}

// allArgs returns receiver+args for invoke-mode and static method calls alike.
func (cs callSite) arg(i int) ssa.Value {
	if i < len(cs.common.Args) {
		return cs.common.Args[i]
	}
	return nil
}

// callsIn lists every call/defer/go instruction of fn (not of nested closures).
func callsIn(fn *ssa.Function) []callSite {
	var out []callSite
	for _, b := range fn.Blocks {
		for _, in := range b.Instrs {
			if ci, ok := in.(ssa.CallInstruction); ok {
				out = append(out, callSite{instr: ci, common: ci.Common(), callee: calleeOf(ci.Common()), fn: fn})
			}
		}
	}
	return out
}

// withClosures returns fn and all functions nested in it.
func withClosures(fn *ssa.Function) []*ssa.Function {
	out := []*ssa.Function{fn}
	for _, a := range fn.AnonFuncs {
		out = append(out, withClosures(a)...)
	}
	return out
}

func findCalls(fn *ssa.Function, callee string) []callSite {
	var out []callSite
	for _, cs := range callsIn(fn) {
		if cs.callee == callee {
			out = append(out, cs)
		}
	}
	return out
}

// ---- positions inside a function ----

func instrIndex(in ssa.Instruction) int {
	for i, x := range in.Block().Instrs {
		if x == in {
			return i
		}
	}
	return -1
}

// instrDominates: a is executed before b on every path reaching b.
func instrDominates(a, b ssa.Instruction) bool {
	if a.Block() == b.Block() {
		return instrIndex(a) < instrIndex(b)
	}
	return a.Block().Dominates(b.Block())
}

// reachable reports whether block `to` is reachable from block `from` (from itself counts only through an edge).
func reachable(from, to *ssa.BasicBlock) bool {
	seen := map[*ssa.BasicBlock]bool{}
	var walk func(b *ssa.BasicBlock) bool
	walk = func(b *ssa.BasicBlock) bool {
		if b == to {
			return true
		}
		if seen[b] {
			return false
		}
		seen[b] = true
		for _, s := range b.Succs {
			if walk(s) {
				return true
			}
		}
		return false
	}
	return walk(from)
}

// reachableInstr: can control reach instruction b after executing a?
func reachableAfter(a, b ssa.Instruction) bool {
	if a.Block() == b.Block() && instrIndex(a) < instrIndex(b) {
		return true
	}
	for _, s := range a.Block().Succs {
		if reachable(s, b.Block()) {
			return true
		}
	}
	return false
}

func returnsOf(fn *ssa.Function) []*ssa.Return {
	var out []*ssa.Return
	for _, b := range fn.Blocks {
		if b == fn.Recover {
			continue
		}
		for _, in := range b.Instrs {
			if r, ok := in.(*ssa.Return); ok {
				out = append(out, r)
			}
		}
	}
	return out
}

// ---- values ----

func isNilConst(v ssa.Value) bool {
	c, ok := v.(*ssa.Const)
	return ok && c.Value == nil
}

func constString(v ssa.Value) (string, bool) {
	c, ok := v.(*ssa.Const)
	if !ok || c.Value == nil || c.Value.Kind() != constant.String {
		return "", false
	}
	return constant.StringVal(c.Value), true
}

func constInt(v ssa.Value) (int64, bool) {
	c, ok := v.(*ssa.Const)
	if !ok || c.Value == nil || c.Value.Kind() != constant.Int {
		return 0, false
	}
	i, ok := constant.Int64Val(c.Value)
	return i, ok
}

// storesTo lists the values stored directly into addr (an Alloc, possibly captured by closures of fn).
func storesTo(a *ssa.Alloc) []*ssa.Store {
	var out []*ssa.Store
	var visit func(v ssa.Value)
	seen := map[ssa.Value]bool{}
	visit = func(v ssa.Value) {
		if seen[v] {
			return
		}
		seen[v] = true
		refs := v.Referrers()
		if refs == nil {
			return
		}
		for _, r := range *refs {
			switch r := r.(type) {
			case *ssa.Store:
				if r.Addr == v {
					out = append(out, r)
				}
			case *ssa.MakeClosure:
				for i, b := range r.Bindings {
					if b == v {
						visit(r.Fn.(*ssa.Function).FreeVars[i])
					}
				}
			}
		}
	}
	visit(a)
	return out
}

// resolve strips loads of single-store locals, interface conversions and type changes so that two uses of
// "the same thing" compare equal as SSA values.
func resolve(v ssa.Value) ssa.Value {
	for i := 0; i < 32; i++ {
		switch x := v.(type) {
		case *ssa.UnOp:
			if x.Op == token.MUL {
				switch a := x.X.(type) {
				case *ssa.Alloc:
					st := storesTo(a)
					if len(st) == 1 {
						v = st[0].Val
						continue
					}
					if rs, ok := loadStores(x); ok && len(rs) == 1 {
						v = rs[0].Val
						continue
					}
				case *ssa.FieldAddr:
					// a field of a local struct that bundles values (staged := stagedFile{file: tmp, name: tmp.Name()}):
					// written once in the whole package, in this function, before the read
					if al, ok := a.X.(*ssa.Alloc); ok {
						if st := singleFieldStore(al, a.Field); st != nil {
							v = st.Val
							continue
						}
					}
				case *ssa.FreeVar:
					if b := freeVarBinding(a); b != nil {
						if al, ok := b.(*ssa.Alloc); ok {
							st := storesTo(al)
							if len(st) == 1 {
								v = st[0].Val
								continue
							}
							if rs, ok := loadStores(x); ok && len(rs) == 1 {
								v = rs[0].Val
								continue
							}
						}
					}
				}
			}
			return v
		case *ssa.MakeInterface:
			v = x.X
		case *ssa.ChangeInterface:
			v = x.X
		case *ssa.ChangeType:
			v = x.X
		default:
			return v
		}
	}
	return v
}

// freeVarBinding finds the value bound to a free variable at the (single) MakeClosure of its function.
func freeVarBinding(fv *ssa.FreeVar) ssa.Value {
	fn := fv.Parent()
	idx := -1
	for i, f := range fn.FreeVars {
		if f == fv {
			idx = i
		}
	}
	p := fn.Parent()
	if p == nil || idx < 0 {
		return nil
	}
	var found ssa.Value
	n := 0
	for _, b := range p.Blocks {
		for _, in := range b.Instrs {
			if mc, ok := in.(*ssa.MakeClosure); ok && mc.Fn == fn {
				found = mc.Bindings[idx]
				n++
			}
		}
	}
	if n != 1 {
		return nil
	}
	return found
}

// allocOf returns the local variable an address value denotes, following free variables to the enclosing function.
func allocOf(v ssa.Value) *ssa.Alloc {
	switch x := v.(type) {
	case *ssa.Alloc:
		return x
	case *ssa.FreeVar:
		if b := freeVarBinding(x); b != nil {
			return allocOf(b)
		}
	}
	return nil
}

// errorResult returns the SSA value carrying the error result of a call (nil if it has none).
func errorResult(c *ssa.Call) ssa.Value {
	sig := c.Common().Signature()
	res := sig.Results()
	if res.Len() == 0 {
		return nil
	}
	last := res.At(res.Len() - 1).Type()
	if !isErrorType(last) {
		return nil
	}
	if res.Len() == 1 {
		return c
	}
	if c.Referrers() == nil {
		return nil
	}
	for _, r := range *c.Referrers() {
		if e, ok := r.(*ssa.Extract); ok && e.Index == res.Len()-1 {
			return e
		}
	}
	return nil
}

func isErrorType(t types.Type) bool {
	return types.Identical(t, types.Universe.Lookup("error").Type())
}

// nilTest describes a branch on `v != nil` / `v == nil`.
type nilTest struct {
	ifInstr *ssa.If
	onNil   *ssa.BasicBlock // successor taken when v == nil
	onErr   *ssa.BasicBlock // successor taken when v != nil
}

// nilTestsOf finds the branches that test value v against nil. Values stored to a local variable and
// re-loaded (err declared outside the if) are followed.
func nilTestsOf(v ssa.Value) []nilTest {
	var out []nilTest
	seen := map[ssa.Value]bool{}
	var visit func(x ssa.Value)
	visit = func(x ssa.Value) {
		if seen[x] || x.Referrers() == nil {
			return
		}
		seen[x] = true
		for _, r := range *x.Referrers() {
			switch r := r.(type) {
			case *ssa.BinOp:
				if (r.Op == token.NEQ || r.Op == token.EQL) && (isNilConst(r.X) || isNilConst(r.Y)) {
					for _, rr := range *r.Referrers() {
						if iff, ok := rr.(*ssa.If); ok {
							t, f := iff.Block().Succs[0], iff.Block().Succs[1]
							if r.Op == token.NEQ {
								out = append(out, nilTest{iff, f, t})
							} else {
								out = append(out, nilTest{iff, t, f})
							}
						}
					}
				}
			case *ssa.Store:
				if r.Val == x {
					if a := allocOf(r.Addr); a != nil {
						// loads of that variable
						for _, l := range loadsOf(a) {
							visit(l)
						}
					}
				}
			case *ssa.Phi, *ssa.MakeInterface, *ssa.ChangeInterface:
				visit(r.(ssa.Value))
			}
		}
	}
	visit(v)
	return out
}

func loadsOf(a *ssa.Alloc) []ssa.Value {
	var out []ssa.Value
	seen := map[ssa.Value]bool{}
	var visit func(v ssa.Value)
	visit = func(v ssa.Value) {
		if seen[v] || v.Referrers() == nil {
			return
		}
		seen[v] = true
		for _, r := range *v.Referrers() {
			switch r := r.(type) {
			case *ssa.UnOp:
				if r.Op == token.MUL && r.X == v {
					out = append(out, r)
				}
			case *ssa.MakeClosure:
				for i, b := range r.Bindings {
					if b == v {
						visit(r.Fn.(*ssa.Function).FreeVars[i])
					}
				}
			}
		}
	}
	visit(a)
	return out
}

// checkedBefore decides: call A happens before instruction B on every path to B, A's error result is
// tested, and B is reachable only on the branch where that error is nil.
func checkedBefore(a *ssa.Call, b ssa.Instruction) (bool, string) {
	if !instrDominates(a, b) {
		return false, fmt.Sprintf("%s does not dominate the target (block %d vs block %d)", calleeOf(a.Common()), a.Block().Index, b.Block().Index)
	}
	ev := errorResult(a)
	if ev == nil {
		return false, "call has no error result that is kept"
	}
	tests := nilTestsOf(ev)
	if len(tests) == 0 {
		return false, "error result is never compared with nil"
	}
	for _, t := range tests {
		if !instrDominates(a, t.ifInstr) {
			continue
		}
		okNil := t.onNil == b.Block() || t.onNil.Dominates(b.Block())
		if okNil && !reachable(t.onErr, b.Block()) {
			return true, fmt.Sprintf("block %d dominates block %d; error edge %d->%d cannot reach it, nil edge %d->%d dominates it",
				a.Block().Index, b.Block().Index, t.ifInstr.Block().Index, t.onErr.Index, t.ifInstr.Block().Index, t.onNil.Index)
		}
	}
	return false, "no nil-test of the error separates the failing branch from the target"
}

// errorEdgeReturnsIt: on the branch where call a's error is non-nil, control reaches a Return (without
// passing through `avoid`) and every such return yields a non-nil value derived from... (we only require a return
// whose operand is not the nil constant).
func errorBranchReturnsNonNil(a *ssa.Call) (bool, string) {
	ev := errorResult(a)
	if ev == nil {
		return false, "no error result kept"
	}
	tests := nilTestsOf(ev)
	for _, t := range tests {
		// every path from onErr must hit a Return with non-nil error operand before leaving (onErr blocks are tiny)
		ok, why := allPathsReturnNonNil(t.onErr, map[*ssa.BasicBlock]bool{})
		if ok {
			return true, fmt.Sprintf("error edge %d->%d returns a non-nil error", t.ifInstr.Block().Index, t.onErr.Index)
		}
		return false, why
	}
	return false, "error never tested"
}

func allPathsReturnNonNil(b *ssa.BasicBlock, seen map[*ssa.BasicBlock]bool) (bool, string) {
	if seen[b] {
		return false, "loop on error path"
	}
	seen[b] = true
	for _, in := range b.Instrs {
		if call, ok := in.(*ssa.Call); ok && calleeOf(call.Common()) == "os.Exit" {
			if code, isConst := constInt(call.Common().Args[0]); isConst && code != 0 {
				return true, ""
			}
		}
		if r, ok := in.(*ssa.Return); ok {
			res := r.Results
			// closures (range-over-func bodies, callbacks) hand the error to the enclosing function through a captured variable
			if len(res) == 0 || !isErrorType(res[len(res)-1].Type()) {
				for _, in2 := range b.Instrs {
					if s, ok := in2.(*ssa.Store); ok && isErrorType(s.Val.Type()) && !isNilConst(s.Val) {
						if al := allocOf(s.Addr); al != nil && al.Parent() != b.Parent() {
							return true, ""
						}
					}
				}
			}
			if len(res) == 0 {
				return false, "error path returns nothing"
			}
			last := res[len(res)-1]
			if !isErrorType(last.Type()) {
				return false, fmt.Sprintf("error path in block %d returns without an error value", b.Index)
			}
			if isNilConst(last) {
				return false, fmt.Sprintf("error path returns nil error in block %d", b.Index)
			}
			if knownNilAt(last, b) {
				return false, fmt.Sprintf("error path in block %d returns %s, which is known to be nil there (it was tested earlier)", b.Index, describe(last))
			}
			// named result: `*t0 = X; rundefers; t = *t0; return t`
			if u, ok := last.(*ssa.UnOp); ok && u.Op == token.MUL {
				if al := allocOf(u.X); al != nil {
					// the last store to it in this block must be non-nil
					var lastStore *ssa.Store
					for _, in2 := range b.Instrs {
						if s, ok := in2.(*ssa.Store); ok && allocOf(s.Addr) == al {
							lastStore = s
						}
					}
					if lastStore == nil {
						return false, fmt.Sprintf("error path in block %d returns the named result without assigning it", b.Index)
					}
					if isNilConst(lastStore.Val) {
						return false, fmt.Sprintf("error path in block %d stores nil into the named result", b.Index)
					}
				}
			}
			return true, ""
		}
	}
	if len(b.Succs) == 0 {
		return false, "error path ends without return"
	}
	for _, s := range b.Succs {
		if ok, why := allPathsReturnNonNil(s, seen); !ok {
			return false, why
		}
	}
	return true, ""
}

func fnName(fn *ssa.Function) string {
	s := fn.String()
	s = strings.ReplaceAll(s, modPath+"/", "")
	return s
}

func sortedKeys[V any](m map[string]V) []string {
	ks := make([]string, 0, len(m))
	for k := range m {
		ks = append(ks, k)
	}
	sort.Strings(ks)
	return ks
}

func fieldKey(fa *ssa.FieldAddr) string {
	pt := fa.X.Type().Underlying().(*types.Pointer).Elem()
	st := pt.Underlying().(*types.Struct)
	name := "?"
	if n, ok := pt.(*types.Named); ok && n.Obj().Pkg() != nil {
		name = n.Obj().Pkg().Path() + "." + n.Obj().Name()
	}
	return strings.TrimPrefix(name, modPath+"/") + "." + st.Field(fa.Field).Name()
}

// constReturn: every return of fn yields the same string constant.
func constReturn(fn *ssa.Function) (string, bool) {
	val, have := "", false
	for _, r := range returnsOf(fn) {
		if len(r.Results) != 1 {
			return "", false
		}
		s, ok := constString(r.Results[0])
		if !ok {
			return "", false
		}
		if have && s != val {
			return "", false
		}
		val, have = s, true
	}
	return val, have
}

// parseKongTag splits `cmd,name='x',help='a, b'` into its items.
func parseKongTag(tag string) map[string]string {
	out := map[string]string{}
	var cur strings.Builder
	inq := false
	flush := func() {
		item := strings.TrimSpace(cur.String())
		cur.Reset()
		if item == "" {
			return
		}
		kv := strings.SplitN(item, "=", 2)
		v := ""
		if len(kv) == 2 {
			v = strings.Trim(kv[1], "'")
		}
		out[kv[0]] = v
	}
	for _, r := range tag {
		switch {
		case r == '\'':
			inq = !inq
			cur.WriteRune(r)
		case r == ',' && !inq:
			flush()
		default:
			cur.WriteRune(r)
		}
	}
	flush()
	return out
}

// returnsNilError: the return's error result may be nil (constant nil, or a named result whose last store in the
// returning block is nil / which has no store in that block).
func returnsNilError(r *ssa.Return) bool {
	if len(r.Results) == 0 {
		return true
	}
	last := r.Results[len(r.Results)-1]
	if !isErrorType(last.Type()) {
		return true
	}
	if isNilConst(last) {
		return true
	}
	if u, ok := last.(*ssa.UnOp); ok && u.Op == token.MUL {
		// a package-level sentinel (var errFoo = errors.New("...")): set once, at initialisation, to a non-nil error
		if g, isG := u.X.(*ssa.Global); isG && sentinelError(g) {
			return false
		}
		if al := allocOf(u.X); al != nil {
			var lastStore *ssa.Store
			for _, in := range r.Block().Instrs {
				if s, ok := in.(*ssa.Store); ok && allocOf(s.Addr) == al {
					lastStore = s
				}
			}
			if lastStore == nil {
				// range-over-func exit: the value was stored by the yield closure before it asked for the return
				if strings.HasPrefix(r.Block().Comment, "rangefunc.resume") {
					all, n := true, 0
					for _, st := range storesTo(al) {
						if st.Parent() != r.Parent() {
							n++
							if isNilConst(st.Val) {
								all = false
							}
						}
					}
					if n > 0 && all {
						return false
					}
				}
				return true // unknown: be conservative
			}
			return isNilConst(lastStore.Val)
		}
	}
	// a value that was tested non-nil on the way here is an error return
	for _, t := range nilTestsOf(last) {
		if t.onErr == r.Block() || t.onErr.Dominates(r.Block()) {
			return false
		}
	}
	if _, isCall := last.(*ssa.Call); isCall {
		return false // `return fmt.Errorf(...)` style
	}
	return true
}

// knownNilAt: value v was compared with nil and block b lies on the branch where it is nil.
func knownNilAt(v ssa.Value, b *ssa.BasicBlock) bool {
	for _, t := range nilTestsOf(v) {
		if (t.onNil == b || t.onNil.Dominates(b)) && !(t.onErr == b || t.onErr.Dominates(b)) && len(t.onNil.Preds) == 1 {
			return true
		}
	}
	return false
}

// okTest: one branch on the `ok` result of a comma-ok map lookup (directly or negated).
type okTest struct {
	iff             *ssa.If
	found, notFound *ssa.BasicBlock
}

func okTestsOf(lk *ssa.Lookup) []okTest {
	var out []okTest
	if !lk.CommaOk || lk.Referrers() == nil {
		return nil
	}
	for _, r := range *lk.Referrers() {
		ex, ok := r.(*ssa.Extract)
		if !ok || ex.Index != 1 || ex.Referrers() == nil {
			continue
		}
		var uses []ssa.Instruction
		uses = append(uses, *ex.Referrers()...)
		// the ok result spilled into a variable cell (captured or address-taken `ok`): the loads of that cell that follow the
		// store in the same block, before any other store to it or any call, still carry this lookup's result
		for _, rr := range *ex.Referrers() {
			st, isSt := rr.(*ssa.Store)
			if !isSt || st.Val != ssa.Value(ex) {
				continue
			}
			after := false
			for _, in := range st.Block().Instrs {
				if in == ssa.Instruction(st) {
					after = true
					continue
				}
				if !after {
					continue
				}
				if s2, ok := in.(*ssa.Store); ok && s2.Addr == st.Addr {
					break
				}
				if _, ok := in.(ssa.CallInstruction); ok {
					break
				}
				if ld, ok := in.(*ssa.UnOp); ok && ld.Op == token.MUL && ld.X == st.Addr && ld.Referrers() != nil {
					uses = append(uses, *ld.Referrers()...)
				}
			}
		}
		for _, rr := range uses {
			switch x := rr.(type) {
			case *ssa.If:
				out = append(out, okTest{x, x.Block().Succs[0], x.Block().Succs[1]})
			case *ssa.UnOp:
				if x.Op == token.NOT && x.Referrers() != nil {
					for _, r3 := range *x.Referrers() {
						if iff, ok := r3.(*ssa.If); ok {
							out = append(out, okTest{iff, iff.Block().Succs[1], iff.Block().Succs[0]})
						}
					}
				}
			}
		}
	}
	return out
}

// throughCell: a load of a variable cell that directly follows (same block, no call and no other store to the cell in
// between) a store of v into that cell is v. Other values are returned unchanged. This is the flow-sensitive counterpart of
// resolve() for cells with several stores (a captured or reused `ok`).
func throughCell(v ssa.Value) ssa.Value {
	ld, ok := v.(*ssa.UnOp)
	if !ok || ld.Op != token.MUL {
		return v
	}
	var last ssa.Value
	for _, in := range ld.Block().Instrs {
		if in == ssa.Instruction(ld) {
			break
		}
		switch x := in.(type) {
		case *ssa.Store:
			if x.Addr == ld.X {
				last = x.Val
			}
		case ssa.CallInstruction:
			last = nil
		}
	}
	if last != nil {
		return last
	}
	return v
}

// errorResultIndex: index of the trailing error result of fn, or -1.
func errorResultIndex(fn *ssa.Function) int {
	res := fn.Signature.Results()
	if res.Len() == 0 || !isErrorType(res.At(res.Len()-1).Type()) {
		return -1
	}
	return res.Len() - 1
}

// family: fn, its closures, and the module-local functions it calls statically (transitively, up to depth 3) that are called
// from nowhere else - i.e. pieces of fn that a refactoring has moved into private helpers. Rules that look for "something
// inside fn" look inside its family.
func family(L *Loaded, fn *ssa.Function) []*ssa.Function {
	if fn == nil {
		return nil
	}
	pkg := fn.Pkg
	if pkg == nil && fn.Parent() != nil {
		pkg = fn.Parent().Pkg
	}
	var pkgFns []*ssa.Function
	for f := range L.NonTest {
		p := f.Pkg
		if p == nil && f.Parent() != nil {
			p = f.Parent().Pkg
		}
		if p == pkg {
			pkgFns = append(pkgFns, f)
		}
	}
	callers := map[*ssa.Function]map[*ssa.Function]bool{}
	for _, f := range pkgFns {
		for _, cs := range callsIn(f) {
			if cal := cs.common.StaticCallee(); cal != nil {
				cal = originOf(cal)
				if callers[cal] == nil {
					callers[cal] = map[*ssa.Function]bool{}
				}
				root := f
				for root.Parent() != nil {
					root = root.Parent()
				}
				callers[cal][root] = true
			}
		}
		// functions used as values (method values, function arguments) have unknown callers
		for _, b := range f.Blocks {
			for _, in := range b.Instrs {
				for _, op := range in.Operands(nil) {
					if op == nil || *op == nil {
						continue
					}
					if g, ok := (*op).(*ssa.Function); ok {
						if ci, isCall := in.(ssa.CallInstruction); isCall && ci.Common().Value == ssa.Value(g) {
							continue
						}
						if callers[g] == nil {
							callers[g] = map[*ssa.Function]bool{}
						}
						callers[g][nil] = true
					}
				}
			}
		}
	}
	in := map[*ssa.Function]bool{fn: true}
	out := []*ssa.Function{}
	frontier := []*ssa.Function{fn}
	for d := 0; d < 4 && len(frontier) > 0; d++ {
		var next []*ssa.Function
		for _, f := range frontier {
			for _, w := range withClosures(f) {
				out = append(out, w)
				if d == 3 {
					continue
				}
				for _, cs := range callsIn(w) {
					cal := cs.common.StaticCallee()
					if cal == nil {
						continue
					}
					cal = originOf(cal)
					if in[cal] || cal.Pkg != pkg || len(cal.Blocks) == 0 || !L.NonTest[cal] {
						continue
					}
					only := true
					for caller := range callers[cal] {
						if caller == nil || !in[caller] {
							only = false
						}
					}
					if only {
						in[cal] = true
						next = append(next, cal)
					}
				}
			}
		}
		frontier = next
	}
	return out
}

// storesInto: the stores into fields / elements of a local allocation.
func storesInto(al *ssa.Alloc) []*ssa.Store {
	var out []*ssa.Store
	if al.Referrers() == nil {
		return nil
	}
	for _, r := range *al.Referrers() {
		switch x := r.(type) {
		case *ssa.FieldAddr:
			for _, r2 := range *x.Referrers() {
				if st, ok := r2.(*ssa.Store); ok && st.Addr == ssa.Value(x) {
					out = append(out, st)
				}
			}
		case *ssa.IndexAddr:
			for _, r2 := range *x.Referrers() {
				if st, ok := r2.(*ssa.Store); ok && st.Addr == ssa.Value(x) {
					out = append(out, st)
				}
			}
		}
	}
	return out
}

// nodeTreeContains: starting from root (a node, a slice literal of nodes, ...), following what is stored into the slots and
// elements of locally built values, some local allocation satisfies pred.
func nodeTreeContains(fn *ssa.Function, root ssa.Value, pred func(*ssa.Alloc) bool) bool {
	seen := map[ssa.Value]bool{}
	var walk func(v ssa.Value, d int) bool
	walk = func(v ssa.Value, d int) bool {
		if v == nil || seen[v] || d > 12 {
			return false
		}
		seen[v] = true
		switch x := v.(type) {
		case *ssa.Alloc:
			if pred(x) {
				return true
			}
			for _, st := range storesInto(x) {
				if walk(st.Val, d+1) {
					return true
				}
			}
			// a variable cell: what was stored into it
			for _, st := range storesTo(x) {
				if walk(st.Val, d+1) {
					return true
				}
			}
		case *ssa.Slice:
			return walk(x.X, d+1)
		case *ssa.MakeInterface:
			return walk(x.X, d+1)
		case *ssa.ChangeType:
			return walk(x.X, d+1)
		case *ssa.UnOp:
			return walk(x.X, d+1)
		case *ssa.Phi:
			for _, e := range x.Edges {
				if walk(e, d+1) {
					return true
				}
			}
		case *ssa.Call:
			if bi, ok := x.Common().Value.(*ssa.Builtin); ok && bi.Name() == "append" {
				for _, a := range x.Common().Args {
					if walk(a, d+1) {
						return true
					}
				}
			}
		}
		return false
	}
	return walk(root, 0)
}

// liftParams rewrites `param:<p>` sub-terms of terms computed inside fn into the terms of the actual arguments at fn's
// static call sites (one level): the view a caller has of a value that a refactoring moved into a helper.
func liftParams(L *Loaded, scope []*ssa.Function, fn *ssa.Function, terms []string) []string {
	root := fn
	for root.Parent() != nil {
		root = root.Parent()
	}
	need := false
	for _, t := range terms {
		for _, p := range root.Params {
			if strings.Contains(t, "param:"+p.Name()) {
				need = true
			}
		}
	}
	if !need {
		return terms
	}
	var sites []callSite
	for _, g := range scope {
		for _, cs := range callsIn(g) {
			if cal := cs.common.StaticCallee(); cal != nil && originOf(cal) == root {
				sites = append(sites, cs)
			}
		}
	}
	if len(sites) == 0 {
		return terms
	}
	out := []string{}
	for _, cs := range sites {
		s := newSym(L, map[string]bool{})
		s.maxD = 0
		for _, t := range terms {
			cur := []string{t}
			for i, p := range root.Params {
				if i >= len(cs.common.Args) {
					continue
				}
				re := regexp.MustCompile(`param:` + regexp.QuoteMeta(p.Name()) + `\b`)
				var next []string
				for _, c0 := range cur {
					if !re.MatchString(c0) {
						next = append(next, c0)
						continue
					}
					for _, v := range s.eval(cs.common.Args[i]) {
						next = append(next, re.ReplaceAllLiteralString(c0, v))
					}
				}
				cur = next
			}
			out = append(out, cur...)
		}
	}
	return uniq(out)
}

// sentinelError: a package-level error variable that is stored exactly once, in the package initialiser, with the result of
// a call (errors.New, fmt.Errorf): never nil at run time.
func sentinelError(g *ssa.Global) bool {
	if g.Pkg == nil || g.Referrers() != nil {
		// (globals have no referrer lists in go/ssa: scan the package)
	}
	n, ok := 0, false
	for _, m := range g.Pkg.Members {
		fn, isFn := m.(*ssa.Function)
		if !isFn {
			continue
		}
		for _, f := range withClosures(fn) {
			for _, b := range f.Blocks {
				for _, in := range b.Instrs {
					if st, isSt := in.(*ssa.Store); isSt && st.Addr == ssa.Value(g) {
						n++
						if _, isCall := st.Val.(*ssa.Call); isCall && fn.Name() == "init" {
							ok = true
						}
						if mi, isMI := st.Val.(*ssa.MakeInterface); isMI && fn.Name() == "init" {
							if _, isCall := mi.X.(*ssa.Call); isCall {
								ok = true
							}
						}
					}
				}
			}
		}
	}
	return n == 1 && ok
}

var fieldStoreCount = map[string]int{}
var fieldStoreCounted = map[*ssa.Package]bool{}

// singleFieldStore: the one store into field #f of the local struct al, provided no other store into that field (of that
// struct type) exists anywhere in the package - then a read of the field anywhere sees that value.
func singleFieldStore(al *ssa.Alloc, f int) *ssa.Store {
	fn := al.Parent()
	if fn == nil || fn.Pkg == nil {
		return nil
	}
	if !fieldStoreCounted[fn.Pkg] {
		fieldStoreCounted[fn.Pkg] = true
		var scan func(g *ssa.Function)
		scan = func(g *ssa.Function) {
			for _, b := range g.Blocks {
				for _, in := range b.Instrs {
					if st, ok := in.(*ssa.Store); ok {
						if fa, ok := st.Addr.(*ssa.FieldAddr); ok {
							fieldStoreCount[fn.Pkg.Pkg.Path()+"|"+fieldKey(fa)]++
						}
					}
				}
			}
			for _, a := range g.AnonFuncs {
				scan(a)
			}
		}
		for _, m := range fn.Pkg.Members {
			switch x := m.(type) {
			case *ssa.Function:
				scan(x)
			case *ssa.Type:
				if nt, ok := x.Type().(*types.Named); ok {
					for i := 0; i < nt.NumMethods(); i++ {
						if mf := fn.Prog.FuncValue(nt.Method(i)); mf != nil {
							scan(mf)
						}
					}
				}
			}
		}
	}
	var found *ssa.Store
	if al.Referrers() == nil {
		return nil
	}
	// `x := T{...}` with an addressable x: the literal is built in a temporary and copied into x as a whole
	if whole := storesTo(al); len(whole) == 1 {
		if ld, ok := whole[0].Val.(*ssa.UnOp); ok && ld.Op == token.MUL {
			if tmp, ok := ld.X.(*ssa.Alloc); ok && tmp != al && tmp.Comment == "complit" {
				// no field of x itself is written afterwards in this package (counted below through the literal's stores)
				direct := 0
				for _, r := range *al.Referrers() {
					if fa, ok := r.(*ssa.FieldAddr); ok && fa.Field == f && fa.Referrers() != nil {
						for _, rr := range *fa.Referrers() {
							if st, ok := rr.(*ssa.Store); ok && st.Addr == ssa.Value(fa) {
								direct++
							}
						}
					}
				}
				if direct == 0 {
					return singleFieldStore(tmp, f)
				}
			}
		}
	}
	for _, r := range *al.Referrers() {
		fa, ok := r.(*ssa.FieldAddr)
		if !ok || fa.Field != f || fa.Referrers() == nil {
			continue
		}
		for _, rr := range *fa.Referrers() {
			if st, ok := rr.(*ssa.Store); ok && st.Addr == ssa.Value(fa) {
				if found != nil {
					return nil
				}
				found = st
				if fieldStoreCount[fn.Pkg.Pkg.Path()+"|"+fieldKey(fa)] != 1 {
					return nil
				}
			}
		}
	}
	return found
}

// threaded: a list value that crosses the boundary of a private helper. Result j of a call to a helper of the same package
// stands for what the helper returns at position j (on each of its returns); a helper's parameter stands for the argument
// at each of its call sites, provided the helper is unexported and every use of it is a static call in its own package.
func threaded(L *Loaded, v ssa.Value) ([]ssa.Value, bool) {
	helperOf := func(call *ssa.Call) *ssa.Function {
		h := call.Common().StaticCallee()
		if h == nil || len(h.Blocks) == 0 || h.Pkg == nil || call.Parent() == nil {
			return nil
		}
		root := call.Parent()
		for root.Parent() != nil {
			root = root.Parent()
		}
		if root.Pkg != h.Pkg || !L.NonTest[originOf(h)] {
			return nil
		}
		return h
	}
	switch x := v.(type) {
	case *ssa.Extract:
		call, ok := x.Tuple.(*ssa.Call)
		if !ok {
			return nil, false
		}
		h := helperOf(call)
		if h == nil {
			return nil, false
		}
		var out []ssa.Value
		for _, r := range returnsOf(h) {
			if x.Index >= len(r.Results) {
				return nil, false
			}
			out = append(out, r.Results[x.Index])
		}
		return out, len(out) > 0
	case *ssa.Call:
		if _, isB := x.Common().Value.(*ssa.Builtin); isB {
			return nil, false
		}
		h := helperOf(x)
		if h == nil || h.Signature.Results().Len() != 1 {
			return nil, false
		}
		var out []ssa.Value
		for _, r := range returnsOf(h) {
			out = append(out, r.Results[0])
		}
		return out, len(out) > 0
	case *ssa.Parameter:
		h := x.Parent()
		if h == nil || h.Parent() != nil || h.Pkg == nil || token.IsExported(h.Name()) {
			return nil, false
		}
		idx := -1
		for i, p := range h.Params {
			if p == x {
				idx = i
			}
		}
		if idx < 0 {
			return nil, false
		}
		var out []ssa.Value
		for _, f := range pkgFuncs(L, h.Pkg.Pkg.Path()) {
			for _, w := range withClosures(f) {
				for _, b := range w.Blocks {
					for _, in := range b.Instrs {
						if ci, isCall := in.(ssa.CallInstruction); isCall && ci.Common().StaticCallee() == h {
							if idx >= len(ci.Common().Args) {
								return nil, false
							}
							out = append(out, ci.Common().Args[idx])
						}
						for _, op := range in.Operands(nil) {
							if op == nil || *op == nil || *op != ssa.Value(h) {
								continue
							}
							if ci, isCall := in.(ssa.CallInstruction); isCall && ci.Common().Value == ssa.Value(h) {
								continue
							}
							return nil, false // used as a value: unknown callers
						}
					}
				}
			}
		}
		return out, len(out) > 0
	}
	return nil, false
}

// loadStores: the stores a load of a local can see, more precisely than "every store to it".
//   - a load in the function that owns the local, when no closure writes the local: the stores that reach the load
//     (latest store in the block, else the union over the predecessors);
//   - a load in a closure that is not deferred: the parent's stores except return spills (`*r = v; t = *r; return t`, the
//     way go/ssa returns through an address-taken named result) and self-assignments (`*r = *r`) - those happen after
//     every call the closure can run in.
//
// ok is false when the cheaper reading "all stores" is all that can be said.
func loadStores(ld *ssa.UnOp) ([]*ssa.Store, bool) {
	if ld.Op != token.MUL {
		return nil, false
	}
	switch a := ld.X.(type) {
	case *ssa.Alloc:
		all := storesTo(a)
		for _, st := range all {
			if st.Parent() != a.Parent() {
				return nil, false // written by a closure: may change at any call
			}
		}
		if ld.Parent() != a.Parent() {
			return nil, false
		}
		var out []*ssa.Store
		seen := map[*ssa.BasicBlock]bool{}
		var back func(b *ssa.BasicBlock, from int)
		back = func(b *ssa.BasicBlock, from int) {
			for i := from; i >= 0; i-- {
				if st, ok := b.Instrs[i].(*ssa.Store); ok && st.Addr == ssa.Value(a) {
					out = append(out, st)
					return
				}
			}
			for _, p := range b.Preds {
				if !seen[p] {
					seen[p] = true
					back(p, len(p.Instrs)-1)
				}
			}
		}
		back(ld.Block(), instrIndex(ld)-1)
		if len(out) == 0 {
			return nil, false
		}
		return out, true
	case *ssa.FreeVar:
		cl := a.Parent()
		b := freeVarBinding(a)
		al, isAl := b.(*ssa.Alloc)
		if !isAl || cl.Parent() == nil {
			return nil, false
		}
		// the closure must not be deferred or started as a goroutine (it then runs after / beside the rest of the parent)
		for _, blk := range cl.Parent().Blocks {
			for _, in := range blk.Instrs {
				switch x := in.(type) {
				case *ssa.Defer:
					if mc, ok := x.Call.Value.(*ssa.MakeClosure); ok && mc.Fn == ssa.Value(cl) {
						return nil, false
					}
				case *ssa.Go:
					if mc, ok := x.Call.Value.(*ssa.MakeClosure); ok && mc.Fn == ssa.Value(cl) {
						return nil, false
					}
				}
			}
		}
		var out []*ssa.Store
		for _, st := range storesTo(al) {
			if st.Parent() != al.Parent() {
				return nil, false
			}
			if u, ok := st.Val.(*ssa.UnOp); ok && u.Op == token.MUL && u.X == ssa.Value(al) {
				continue // self-assignment
			}
			i := instrIndex(st)
			blk := st.Block()
			if i+2 < len(blk.Instrs) {
				if l2, ok := blk.Instrs[i+1].(*ssa.UnOp); ok && l2.Op == token.MUL && l2.X == ssa.Value(al) {
					if _, isRet := blk.Instrs[len(blk.Instrs)-1].(*ssa.Return); isRet {
						onlySpills := true
						for _, in := range blk.Instrs[i+1 : len(blk.Instrs)-1] {
							switch y := in.(type) {
							case *ssa.UnOp:
								if y.Op != token.MUL {
									onlySpills = false
								}
							case *ssa.Store:
							default:
								onlySpills = false
							}
						}
						if onlySpills {
							continue // return spill
						}
					}
				}
			}
			out = append(out, st)
		}
		if len(out) == 0 {
			return nil, false
		}
		return out, true
	}
	return nil, false
}
