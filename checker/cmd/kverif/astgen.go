package main

import (
	"go/ast"
	"go/constant"
	"go/token"
	"go/types"
	"strings"

	"golang.org/x/tools/go/packages"
)

// S3 (syntax-level): emission templates of the generator. The generator builds its output as nested composite
// literals of go/ast node types plus ast.NewIdent calls. A "site" is one such literal; its slots are the keyed
// fields. Nesting of literals in the generator's source is nesting of nodes in the output.

type tmplSite struct {
	lit    *ast.CompositeLit
	kind   string // go/ast type name: AssignStmt, IfStmt, ...
	fields map[string]ast.Expr
	parent *tmplSite
	slot   string // field of the parent this literal sits in (possibly via a slice literal)
	fn     *ast.FuncDecl
	fnLit  *ast.FuncLit // innermost function literal enclosing the site, if any
	pkg    *packages.Package
	inst   bool // read as the instantiation of a builder helper at one of its call sites
}

func (s *tmplSite) fnName() string {
	if s.fn == nil {
		return "?"
	}
	n := s.fn.Name.Name
	if s.fn.Recv != nil && len(s.fn.Recv.List) == 1 {
		n = recvTypeName(s.fn.Recv.List[0].Type) + "." + n
	}
	return n
}

// astTypeName: the go/ast struct type a composite literal builds ("" if not a go/ast node).
func astTypeName(p *packages.Package, e ast.Expr) string {
	t := p.TypesInfo.TypeOf(e)
	if t == nil {
		return ""
	}
	if pt, ok := t.(*types.Pointer); ok {
		t = pt.Elem()
	}
	n, ok := t.(*types.Named)
	if !ok || n.Obj().Pkg() == nil || n.Obj().Pkg().Path() != "go/ast" {
		return ""
	}
	if _, ok := n.Underlying().(*types.Struct); !ok {
		return ""
	}
	return n.Obj().Name()
}

// collectTemplates walks the non-test files of a package and returns every go/ast composite literal.
func collectTemplates(p *packages.Package) []*tmplSite {
	var sites []*tmplSite
	byLit := map[*ast.CompositeLit][]*tmplSite{}
	// pure builders: functions whose body is `return <expr>` - a template written once and instantiated per call. Their
	// literal is read at every call site with the parameters replaced by the arguments.
	builders := map[types.Object]*ast.FuncDecl{}
	for _, f := range p.Syntax {
		for _, d := range f.Decls {
			fd, ok := d.(*ast.FuncDecl)
			if !ok || fd.Body == nil || len(fd.Body.List) != 1 || fd.Recv != nil {
				continue
			}
			rs, ok := fd.Body.List[0].(*ast.ReturnStmt)
			if !ok || len(rs.Results) != 1 {
				continue
			}
			if t := p.TypesInfo.TypeOf(rs.Results[0]); t == nil || !strings.Contains(t.String(), "go/ast.") {
				continue
			}
			if obj := p.TypesInfo.Defs[fd.Name]; obj != nil {
				builders[obj] = fd
			}
		}
	}
	type env map[types.Object][]ast.Expr       // parameter -> argument expression(s) (several for a variadic parameter)
	envFd := map[*ast.FuncDecl]*ast.FuncDecl{} // builder being instantiated -> the function its arguments were written in
	var subst func(e ast.Expr, ev env) ast.Expr
	subst = func(e ast.Expr, ev env) ast.Expr {
		if len(ev) == 0 || e == nil {
			return e
		}
		switch x := e.(type) {
		case *ast.Ident:
			if a, ok := ev[p.TypesInfo.Uses[x]]; ok && len(a) == 1 {
				return a[0]
			}
		case *ast.ParenExpr:
			return subst(x.X, ev)
		case *ast.CallExpr:
			changed := false
			args := make([]ast.Expr, len(x.Args))
			for i, a := range x.Args {
				args[i] = subst(a, ev)
				if args[i] != a {
					changed = true
				}
			}
			if changed {
				return &ast.CallExpr{Fun: x.Fun, Lparen: x.Lparen, Args: args, Ellipsis: x.Ellipsis, Rparen: x.Rparen}
			}
		case *ast.UnaryExpr:
			if y := subst(x.X, ev); y != x.X {
				return &ast.UnaryExpr{OpPos: x.OpPos, Op: x.Op, X: y}
			}
		}
		return e
	}
	for _, f := range p.Syntax {
		for _, d := range f.Decls {
			fd, ok := d.(*ast.FuncDecl)
			if !ok || fd.Body == nil {
				continue
			}
			if obj := p.TypesInfo.Defs[fd.Name]; obj != nil && builders[obj] != nil {
				// a builder's own literal is read where the builder is called; if nobody calls it with a template in
				// hand, it is still read once on its own below (no environment)
				_ = obj
			}
			var walk func(n ast.Node, parent *tmplSite, slot string, fl *ast.FuncLit, ev env, depth int)
			walk = func(n ast.Node, parent *tmplSite, slot string, fl *ast.FuncLit, ev env, depth int) {
				switch x := n.(type) {
				case nil:
					return
				case *ast.FuncLit:
					// statements built inside a closure: the closure's result is spliced in by its caller, so the syntactic parent is lost
					ast.Inspect(x.Body, func(m ast.Node) bool {
						if m == ast.Node(x.Body) {
							return true
						}
						switch y := m.(type) {
						case *ast.CompositeLit, *ast.UnaryExpr, *ast.FuncLit:
							walk(y, nil, "", x, ev, depth)
							return false
						}
						return true
					})
					return
				case *ast.UnaryExpr:
					if x.Op == token.AND {
						walk(x.X, parent, slot, fl, ev, depth)
						return
					}
				case *ast.Ident:
					// a builder's parameter standing for the argument(s) of this call
					if parent != nil {
						if a, ok := ev[p.TypesInfo.Uses[x]]; ok {
							saved := fd
							if cf := envFd[fd]; cf != nil {
								fd = cf // the arguments are expressions of the calling function
							}
							for _, e := range a {
								walk(e, parent, slot, fl, nil, depth)
							}
							fd = saved
							return
						}
						// a node built into a local first (`lit := &ast.FuncLit{...}`) and then put into its slot: the
						// site created at the definition gets this parent
						if def := singleAssignment(p, fd, x); def != nil {
							if u, isU := ast.Unparen(def).(*ast.UnaryExpr); isU && u.Op == token.AND {
								def = u.X
							}
							if cl, isCL := ast.Unparen(def).(*ast.CompositeLit); isCL {
								for _, s0 := range byLit[cl] {
									if s0.parent == nil && s0.fn == fd {
										s0.parent, s0.slot = parent, slot
									}
								}
							}
						}
					}
					return
				case *ast.CallExpr:
					if depth < 3 {
						if id := calleeIdent(x); id != nil {
							if b := builders[p.TypesInfo.Uses[id]]; b != nil && b != fd && (parent != nil || len(x.Args) > 0) {
								ev2 := env{}
								k := 0
								if b.Type.Params != nil {
									for _, fl2 := range b.Type.Params.List {
										_, variadic := fl2.Type.(*ast.Ellipsis)
										for _, nm := range fl2.Names {
											obj := p.TypesInfo.Defs[nm]
											switch {
											case variadic:
												var rest []ast.Expr
												for ; k < len(x.Args); k++ {
													rest = append(rest, subst(x.Args[k], ev))
												}
												ev2[obj] = rest
											case k < len(x.Args):
												ev2[obj] = []ast.Expr{subst(x.Args[k], ev)}
												k++
											}
										}
									}
								}
								res := b.Body.List[0].(*ast.ReturnStmt).Results[0]
								// the builder's literal, instantiated here: its sites belong to the builder's declaration
								// (for naming) but sit in this parent's slot
								saved := fd
								envFd[b] = fd
								fd = b
								walk(res, parent, slot, nil, ev2, depth+1)
								fd = saved
								return
							}
						}
					}
				case *ast.CompositeLit:
					kind := astTypeName(p, x)
					if kind == "" {
						// slice / array literal of nodes: elements sit in the same slot of the same parent
						for _, e := range x.Elts {
							if kv, ok := e.(*ast.KeyValueExpr); ok {
								walk(kv.Value, parent, slot, fl, ev, depth)
							} else {
								walk(e, parent, slot, fl, ev, depth)
							}
						}
						return
					}
					s := &tmplSite{lit: x, kind: kind, fields: map[string]ast.Expr{}, parent: parent, slot: slot, fn: fd, fnLit: fl, pkg: p, inst: depth > 0}
					sites = append(sites, s)
					byLit[x] = append(byLit[x], s)
					for _, e := range x.Elts {
						if kv, ok := e.(*ast.KeyValueExpr); ok {
							if id, ok := kv.Key.(*ast.Ident); ok {
								s.fields[id.Name] = subst(kv.Value, ev)
								walk(kv.Value, s, id.Name, fl, ev, depth)
							}
						}
					}
					return
				}
				// generic descent keeping the current parent (e.g. through call arguments we do not track)
				ast.Inspect(n, func(m ast.Node) bool {
					if m == n {
						return true
					}
					switch y := m.(type) {
					case *ast.CompositeLit, *ast.FuncLit:
						walk(y, nil, "", fl, ev, depth)
						return false
					case *ast.UnaryExpr:
						if y.Op == token.AND {
							walk(y, nil, "", fl, ev, depth)
							return false
						}
					case *ast.CallExpr:
						// a builder called outside a template slot (its result handed to a function): instantiated all the same
						if id := calleeIdent(y); id != nil && len(y.Args) > 0 && depth < 3 {
							if b := builders[p.TypesInfo.Uses[id]]; b != nil && b != fd {
								walk(y, nil, "", fl, ev, depth)
								return false
							}
						}
					}
					return true
				})
			}
			walk(fd.Body, nil, "", nil, nil, 0)
		}
	}
	// a builder that was instantiated at its call sites is not also a template of its own (its parameters are not names)
	instantiated := map[*ast.CompositeLit]bool{}
	for _, s := range sites {
		if s.parent != nil || s.inst {
			instantiated[s.lit] = true
		}
	}
	var out []*tmplSite
	for _, s := range sites {
		if s.parent == nil && !s.inst && instantiated[s.lit] && builders[p.TypesInfo.Defs[s.fn.Name]] != nil {
			// the uninstantiated reading of a builder's top literal: dropped together with what hangs below it
			continue
		}
		out = append(out, s)
	}
	// drop descendants of dropped roots
	keep := map[*tmplSite]bool{}
	for _, s := range out {
		keep[s] = true
	}
	var final []*tmplSite
	for _, s := range out {
		ok := true
		for a := s.parent; a != nil; a = a.parent {
			if !keep[a] {
				ok = false
			}
		}
		if ok {
			final = append(final, s)
		}
	}
	return final
}

func calleeIdent(call *ast.CallExpr) *ast.Ident {
	switch f := ast.Unparen(call.Fun).(type) {
	case *ast.Ident:
		return f
	case *ast.SelectorExpr:
		return f.Sel
	}
	return nil
}

// identConst: e is ast.NewIdent("lit") or &ast.Ident{Name: "lit"} (directly or through a local variable that is
// assigned exactly once from such an expression); returns the constant name.
func identConst(p *packages.Package, fn *ast.FuncDecl, e ast.Expr) (string, bool) {
	e = ast.Unparen(e)
	switch x := e.(type) {
	case *ast.CallExpr:
		if isNewIdent(p, x) && len(x.Args) == 1 {
			if tv, ok := p.TypesInfo.Types[x.Args[0]]; ok && tv.Value != nil && tv.Value.Kind() == constant.String {
				return constant.StringVal(tv.Value), true
			}
		}
	case *ast.UnaryExpr:
		if x.Op == token.AND {
			return identConst(p, fn, x.X)
		}
	case *ast.CompositeLit:
		if astTypeName(p, x) == "Ident" {
			for _, el := range x.Elts {
				if kv, ok := el.(*ast.KeyValueExpr); ok {
					if k, ok := kv.Key.(*ast.Ident); ok && k.Name == "Name" {
						if tv, ok := p.TypesInfo.Types[kv.Value]; ok && tv.Value != nil && tv.Value.Kind() == constant.String {
							return constant.StringVal(tv.Value), true
						}
					}
				}
			}
		}
	case *ast.Ident:
		if def := singleAssignment(p, fn, x); def != nil {
			return identConst(p, fn, def)
		}
	}
	return "", false
}

func isNewIdent(p *packages.Package, call *ast.CallExpr) bool {
	sel, ok := call.Fun.(*ast.SelectorExpr)
	if !ok {
		return false
	}
	obj := p.TypesInfo.Uses[sel.Sel]
	return obj != nil && obj.Pkg() != nil && obj.Pkg().Path() == "go/ast" && obj.Name() == "NewIdent"
}

// identArg: the argument expression of ast.NewIdent(...) (following one local variable).
func identArg(p *packages.Package, fn *ast.FuncDecl, e ast.Expr) ast.Expr {
	e = ast.Unparen(e)
	switch x := e.(type) {
	case *ast.CallExpr:
		if isNewIdent(p, x) && len(x.Args) == 1 {
			return x.Args[0]
		}
	case *ast.Ident:
		if def := singleAssignment(p, fn, x); def != nil {
			return identArg(p, fn, def)
		}
	}
	return nil
}

// singleAssignment: the local variable id is defined exactly once in fn (`x := expr` / `var x = expr`) and never
// reassigned; returns that expression.
func singleAssignment(p *packages.Package, fn *ast.FuncDecl, id *ast.Ident) ast.Expr {
	obj := p.TypesInfo.Uses[id]
	if obj == nil {
		obj = p.TypesInfo.Defs[id]
	}
	v, ok := obj.(*types.Var)
	if !ok || v.IsField() || fn == nil || fn.Body == nil {
		return nil
	}
	var def ast.Expr
	n := 0
	ast.Inspect(fn.Body, func(m ast.Node) bool {
		switch a := m.(type) {
		case *ast.AssignStmt:
			for i, l := range a.Lhs {
				li, ok := l.(*ast.Ident)
				if !ok {
					continue
				}
				o := p.TypesInfo.Defs[li]
				if o == nil {
					o = p.TypesInfo.Uses[li]
				}
				if o == obj {
					n++
					if len(a.Rhs) == len(a.Lhs) {
						def = a.Rhs[i]
					} else {
						def = nil
					}
				}
			}
		case *ast.ValueSpec:
			for i, nm := range a.Names {
				if p.TypesInfo.Defs[nm] == obj {
					n++
					if i < len(a.Values) {
						def = a.Values[i]
					}
				}
			}
		}
		return true
	})
	if n == 1 {
		return def
	}
	return nil
}

// constToken: the constant value of a token-typed expression (token.DEFINE) or, for a local variable assigned from
// several constants, the set of them.
func tokenSet(p *packages.Package, fn *ast.FuncDecl, e ast.Expr) map[string]bool {
	out := map[string]bool{}
	if e == nil {
		return out
	}
	if tv, ok := p.TypesInfo.Types[e]; ok && tv.Value != nil {
		if i, ok := constant.Int64Val(tv.Value); ok {
			out[token.Token(i).String()] = true
			return out
		}
	}
	if id, ok := ast.Unparen(e).(*ast.Ident); ok {
		obj := p.TypesInfo.Uses[id]
		ast.Inspect(fn.Body, func(m ast.Node) bool {
			if a, ok := m.(*ast.AssignStmt); ok {
				for i, l := range a.Lhs {
					li, ok := l.(*ast.Ident)
					if !ok || i >= len(a.Rhs) {
						continue
					}
					o := p.TypesInfo.Defs[li]
					if o == nil {
						o = p.TypesInfo.Uses[li]
					}
					if o == obj {
						for k := range tokenSet(p, fn, a.Rhs[i]) {
							out[k] = true
						}
					}
				}
			}
			return true
		})
	}
	return out
}

// nestedIn: the site is syntactically inside a literal of one of the given kinds (through any slots).
func (s *tmplSite) nestedIn(kinds ...string) *tmplSite {
	for p := s.parent; p != nil; p = p.parent {
		for _, k := range kinds {
			if p.kind == k {
				return p
			}
		}
	}
	return nil
}

func exprString(e ast.Expr) string {
	if e == nil {
		return "<nil>"
	}
	return types.ExprString(e)
}

// calleeName of a call expression resolved through go/types ("pkgpath.Func" or "(recv).Method").
func astCallee(p *packages.Package, call *ast.CallExpr) string {
	var id *ast.Ident
	switch f := ast.Unparen(call.Fun).(type) {
	case *ast.Ident:
		id = f
	case *ast.SelectorExpr:
		id = f.Sel
	case *ast.IndexExpr:
		if s, ok := f.X.(*ast.SelectorExpr); ok {
			id = s.Sel
		} else if i, ok := f.X.(*ast.Ident); ok {
			id = i
		}
	}
	if id == nil {
		return ""
	}
	obj := p.TypesInfo.Uses[id]
	if obj == nil {
		return ""
	}
	if fn, ok := obj.(*types.Func); ok {
		return strings.TrimPrefix(fn.FullName(), modPath+"/")
	}
	if _, ok := obj.(*types.Builtin); ok {
		return "builtin " + obj.Name()
	}
	return "var " + obj.Name()
}
