package main

import (
	"fmt"
	"go/constant"
	"go/token"
	"go/types"
	"sort"
	"strings"

	"golang.org/x/tools/go/ssa"
)

// Finite evaluation of a loop-free SSA region (S6/C01.4): the value reaching a target instruction is a function
// of a handful of "atoms" (loads, lookups, parameters, call results). Every atom ranges over a tiny domain
// (bool: {false,true}; int: {-1,0,1}); the region is interpreted for every assignment. This is an exhaustive
// enumeration of an abstract domain over the function's CFG - no code of /repo is executed.

type tval struct {
	isBool bool
	b      bool
	i      int64
}

func (v tval) String() string {
	if v.isBool {
		return fmt.Sprint(v.b)
	}
	return fmt.Sprint(v.i)
}

type tableRow struct {
	atoms     map[string]tval
	result    tval
	reached   bool
	stuck     bool // the interpretation spun in an inner loop (its "continue" assignment); the exit assignment covers progress
	errExit   bool // the region was left through a failing return before the target
	stored    bool // a tracked field was written on the way
	storedVal tval
}

type tableInterp struct {
	L       *Loaded
	sym     *symCtx
	env     map[string]tval
	atoms   map[string]bool // discovered atom ids -> isBool
	phi     map[*ssa.Phi]tval
	failed  string
	errExit bool
	strs    map[string]int64
	vals    map[string]ssa.Value
	// track: field key whose stores are recorded while interpreting (last value wins)
	track     string
	stored    bool
	storedVal tval
}

func (it *tableInterp) atomID(v ssa.Value) string {
	ts := it.sym.eval(v)
	return strings.Join(ts, "|")
}

func (it *tableInterp) val(v ssa.Value) tval {
	switch x := v.(type) {
	case *ssa.Const:
		if x.Value == nil {
			return tval{}
		}
		if x.Value.Kind() == constant.Bool {
			return tval{isBool: true, b: constant.BoolVal(x.Value)}
		}
		if x.Value.Kind() == constant.Int {
			i, _ := constant.Int64Val(x.Value)
			return tval{i: i}
		}
		if x.Value.Kind() == constant.String {
			// distinct string constants are distinct values outside every atom's domain
			if it.strs == nil {
				it.strs = map[string]int64{}
			}
			k := x.Value.ExactString()
			if _, ok := it.strs[k]; !ok {
				it.strs[k] = -1000 - int64(len(it.strs))
			}
			return tval{i: it.strs[k]}
		}
	case *ssa.Phi:
		if pv, ok := it.phi[x]; ok {
			return pv
		}
	case *ssa.MakeClosure, *ssa.Function:
		return tval{i: 1} // a non-nil function value
	case *ssa.UnOp:
		if x.Op == token.NOT {
			o := it.val(x.X)
			return tval{isBool: true, b: !o.b}
		}
	case *ssa.BinOp:
		if x.Op == token.EQL || x.Op == token.NEQ {
			_, cx := constString(x.X)
			_, cy := constString(x.Y)
			if (cx || cy) && !(cx && cy) {
				// comparison of a computed string with a constant: an atom of its own
				id := it.atomID(x)
				it.atoms[id] = true
				if it.vals != nil {
					if _, ok := it.vals[id]; !ok {
						it.vals[id] = x
					}
				}
				if e, ok := it.env[id]; ok {
					return e
				}
				return tval{isBool: true}
			}
		}
		a, b := it.val(x.X), it.val(x.Y)
		eq := a.i == b.i
		if a.isBool {
			eq = a.b == b.b
		}
		switch x.Op {
		case token.EQL:
			return tval{isBool: true, b: eq}
		case token.NEQ:
			return tval{isBool: true, b: !eq}
		case token.LSS:
			return tval{isBool: true, b: a.i < b.i}
		case token.GTR:
			return tval{isBool: true, b: a.i > b.i}
		case token.LEQ:
			return tval{isBool: true, b: a.i <= b.i}
		case token.GEQ:
			return tval{isBool: true, b: a.i >= b.i}
		case token.AND:
			if a.isBool {
				return tval{isBool: true, b: a.b && b.b}
			}
		case token.OR:
			if a.isBool {
				return tval{isBool: true, b: a.b || b.b}
			}
		}
	}
	// atom
	id := it.atomID(v)
	isBool := types.Identical(v.Type().Underlying(), types.Typ[types.Bool])
	it.atoms[id] = isBool
	if it.vals != nil {
		if _, ok := it.vals[id]; !ok {
			it.vals[id] = v
		}
	}
	if e, ok := it.env[id]; ok {
		return e
	}
	return tval{isBool: isBool}
}

// run interprets from block `start` until `target` is about to execute; returns the value of `want` there.
func (it *tableInterp) run(start *ssa.BasicBlock, target ssa.Instruction, want ssa.Value) (tval, bool) {
	it.phi = map[*ssa.Phi]tval{}
	var prev *ssa.BasicBlock
	b := start
	for steps := 0; steps < 200; steps++ {
		// phis first
		for _, in := range b.Instrs {
			ph, ok := in.(*ssa.Phi)
			if !ok {
				break
			}
			if prev == nil {
				// entering the region: treat incoming phis as atoms
				it.phi[ph] = it.val2atom(ph)
				continue
			}
			for i, p := range b.Preds {
				if p == prev {
					it.phi[ph] = it.val(ph.Edges[i])
				}
			}
		}
		for _, in := range b.Instrs {
			if in == target {
				if want == nil {
					return tval{}, true
				}
				return it.val(want), true
			}
			if it.track != "" {
				if st, ok := in.(*ssa.Store); ok {
					if fa, ok := st.Addr.(*ssa.FieldAddr); ok && fieldKey(fa) == it.track {
						it.stored = true
						it.storedVal = it.val(st.Val)
					}
				}
			}
		}
		if len(b.Instrs) == 0 {
			return tval{}, false
		}
		switch last := b.Instrs[len(b.Instrs)-1].(type) {
		case *ssa.If:
			c := it.val(last.Cond)
			prev = b
			if c.b {
				b = b.Succs[0]
			} else {
				b = b.Succs[1]
			}
		case *ssa.Jump:
			prev = b
			b = b.Succs[0]
		case *ssa.Return:
			if !returnsNilError(last) && len(last.Results) > 0 && isErrorType(last.Results[len(last.Results)-1].Type()) {
				it.errExit = true
			}
			return tval{}, false
		default:
			return tval{}, false // panic before the target: target not reached under this assignment
		}
		if b == start {
			return tval{}, false
		}
	}
	it.failed = "region did not reach the target within 200 steps"
	return tval{}, false
}

func (it *tableInterp) val2atom(v ssa.Value) tval {
	id := "phi-in:" + v.Name()
	isBool := types.Identical(v.Type().Underlying(), types.Typ[types.Bool])
	it.atoms[id] = isBool
	if e, ok := it.env[id]; ok {
		return e
	}
	return tval{isBool: isBool}
}

// truthTable enumerates all assignments of the atoms that influence `want` at `target`, starting at `start`.
// atomValues of the last truthTable call: atom id -> an SSA value it stands for (rules use it to recognise atoms by
// their instruction kind and type rather than by their printed form).
var lastAtomValues = map[string]ssa.Value{}

func truthTable(L *Loaded, start *ssa.BasicBlock, target ssa.Instruction, want ssa.Value) ([]tableRow, []string, string) {
	return truthTableTracking(L, start, target, want, "")
}

// truthTableTracking additionally records, per assignment, the last value stored into the field `track`.
func truthTableTracking(L *Loaded, start *ssa.BasicBlock, target ssa.Instruction, want ssa.Value, track string) ([]tableRow, []string, string) {
	lastAtomValues = map[string]ssa.Value{}
	sym := newSym(L, map[string]bool{})
	sym.maxD = 0 // atoms are named by their local expression, callees are opaque
	known := map[string]bool{}
	for round := 0; round < 6; round++ {
		ids := make([]string, 0, len(known))
		for id := range known {
			ids = append(ids, id)
		}
		sort.Strings(ids)
		if len(ids) > 13 {
			return nil, ids, "too many atoms"
		}
		var rows []tableRow
		grew := false
		var assign func(i int, env map[string]tval)
		assign = func(i int, env map[string]tval) {
			if i == len(ids) {
				it := &tableInterp{L: L, sym: sym, env: env, atoms: map[string]bool{}, vals: lastAtomValues, track: track}
				res, reached := it.run(start, target, want)
				for id, isB := range it.atoms {
					if _, ok := known[id]; !ok {
						known[id] = isB
						grew = true
					}
				}
				cp := map[string]tval{}
				for k, v := range env {
					cp[k] = v
				}
				rows = append(rows, tableRow{atoms: cp, result: res, reached: reached, errExit: it.errExit, stuck: it.failed != "", stored: it.stored, storedVal: it.storedVal})
				return
			}
			id := ids[i]
			if known[id] {
				for _, b := range []bool{false, true} {
					env[id] = tval{isBool: true, b: b}
					assign(i+1, env)
				}
			} else {
				for _, n := range []int64{-1, 0, 1} {
					env[id] = tval{i: n}
					assign(i+1, env)
				}
			}
			delete(env, id)
		}
		assign(0, map[string]tval{})
		if !grew {
			return rows, ids, ""
		}
	}
	return nil, nil, "atom discovery did not converge"
}
