package main

import (
	"fmt"
	"go/ast"
	"go/token"
	"go/types"
	"sort"
	"strings"

	"golang.org/x/tools/go/packages"
	"golang.org/x/tools/go/ssa"
)

func init() {
	register(&propDef{
		id: "C04", withTestdata: true,
		run: runC04,
		explanation: "Hygiene rules over the generator's emission templates (go/ast composite literals and ast.NewIdent calls in internal/kessoku, resolved with go/types), holding for every input: (1) every identifier the generator invents comes from the allocator, an import's allocated name, or a user name in a non-binding slot; constant identifiers are inventoried with the slot they occupy, and a constant in a binder slot (:=, var, range, parameter) must be '_' or live in a nested scope that no user-controlled expression can enter; " +
			"(2) constant package qualifiers must be bound by a constant binder of the templates; (3) := is never chosen for a predeclared variable (truth table); (4) a two-value return never starts with the untyped nil; (5) the type renderer consults every identity-relevant component of each types.Type kind (frozen table from the Go spec's type identity rules) and rejects the kinds it cannot print; (6) the import collector visits exactly the type-bearing components the renderer prints, kind by kind; (7) the 36 checked-in outputs type-check together with their packages (go/types, 0 errors).",
		notDecided:  "compilability of an arbitrary unseen output as a whole: the rules are necessary conditions, one per clause of the statement, not a proof that their conjunction suffices; user declarations that shadow predeclared names.",
		assumptions: []string{"go/types of Go 1.26 defines the kinds of types.Type and their accessors", "the Go spec's type identity rules (variadic, embedded, tags, type arguments matter)"},
	})
}

// nameClass classifies where the string argument of ast.NewIdent(...) comes from.
func nameClass(p *packages.Package, fn *ast.FuncDecl, e ast.Expr, depth int) []string {
	if depth > 4 || e == nil {
		return []string{"unknown:depth"}
	}
	e = ast.Unparen(e)
	if tv, ok := p.TypesInfo.Types[e]; ok && tv.Value != nil {
		return []string{"const:" + strings.Trim(tv.Value.ExactString(), `"`)}
	}
	switch x := e.(type) {
	case *ast.CallExpr:
		cal := astCallee(p, x)
		switch {
		case strings.HasSuffix(cal, "InjectorParam).Name") || strings.HasSuffix(cal, "InjectorParam).ChannelName") ||
			strings.HasSuffix(cal, "VarPool).GetName") || strings.HasSuffix(cal, "VarPool).Get") || strings.HasSuffix(cal, "VarPool).GetChannel"):
			return []string{"pool"}
		case cal == "fmt.Sprintf":
			return []string{"derived:Sprintf"}
		case strings.HasPrefix(cal, "(*go/types.") || strings.HasPrefix(cal, "(go/types."):
			return []string{"typederived"}
		}
		return []string{"unknown:call " + cal}
	case *ast.SelectorExpr:
		if sel := p.TypesInfo.Selections[x]; sel != nil {
			if v, ok := sel.Obj().(*types.Var); ok && v.IsField() {
				recv := sel.Recv().String()
				switch {
				case strings.HasSuffix(recv, genPkg+".Import") && v.Name() == "Name":
					return []string{"import"}
				case strings.HasSuffix(recv, genPkg+".StructFieldSpec") && v.Name() == "Name":
					return []string{"user:field"}
				case strings.HasSuffix(recv, genPkg+".Injector") && v.Name() == "Name":
					return []string{"user:injector"}
				case strings.HasSuffix(recv, genPkg+".Package") && v.Name() == "Name":
					return []string{"user:package"}
				}
				return []string{"unknown:field " + recv + "." + v.Name()}
			}
		}
	case *ast.Ident:
		obj := p.TypesInfo.Uses[x]
		v, ok := obj.(*types.Var)
		if !ok {
			return []string{"unknown:ident " + x.Name}
		}
		// parameter: classify the argument at every call site in the package
		if fn != nil && fn.Type.Params != nil {
			idx, i := -1, 0
			for _, fl := range fn.Type.Params.List {
				for _, nm := range fl.Names {
					if p.TypesInfo.Defs[nm] == obj {
						idx = i
					}
					i++
				}
			}
			if idx >= 0 {
				var out []string
				fobj := p.TypesInfo.Defs[fn.Name]
				for _, f := range p.Syntax {
					for _, d := range f.Decls {
						caller, ok := d.(*ast.FuncDecl)
						if !ok || caller.Body == nil {
							continue
						}
						ast.Inspect(caller.Body, func(n ast.Node) bool {
							call, ok := n.(*ast.CallExpr)
							if !ok {
								return true
							}
							var id *ast.Ident
							switch f := call.Fun.(type) {
							case *ast.Ident:
								id = f
							case *ast.SelectorExpr:
								id = f.Sel
							}
							if id != nil && p.TypesInfo.Uses[id] == fobj && idx < len(call.Args) {
								out = append(out, nameClass(p, caller, call.Args[idx], depth+1)...)
							}
							return true
						})
					}
				}
				if len(out) == 0 {
					return []string{"unknown:param " + x.Name}
				}
				return out
			}
		}
		// local variable: union over its assignments
		var out []string
		if fn != nil {
			ast.Inspect(fn.Body, func(n ast.Node) bool {
				switch a := n.(type) {
				case *ast.AssignStmt:
					for i, l := range a.Lhs {
						li, ok := l.(*ast.Ident)
						if !ok {
							continue
						}
						o := p.TypesInfo.Defs[li]
						if o == nil {
							o = p.TypesInfo.Uses[li]
						}
						if o == types.Object(v) && len(a.Rhs) == len(a.Lhs) {
							out = append(out, nameClass(p, fn, a.Rhs[i], depth+1)...)
						}
					}
				case *ast.ValueSpec:
					for i, nm := range a.Names {
						if p.TypesInfo.Defs[nm] == types.Object(v) && i < len(a.Values) {
							out = append(out, nameClass(p, fn, a.Values[i], depth+1)...)
						}
					}
				}
				return true
			})
		}
		if len(out) == 0 {
			return []string{"unknown:var " + x.Name}
		}
		return out
	}
	return []string{"unknown:" + exprString(e)}
}

// newIdentIndex maps the position of every ast.NewIdent(...) call in the generator to its SSA call.
func newIdentIndex(L *Loaded) map[token.Pos]*ssa.Call {
	idx := map[token.Pos]*ssa.Call{}
	for _, fn := range pkgFuncs(L, genPkg) {
		for _, cs := range callsIn(fn) {
			if cs.callee == "go/ast.NewIdent" && cs.value() != nil {
				idx[cs.value().Pos()] = cs.value()
			}
		}
	}
	return idx
}

// classifyTerm maps a value-origin term of an identifier's name to its class.
func classifyTerm(L *Loaded, t string, fn *ssa.Function, depth int) []string {
	switch {
	case strings.HasPrefix(t, `"`):
		return []string{"const:" + strings.Trim(t, `"`)}
	case strings.Contains(t, genPkg+".InjectorParam).Name(") && strings.HasPrefix(t, "(*") || strings.Contains(t, genPkg+".InjectorParam).ChannelName(") && strings.HasPrefix(t, "(*") ||
		strings.HasPrefix(t, "(*"+genPkg+".VarPool)."):
		return []string{"pool"}
	case strings.HasPrefix(t, "field:internal/kessoku.Import.Name("):
		return []string{"import"}
	case strings.HasPrefix(t, "field:internal/kessoku.StructFieldSpec.Name("):
		return []string{"user:field"}
	case strings.HasPrefix(t, "field:internal/kessoku.Injector.Name("):
		return []string{"user:injector"}
	case strings.HasPrefix(t, "field:internal/kessoku.Package.Name("):
		return []string{"user:package"}
	case strings.HasPrefix(t, "fmt.Sprintf("):
		return []string{"derived:Sprintf"}
	case strings.HasPrefix(t, "bin+(") && (strings.Contains(t, "strconv.Itoa(") || strings.Contains(t, "strconv.FormatInt(")):
		// <prefix> + decimal index: the same derived names as fmt.Sprintf("<prefix>%d", i) when the prefix is a constant
		inner := strings.TrimSuffix(strings.TrimPrefix(t, "bin+("), ")")
		prefix := inner
		if i := strings.Index(inner, ", strconv."); i >= 0 {
			prefix = inner[:i]
		}
		ok := true
		for _, cl := range classifyTerm(L, prefix, fn, depth+1) {
			if !strings.HasPrefix(cl, "const:") {
				ok = false
			}
		}
		if ok {
			return []string{"derived:Sprintf"}
		}
	case strings.HasPrefix(t, "(*go/types.") || strings.HasPrefix(t, "invoke (go/types."):
		return []string{"typederived"}
	case strings.HasPrefix(t, "param:") && depth < 3 && fn != nil:
		name := strings.TrimPrefix(t, "param:")
		idx := -1
		for i, p := range fn.Params {
			if p.Name() == name {
				idx = i
			}
		}
		var out []string
		if idx >= 0 {
			for _, caller := range pkgFuncs(L, genPkg) {
				for _, cs := range callsIn(caller) {
					if cs.common.StaticCallee() == fn && idx < len(cs.common.Args) {
						s := newSym(L, map[string]bool{})
						s.maxD = 0
						for _, tt := range s.eval(cs.common.Args[idx]) {
							out = append(out, classifyTerm(L, tt, caller, depth+1)...)
						}
					}
				}
			}
		}
		if len(out) > 0 {
			return out
		}
	}
	return []string{"unknown:" + t}
}

func nameClassSSA(L *Loaded, call *ssa.Call) []string {
	s := newSym(L, map[string]bool{})
	s.maxD = 0
	var out []string
	for _, t := range s.eval(call.Common().Args[0]) {
		out = append(out, classifyTerm(L, t, call.Parent(), 0)...)
	}
	// a name that comes out of a private helper: look through the helper (its feasible returns) once more
	through := false
	for _, cl := range out {
		if strings.HasPrefix(cl, "unknown:"+modPath) {
			through = true
		}
	}
	if through {
		s2 := newSym(L, map[string]bool{})
		s2.maxD = 2
		var out2 []string
		for _, t := range s2.eval(call.Common().Args[0]) {
			out2 = append(out2, classifyTerm(L, t, call.Parent(), 0)...)
		}
		return uniq(out2)
	}
	return uniq(out)
}

// identUse: one occurrence of an identifier-producing expression inside a template slot.
type identUse struct {
	site  *tmplSite // the literal whose slot holds it
	slot  string
	expr  ast.Expr
	class []string
}

// collectIdentUses finds ast.NewIdent(...) / &ast.Ident{} expressions (or variables holding them) in template slots.
func collectIdentUses(L *Loaded, p *packages.Package, sites []*tmplSite) []identUse {
	var out []identUse
	idx := newIdentIndex(L)
	isIdentExpr := func(fn *ast.FuncDecl, e ast.Expr) (ast.Expr, bool) {
		e = ast.Unparen(e)
		if arg := identArg(p, fn, e); arg != nil {
			return arg, true
		}
		if n, ok := identConst(p, fn, e); ok {
			_ = n
			// &ast.Ident{Name: "x"}: build a synthetic constant
			return nil, true
		}
		return nil, false
	}
	for _, s := range sites {
		for slot, e := range s.fields {
			var elems []ast.Expr
			if cl, ok := ast.Unparen(e).(*ast.CompositeLit); ok && astTypeName(p, cl) == "" {
				for _, el := range cl.Elts {
					if kv, ok := el.(*ast.KeyValueExpr); ok {
						elems = append(elems, kv.Value)
					} else {
						elems = append(elems, el)
					}
				}
			} else {
				elems = []ast.Expr{e}
			}
			for _, el := range elems {
				arg, ok := isIdentExpr(s.fn, el)
				if !ok {
					continue
				}
				u := identUse{site: s, slot: slot, expr: el}
				if arg != nil {
					if call := newIdentCallOf(p, s.fn, el); call != nil && idx[call.Lparen] != nil {
						u.class = nameClassSSA(L, idx[call.Lparen])
					} else {
						u.class = nameClass(p, s.fn, arg, 0)
					}
				} else if n, ok := identConst(p, s.fn, el); ok {
					u.class = []string{"const:" + n}
				}
				out = append(out, u)
			}
		}
	}
	return out
}

var binderSlots = map[string]bool{
	"AssignStmt.Lhs": true, "ValueSpec.Names": true, "RangeStmt.Key": true, "RangeStmt.Value": true,
	"Field.Names": true, "ImportSpec.Name": true, "LabeledStmt.Label": true, "TypeSpec.Name": true, "FuncDecl.Name": true,
}

func runC04(c *Ctx) {
	L := c.L
	L.buildSSA()
	p := L.Pkgs[genPkg]
	if p == nil {
		c.undecided("C04.1", "internal/kessoku", "package not loaded")
		return
	}
	sites := collectTemplates(p)
	c.floor("C04.1", "go/ast composite literals in the generator", len(sites), 80)
	uses := collectIdentUses(L, p, sites)
	c.floor("C04.1", "identifier expressions in template slots", len(uses), 40)
	c.Extra["template_sites"] = len(sites)
	c.Extra["identifier_uses"] = len(uses)

	constBinders := map[string]bool{}
	typePosition := func(s *tmplSite) bool {
		// field names inside a type literal (FuncType/StructType/InterfaceType built by the type renderer) bind nothing in the function
		return s.fn != nil && isTypeRenderer(p, s.fn)
	}
	for _, u := range uses {
		s := u.site
		slotKey := s.kind + "." + u.slot
		where := s.fnName()
		for _, cl := range u.class {
			if strings.HasPrefix(cl, "unknown") {
				c.undecided("C04.1", where+":"+slotKey+":origin", "cannot classify the origin of an emitted identifier: "+cl+" in "+exprString(u.expr))
			}
		}
		if !binderSlots[slotKey] {
			continue
		}
		if typePosition(s) {
			c.ok("C04.1", where+": "+slotKey+" inside a type literal binds nothing in function scope", "type position")
			continue
		}
		// AssignStmt binds only with :=
		if s.kind == "AssignStmt" || s.kind == "RangeStmt" {
			if ts := tokenSet(p, s.fn, s.fields["Tok"]); !ts[":="] {
				continue
			}
		}
		for _, cl := range u.class {
			switch {
			case cl == "pool":
				c.ok("C04.1", where+": binder in "+slotKey+" comes from the allocator", "origin pool")
			case cl == "const:_":
				c.ok("C04.1", where+": blank binder in "+slotKey, "constant _")
			case cl == "import" && slotKey == "ImportSpec.Name":
				c.ok("C04.1", where+": import alias is the allocated import name", "origin Import.Name")
			case cl == "user:injector" && slotKey == "FuncDecl.Name":
				c.ok("C04.1", where+": function name is the declared injector name", "origin Injector.Name")
			case strings.HasPrefix(cl, "const:"):
				name := strings.TrimPrefix(cl, "const:")
				constBinders[name] = true
				// nested scope?
				nested := ""
				switch {
				case s.kind == "AssignStmt" && s.parent != nil && s.parent.kind == "IfStmt" && s.slot == "Init":
					nested = "if-statement init"
				case s.kind == "RangeStmt":
					nested = "range statement"
				case s.nestedIn("IfStmt", "CaseClause", "RangeStmt", "FuncLit", "BlockStmt") != nil:
					nested = "nested block"
				case s.fnLit != nil:
					nested = "handler closure (spliced into if/case bodies only)"
				case s.fn != nil && p.TypesInfo.Defs[s.fn.Name] != nil && isHandlerSig(p.TypesInfo.Defs[s.fn.Name].Type()):
					nested = "handler function (spliced into if/case bodies only)"
				}
				if nested == "" {
					c.fail("C04.1", "function-level-constant-binder:"+name, L.pos(s.lit.Pos()),
						fmt.Sprintf("the generator declares the hard-coded name %q at function level without asking the allocator: it collides with a provided variable, parameter or import of that name", name), slotKey+" with := in "+where)
					continue
				}
				c04Nested(c, p, sites, s, name, nested)
			default:
				c.fail("C04.1", where+":"+slotKey+":origin:"+cl, L.pos(s.lit.Pos()), "a binder gets its name from "+cl+" instead of the allocator")
			}
		}
	}

	// C04.3 qualifiers
	nQ := 0
	for _, u := range uses {
		if u.site.kind != "SelectorExpr" || u.slot != "X" {
			continue
		}
		nQ++
		where := u.site.fnName()
		for _, cl := range u.class {
			switch {
			case cl == "import" || cl == "pool":
				c.ok("C04.3", where+": qualifier is an allocated name", cl)
			case strings.HasPrefix(cl, "const:"):
				name := strings.TrimPrefix(cl, "const:")
				bound := constBinders[name] || types.Universe.Lookup(name) != nil
				c.check(bound, "C04.3", where+":constant-qualifier:"+name, L.pos(u.site.lit.Pos()),
					fmt.Sprintf("the hard-coded qualifier %q is bound by a constant binder of the templates (or predeclared)", name), "constant binders: "+strings.Join(sortedKeys(constBinders), ","))
			default:
				if !strings.HasPrefix(cl, "unknown") {
					c.fail("C04.3", where+":qualifier:"+cl, L.pos(u.site.lit.Pos()), "a package/receiver qualifier is taken from "+cl)
				}
			}
		}
	}
	c.floor("C04.3", "identifier qualifiers in selector templates", nQ, 6)

	// C04.4
	ruleAssignToken(c, "C04.4")
	// C04.11 generated loops over done-channels use the element as its type permits
	ruleRangeChannelDirection(c, "C04.11")
	// C04.13 what is marked as a used import is what gets printed
	ruleUsedMarkingMatchesEmission(c, "C04.13")
	// C04.14 templates are complete when built (nothing patches a node produced elsewhere)
	ruleTemplatesNotPatched(c, "C04.14")
	// C04.15 variadic providers are called with arg...
	ruleVariadicProviderCalls(c, "C04.15")
	ruleUserSyntaxRequalified(c, "C04.16")
	ruleArgumentTypeAsRequired(c, "C04.17")
	ruleTypeExprsNotShared(c, "C04.18")
	ruleAliasSpelledAsDeclared(c, "C04.19")
	ruleAsyncFlag(c, "C04.20")
	ruleChanDirMapping(c, "C04.21", genPkg)
	rulePairedEdges(c, "C04.22")
	ruleLhsOnePerResult(c, "C04.23")
	ruleContextFirst(c, "C04.24")
	ruleOutputOpenedTruncating(c, "C04.25")
	ruleDefaultNameFlagComputed(c, "C04.26")
	ruleEllipsisOnlyLast(c, "C04.6")

	// C04.10 user identifiers reach the allocator (shared with C12): otherwise a generated local can shadow a user name
	{
		sub := &Ctx{Prop: c.Prop, Tier: c.Tier, L: c.L, FuncsSeen: c.FuncsSeen, Extra: c.Extra, RoleNames: c.RoleNames}
		// the whole allocator discipline (fresh names, reserved words and predeclared identifiers seeded, used-set only grows,
		// package-level names registered first) is a necessary condition of "the output compiles": a generated identifier that
		// is a keyword, shadows a builtin it uses, or collides does not compile
		runC12(sub)
		for _, o := range sub.Obls {
			o.Rule = "C04.10"
			c.Obls = append(c.Obls, o)
		}
		for _, f := range sub.Finds {
			f.Rule = "C04.10"
			c.Finds = append(c.Finds, f)
		}
	}

	// C04.5 typed results
	nR := 0
	for _, s := range sites {
		if s.kind != "ReturnStmt" {
			continue
		}
		cl, ok := ast.Unparen(s.fields["Results"]).(*ast.CompositeLit)
		if !ok {
			continue
		}
		nR++
		if len(cl.Elts) >= 2 {
			if n, ok := identConst(p, s.fn, cl.Elts[0]); ok && n == "nil" {
				c.fail("C04.5", "template:return-nil-for-value", L.pos(s.lit.Pos()),
					"a two-value return starts with the untyped nil although the injector's result type is arbitrary (string, struct, ...): `return nil, err` does not compile for non-nilable types")
				continue
			}
		}
		c.ok("C04.5", s.fnName()+": return template has a typed first result", exprString(cl))
	}
	c.floor("C04.5", "return templates", nR, 4)

	c04Renderer(c, p)
	ruleImportNamesFromPool(c, "C04.11")
	ruleParamsNamedFirst(c, "C04.12")

	// C04.9 the checked-in outputs type-check (the loader fails closed on any type error in module packages)
	files, _ := coFiles(L)
	c.check(len(files) >= 36, "C04.9", "co:type-check", "-", "the checked-in generated files type-check together with their packages (go/types)", fmt.Sprintf("%d generated files in %d loaded packages, 0 type errors", len(files), len(L.All)))
	c.Programs = len(files)
}

// c04Nested (C04.2): a constant binder in a nested scope must not enclose user-controlled syntax.
func c04Nested(c *Ctx, p *packages.Package, sites []*tmplSite, s *tmplSite, name, nested string) {
	L := c.L
	where := s.fnName()
	// find Go-level calls inside the scope that can splice arbitrary statements in: calls taking a function-typed
	// argument of handler type, or calls to module functions returning statements
	var scope ast.Node = s.lit
	if s.kind == "AssignStmt" && s.parent != nil {
		scope = s.parent.lit // the whole if statement
	}
	if s.kind == "ValueSpec" && s.fnLit != nil {
		scope = s.fnLit.Body
	}
	open := ""
	ast.Inspect(scope, func(n ast.Node) bool {
		call, ok := n.(*ast.CallExpr)
		if !ok {
			return true
		}
		cal := astCallee(p, call)
		if strings.Contains(cal, "internal/kessoku.") || strings.HasPrefix(cal, "var ") {
			// which of these can carry user syntax? those that receive the handler or a user expression
			for _, a := range call.Args {
				t := p.TypesInfo.TypeOf(a)
				if t != nil && strings.Contains(t.String(), "func(") && strings.Contains(t.String(), "go/ast.Stmt") {
					open = "statements produced by " + cal + " with the caller's error handler (its `var zero <user type expression>` is inside the scope)"
				}
			}
		}
		return true
	})
	// direct user type expression inside the scope (after the binder)
	if s.kind == "ValueSpec" {
		// `var zero T`: T is outside zero's scope; the following return uses the handler's parameter
		open = ""
	}
	if open != "" {
		c.fail("C04.2", "nested-constant-binder-encloses-user-syntax:"+name, L.pos(s.lit.Pos()),
			fmt.Sprintf("the hard-coded %s variable %q encloses user-controlled syntax: a user package or type spelled %q inside it is captured by the generated variable", nested, name, name), open)
		return
	}
	c.ok("C04.2", fmt.Sprintf("%s: constant binder %q lives in a %s whose scope contains only fixed templates and allocator names", where, name, nested), "scope subtree inspected for spliced statements")
}

// ---- type renderer fidelity and sibling agreement

type walkerInfo struct {
	fn      *ast.FuncDecl
	perKind map[string]map[string]bool // kind -> accessors used
	handled map[string]bool
	defErr  bool
	hasDef  bool
}

var typeKinds = []string{"Basic", "Pointer", "Slice", "Array", "Map", "Chan", "Named", "Alias", "Signature", "Struct", "Interface", "Tuple", "TypeParam", "Union"}

func goTypesPkg(L *Loaded) *types.Package {
	var out *types.Package
	packages.Visit(L.All, nil, func(p *packages.Package) {
		if p.PkgPath == "go/types" && p.Types != nil {
			out = p.Types
		}
	})
	return out
}

// hasTypeSwitch: the declaration's body contains a type switch.
func hasTypeSwitch(fd *ast.FuncDecl) bool {
	found := false
	if fd != nil && fd.Body != nil {
		ast.Inspect(fd.Body, func(n ast.Node) bool {
			if _, ok := n.(*ast.TypeSwitchStmt); ok {
				found = true
			}
			return !found
		})
	}
	return found
}

func analyseWalker(L *Loaded, p *packages.Package, name string) *walkerInfo {
	fd, _ := L.funcDecl(genPkg, "", name)
	// an entry point that only sets up a carrier (typeExprBuilder{...}.typeExpr(t)): the walker is the method or function
	// it hands the type to
	for depth := 0; fd != nil && !hasTypeSwitch(fd) && depth < 2; depth++ {
		var next *ast.FuncDecl
		ast.Inspect(fd.Body, func(n ast.Node) bool {
			call, ok := n.(*ast.CallExpr)
			if !ok || next != nil {
				return true
			}
			takesType := false
			for _, a := range call.Args {
				if t := p.TypesInfo.TypeOf(a); t != nil && t.String() == "go/types.Type" {
					takesType = true
				}
			}
			if takesType {
				if cd := calleeDecl(p, call); cd != nil && cd != fd && hasTypeSwitch(cd) {
					next = cd
				}
			}
			return true
		})
		if next == nil {
			break
		}
		fd = next
	}
	if fd != nil && !hasTypeSwitch(fd) {
		fd = nil
	}
	if fd == nil {
		// by role: a function with a go/types.Type first parameter whose body is a type switch on it
		want := "(go/ast.Expr, error)"
		if name == "collectImportsFromType" {
			want = ""
		}
		for _, fn := range pkgFuncs(L, genPkg) {
			if fn.Parent() != nil || len(fn.Params) == 0 {
				continue
			}
			sg := fn.Signature.String()
			hasTypeParam := false
			for _, prm := range fn.Params {
				if prm.Type().String() == "go/types.Type" {
					hasTypeParam = true
				}
			}
			if !hasTypeParam {
				continue
			}
			if (want != "" && strings.HasSuffix(sg, want)) || (want == "" && fn.Signature.Results().Len() == 0) {
				if d := funcDeclOfSSA(L, fn); d != nil && hasTypeSwitch(d) {
					fd = d
				}
			}
		}
		if fd == nil {
			return nil
		}
	}
	return analyseWalkerDecl(L, p, fd)
}

// analyseWalkerDecl: which accessors of go/types each case of fd's type switch consults.
func analyseWalkerDecl(L *Loaded, p *packages.Package, fd *ast.FuncDecl) *walkerInfo {
	gt := goTypesPkg(L)
	w := &walkerInfo{fn: fd, perKind: map[string]map[string]bool{}, handled: map[string]bool{}}
	var ts *ast.TypeSwitchStmt
	ast.Inspect(fd.Body, func(n ast.Node) bool {
		if t, ok := n.(*ast.TypeSwitchStmt); ok && ts == nil {
			ts = t
			return false
		}
		return true
	})
	if ts == nil {
		return w
	}
	for _, st := range ts.Body.List {
		cc := st.(*ast.CaseClause)
		if cc.List == nil {
			w.hasDef = true
			ast.Inspect(cc, func(n ast.Node) bool {
				if r, ok := n.(*ast.ReturnStmt); ok && len(r.Results) > 0 {
					last := r.Results[len(r.Results)-1]
					if call, ok := last.(*ast.CallExpr); ok && (astCallee(p, call) == "fmt.Errorf" || astCallee(p, call) == "errors.New") {
						w.defErr = true
					}
				}
				return true
			})
			continue
		}
		// kinds matched by this clause
		var kinds []string
		for _, e := range cc.List {
			t := p.TypesInfo.TypeOf(e)
			if t == nil {
				continue
			}
			if it, ok := t.Underlying().(*types.Interface); ok {
				for _, k := range typeKinds {
					if gt == nil {
						continue
					}
					if o := gt.Scope().Lookup(k); o != nil && types.Implements(types.NewPointer(o.Type()), it) {
						kinds = append(kinds, k)
					}
				}
				continue
			}
			if pt, ok := t.(*types.Pointer); ok {
				if n, ok := pt.Elem().(*types.Named); ok && n.Obj().Pkg() != nil && n.Obj().Pkg().Path() == "go/types" {
					kinds = append(kinds, n.Obj().Name())
				}
			}
		}
		obj := p.TypesInfo.Implicits[cc]
		acc := map[string]bool{}
		// accessor chains rooted at the clause variable; also note whether the clause recurses
		ast.Inspect(cc, func(n ast.Node) bool {
			call, ok := n.(*ast.CallExpr)
			if !ok {
				return true
			}
			chain := []string{}
			var cur ast.Expr = call
			for {
				cx, ok := ast.Unparen(cur).(*ast.CallExpr)
				if !ok {
					break
				}
				sel, ok := cx.Fun.(*ast.SelectorExpr)
				if !ok {
					break
				}
				chain = append([]string{sel.Sel.Name}, chain...)
				cur = sel.X
			}
			// typ.(someInterface).Elem(): the clause variable seen through an interface that several kinds share
			if ta, isTA := ast.Unparen(cur).(*ast.TypeAssertExpr); isTA && ta.Type != nil {
				cur = ta.X
			}
			if id, ok := ast.Unparen(cur).(*ast.Ident); ok && obj != nil && p.TypesInfo.Uses[id] == obj && len(chain) > 0 {
				acc[chain[0]] = true
				if len(chain) > 1 {
					acc[chain[0]+"."+chain[1]] = true
				}
				if len(chain) > 2 {
					acc[chain[0]+"."+chain[1]+"."+chain[2]] = true
				}
			}
			return true
		})
		// variables bound from accessors inside the clause (for v := range params.Variables()) - record method names on them
		ast.Inspect(cc, func(n ast.Node) bool {
			if sel, ok := n.(*ast.SelectorExpr); ok {
				if _, isCall := ast.Unparen(sel.X).(*ast.Ident); isCall {
					if s := p.TypesInfo.Selections[sel]; s != nil && s.Kind() == types.MethodVal {
						if r := s.Recv().String(); strings.Contains(r, "go/types.Var") || strings.Contains(r, "go/types.Func") {
							acc["*."+sel.Sel.Name] = true
						}
					}
				}
			}
			return true
		})
		for _, k := range kinds {
			w.handled[k] = true
			if w.perKind[k] == nil {
				w.perKind[k] = map[string]bool{}
			}
			for a := range acc {
				w.perKind[k][a] = true
			}
		}
	}
	return w
}

// identity-relevant accessors per kind (alternatives separated by |)
var fidelityTable = map[string][]string{
	"Basic":     {"Name"},
	"Pointer":   {"Elem"},
	"Slice":     {"Elem"},
	"Array":     {"Len", "Elem"},
	"Map":       {"Key", "Elem"},
	"Chan":      {"Dir", "Elem"},
	"Named":     {"Obj", "TypeArgs"},
	"Alias":     {"Obj", "TypeArgs"},
	"Signature": {"Params", "Results", "Variadic"},
	"Struct":    {"Field|Fields", "Tag", "Field.Embedded|Field.Anonymous|*.Embedded|*.Anonymous", "Field.Name|*.Name"},
	"Interface": {"Methods|Method|ExplicitMethod"},
}

// type-bearing components that both walkers must agree on
var typeBearing = map[string][]string{
	"Pointer": {"Elem"}, "Slice": {"Elem"}, "Array": {"Elem"}, "Map": {"Key", "Elem"}, "Chan": {"Elem"},
	"Named": {"Obj", "TypeArgs"}, "Alias": {"Obj", "TypeArgs"}, "Signature": {"Params", "Results"},
	"Struct": {"Fields"}, "Interface": {"Methods"},
}

func normAccessor(a string) string {
	switch a {
	case "Field", "NumFields", "Fields":
		return "Fields"
	case "Method", "NumMethods", "Methods", "ExplicitMethod", "NumExplicitMethods", "ExplicitMethods":
		return "Methods"
	}
	return a
}

func hasAny(set map[string]bool, alts string) bool {
	for _, a := range strings.Split(alts, "|") {
		if set[a] {
			return true
		}
	}
	return false
}

func c04Renderer(c *Ctx, p *packages.Package) {
	L := c.L
	r := analyseWalker(L, p, "createASTTypeExpr")
	v := analyseWalker(L, p, "collectImportsFromType")
	if r == nil || v == nil {
		c.undecided("C04.6", "type-walkers", "createASTTypeExpr / collectImportsFromType not found")
		return
	}
	c.seen("internal/kessoku.createASTTypeExpr")
	c.seen("internal/kessoku.collectImportsFromType")
	kinds := make([]string, 0, len(fidelityTable))
	for k := range fidelityTable {
		kinds = append(kinds, k)
	}
	sort.Strings(kinds)
	for _, k := range kinds {
		if !r.handled[k] {
			c.check(r.hasDef && r.defErr, "C04.6", "createASTTypeExpr:"+k+":unhandled", L.pos(r.fn.Pos()), "a type kind without a case is rejected with an error, not printed wrongly", "default clause returns an error")
			continue
		}
		for _, req := range fidelityTable[k] {
			if k == "Interface" {
				// all methods: either the flattened method set, or explicit methods together with the embedded types
				acc := r.perKind[k]
				okI := hasAny(acc, "Methods|Method|NumMethods") || (hasAny(acc, "ExplicitMethod|ExplicitMethods|NumExplicitMethods") && hasAny(acc, "EmbeddedType|EmbeddedTypes|Embeddeds|NumEmbeddeds"))
				c.check(okI, "C04.6", "createASTTypeExpr:Interface:Methods", L.pos(r.fn.Pos()), "the renderer prints every method of an interface type (embedded interfaces included)", fmt.Sprintf("accessors used in the case: %v", sortedKeys(acc)))
				continue
			}
			c.check(hasAny(r.perKind[k], req), "C04.6", "createASTTypeExpr:"+k+":"+strings.Split(req, "|")[0], L.pos(r.fn.Pos()),
				fmt.Sprintf("the renderer consults %s of *types.%s (part of the type's identity)", req, k), fmt.Sprintf("accessors used in the case: %v", sortedKeys(r.perKind[k])))
		}
	}
	// unsafe.Pointer is a Basic type whose name is not a predeclared identifier
	if !(r.perKind["Basic"]["Kind"]) {
		c.fail("C04.6", "createASTTypeExpr:Basic:UnsafePointer", L.pos(r.fn.Pos()),
			"*types.Basic is printed by its bare Name(); for unsafe.Pointer that is `Pointer`, an undefined identifier (no qualifier, no import)", "the Basic case never looks at Kind()")
	} else {
		c.ok("C04.6", "the renderer distinguishes unsafe.Pointer from the predeclared basic types", "Kind() consulted")
	}
	for _, k := range []string{"Tuple", "TypeParam", "Union"} {
		c.check(r.handled[k] || (r.hasDef && r.defErr), "C04.6", "createASTTypeExpr:"+k+":rejected", L.pos(r.fn.Pos()), "*types."+k+" cannot be spelled as a type expression and is rejected with an error", "default clause returns fmt.Errorf")
	}
	// sibling agreement
	tk := make([]string, 0, len(typeBearing))
	for k := range typeBearing {
		tk = append(tk, k)
	}
	sort.Strings(tk)
	for _, k := range tk {
		pr, vi := map[string]bool{}, map[string]bool{}
		for a := range r.perKind[k] {
			pr[normAccessor(strings.Split(a, ".")[0])] = true
		}
		for a := range v.perKind[k] {
			vi[normAccessor(strings.Split(a, ".")[0])] = true
		}
		for _, comp := range typeBearing[k] {
			c.check(pr[comp] == vi[comp], "C04.7", "walkers:"+k+"."+comp, L.pos(v.fn.Pos()),
				fmt.Sprintf("the %s component of *types.%s is printed by the renderer iff the import collector visits it", comp, k),
				fmt.Sprintf("printed=%v visited=%v (renderer uses %v, collector uses %v)", pr[comp], vi[comp], sortedKeys(r.perKind[k]), sortedKeys(v.perKind[k])))
		}
	}
}

// newIdentCallOf returns the ast.NewIdent call an expression denotes (directly or through a single-assignment local).
func newIdentCallOf(p *packages.Package, fn *ast.FuncDecl, e ast.Expr) *ast.CallExpr {
	e = ast.Unparen(e)
	switch x := e.(type) {
	case *ast.CallExpr:
		if isNewIdent(p, x) {
			return x
		}
	case *ast.Ident:
		if def := singleAssignment(p, fn, x); def != nil {
			return newIdentCallOf(p, fn, def)
		}
	}
	return nil
}

// isTypeRenderer: the function turns go/types values into a type expression (first result go/ast.Expr, some parameter
// from go/types). Field names it emits sit in type position.
func isTypeRenderer(p *packages.Package, fd *ast.FuncDecl) bool {
	if isTypeRendererProper(p, fd) {
		return true
	}
	// a helper of the type renderer: takes go/types values, returns go/ast values, and is called only by type renderers (or itself)
	if !takesTypesReturnsAst(p, fd, false) {
		return false
	}
	obj := p.TypesInfo.Defs[fd.Name]
	if obj == nil {
		return false
	}
	callers := 0
	for _, f := range p.Syntax {
		for _, d := range f.Decls {
			g, ok := d.(*ast.FuncDecl)
			if !ok || g.Body == nil || g == fd {
				continue
			}
			uses := false
			ast.Inspect(g.Body, func(n ast.Node) bool {
				if id, ok := n.(*ast.Ident); ok && p.TypesInfo.Uses[id] == obj {
					uses = true
				}
				return true
			})
			if uses {
				if !isTypeRendererProper(p, g) {
					return false
				}
				callers++
			}
		}
	}
	return callers > 0
}

func isTypeRendererProper(p *packages.Package, fd *ast.FuncDecl) bool {
	return takesTypesReturnsAst(p, fd, true)
}

func takesTypesReturnsAst(p *packages.Package, fd *ast.FuncDecl, exprOnly bool) bool {
	if fd.Type.Results == nil || len(fd.Type.Results.List) == 0 || fd.Type.Params == nil {
		return false
	}
	t := p.TypesInfo.TypeOf(fd.Type.Results.List[0].Type)
	if t == nil {
		return false
	}
	if exprOnly && t.String() != "go/ast.Expr" {
		return false
	}
	if !exprOnly && !strings.Contains(t.String(), "go/ast.") {
		return false
	}
	for _, fl := range fd.Type.Params.List {
		if t := p.TypesInfo.TypeOf(fl.Type); t != nil && strings.Contains(t.String(), "go/types.") {
			return true
		}
	}
	return false
}
