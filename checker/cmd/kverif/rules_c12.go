package main

import (
	"fmt"
	"go/ast"
	"go/constant"
	"go/token"
	"go/types"
	"sort"
	"strings"

	"golang.org/x/tools/go/ssa"
)

func init() {
	register(&propDef{
		id:  "C12",
		run: runC12,
		explanation: "Allocator discipline decided on the source of internal/kessoku for every request sequence: (1) 'returned => consulted and recorded': on every path of every VarPool method that returns a name, the returned value was looked up in the used-set with the zero (unused) edge leading to the return and is inserted non-zero before the return, or the method returns the result of another such method on the same receiver; all methods use one used-set field; " +
			"(2) the reserved lists contain every Go keyword (go/token) and every name of types.Universe, and NewVarPool seeds a non-zero count for each element; (3) ParseFile registers every package-level func, var/const and type name and every import's package name, the registration loops are not conditional on anything but nil checks, type switches, map de-duplication and the verified previous-output predicate, and both walks precede the search for Inject declarations; one pool is shared by all files of an invocation; " +
			"(4) the cached names of InjectorParam come from the allocator only.",
		notDecided:  "names bound by constants inside the emitted templates (eg, ctx, ch, zero, err) are rule C04.1/C04.2; that two *different* scopes may reuse a name is not a violation and is not examined.",
		assumptions: []string{"go/token keyword table and types.Universe of the checker's Go 1.26 toolchain are the reference lists", "map lookup of an absent key yields 0"},
	})
}

func runC12(c *Ctx) {
	L := c.L
	L.buildSSA()
	p := L.Pkgs[genPkg]
	sp := L.SSA[genPkg]
	if p == nil || sp == nil {
		c.undecided("C12.1", "internal/kessoku", "package not loaded")
		return
	}
	vp, _ := p.Types.Scope().Lookup("VarPool").(*types.TypeName)
	if vp == nil {
		c.undecided("C12.1", "VarPool", "type not found")
		return
	}
	named := vp.Type().(*types.Named)
	// ---- C12.1 / C12.2
	var methods []*ssa.Function
	for i := 0; i < named.NumMethods(); i++ {
		m := named.Method(i)
		sig := m.Type().(*types.Signature)
		if m.Exported() && sig.Results().Len() == 1 && types.Identical(sig.Results().At(0).Type(), types.Typ[types.String]) {
			if fn := L.Prog.FuncValue(m); fn != nil && fn.Blocks != nil {
				methods = append(methods, fn)
			}
		}
	}
	sort.Slice(methods, func(i, j int) bool { return methods[i].Name() < methods[j].Name() })
	allocating := map[*ssa.Function]bool{}
	usedField := map[string]bool{}
	isUsedSet := func(fn *ssa.Function, m ssa.Value) (string, bool) {
		u, ok := m.(*ssa.UnOp)
		if !ok || u.Op != token.MUL {
			return "", false
		}
		fa, ok := u.X.(*ssa.FieldAddr)
		if !ok || len(fn.Params) == 0 || fa.X != ssa.Value(fn.Params[0]) {
			return "", false
		}
		return fieldKey(fa), true
	}
	// fixpoint: methods that return only checked names
	pending := append([]*ssa.Function{}, methods...)
	verdict := map[*ssa.Function]string{}
	for round := 0; round < 4; round++ {
		for _, fn := range pending {
			if allocating[fn] {
				continue
			}
			okAll := true
			why := []string{}
			for _, r := range returnsOf(fn) {
				v := r.Results[0]
				// (a) delegating return
				if call, ok := v.(*ssa.Call); ok {
					if cal := call.Common().StaticCallee(); cal != nil && allocating[cal] && len(call.Common().Args) > 0 && call.Common().Args[0] == ssa.Value(fn.Params[0]) {
						why = append(why, fmt.Sprintf("block %d returns %s on the same pool", r.Block().Index, cal.Name()))
						continue
					}
				}
				// (b) consulted and recorded
				consulted, recorded := "", ""
				for _, b := range fn.Blocks {
					for _, in := range b.Instrs {
						switch x := in.(type) {
						case *ssa.Lookup:
							f, ok := isUsedSet(fn, x.X)
							if !ok || x.Index != v || x.Referrers() == nil {
								continue
							}
							usedField[f] = true
							for _, rr := range *x.Referrers() {
								// membership form: `_, used := set[name]; !used`
								if ex, isEx := rr.(*ssa.Extract); isEx && x.CommaOk && ex.Index == 1 && ex.Referrers() != nil {
									for _, r3 := range *ex.Referrers() {
										var iff *ssa.If
										neg := false
										switch y := r3.(type) {
										case *ssa.If:
											iff = y
										case *ssa.UnOp:
											if y.Op == token.NOT {
												for _, r4 := range *y.Referrers() {
													if i2, ok := r4.(*ssa.If); ok {
														iff, neg = i2, true
													}
												}
											}
										}
										if iff == nil {
											continue
										}
										unusedEdge, other := iff.Block().Succs[1], iff.Block().Succs[0]
										if neg {
											unusedEdge, other = other, unusedEdge
										}
										if (unusedEdge == r.Block() || unusedEdge.Dominates(r.Block())) && !reachableNoLoop(other, r.Block(), iff.Block()) {
											consulted = fmt.Sprintf("used-set membership test in block %d, unused edge -> block %d", b.Index, unusedEdge.Index)
										}
									}
									continue
								}
								bo, ok := rr.(*ssa.BinOp)
								if !ok || (bo.Op != token.EQL && bo.Op != token.NEQ) {
									continue
								}
								if z, ok := constInt(bo.Y); !ok || z != 0 {
									continue
								}
								for _, r3 := range *bo.Referrers() {
									iff, ok := r3.(*ssa.If)
									if !ok {
										continue
									}
									zero := iff.Block().Succs[0]
									other := iff.Block().Succs[1]
									if bo.Op == token.NEQ {
										zero, other = other, zero
									}
									if (zero == r.Block() || zero.Dominates(r.Block())) && !reachableNoLoop(other, r.Block(), iff.Block()) {
										consulted = fmt.Sprintf("used-set lookup in block %d, unused edge -> block %d", b.Index, zero.Index)
									}
								}
							}
						case *ssa.Call:
							// membership through a predicate method of the pool: p.isTaken(name) == (p.used[name] != 0)
							takenWhen, f, ok := membershipPredicate(x, fn)
							if !ok || len(x.Common().Args) < 2 || x.Common().Args[1] != v || x.Referrers() == nil {
								continue
							}
							usedField[f] = true
							for _, rr := range *x.Referrers() {
								var iff *ssa.If
								neg := false
								switch y := rr.(type) {
								case *ssa.If:
									iff = y
								case *ssa.UnOp:
									if y.Op == token.NOT && y.Referrers() != nil {
										for _, r4 := range *y.Referrers() {
											if i2, ok := r4.(*ssa.If); ok {
												iff, neg = i2, true
											}
										}
									}
								}
								if iff == nil {
									continue
								}
								// Succs[0] is taken when the tested value is true
								unusedEdge, other := iff.Block().Succs[1], iff.Block().Succs[0]
								if neg != !takenWhen {
									unusedEdge, other = other, unusedEdge
								}
								if (unusedEdge == r.Block() || unusedEdge.Dominates(r.Block())) && !reachableNoLoop(other, r.Block(), iff.Block()) {
									consulted = fmt.Sprintf("used-set membership predicate %s in block %d, unused edge -> block %d", x.Common().StaticCallee().Name(), b.Index, unusedEdge.Index)
								}
							}
						case *ssa.MapUpdate:
							f, ok := isUsedSet(fn, x.Map)
							if !ok || x.Key != v {
								continue
							}
							usedField[f] = true
							nz := false
							if n, ok := constInt(x.Value); ok && n != 0 {
								nz = true
							}
							if nz && instrDominates(x, r) {
								recorded = fmt.Sprintf("recorded non-zero in block %d", b.Index)
							}
						}
					}
				}
				if consulted != "" && recorded != "" {
					why = append(why, fmt.Sprintf("block %d: %s; %s", r.Block().Index, consulted, recorded))
				} else {
					okAll = false
					miss := []string{}
					if consulted == "" {
						miss = append(miss, "never looked up as unused")
					}
					if recorded == "" {
						miss = append(miss, "not recorded before the return")
					}
					why = append(why, fmt.Sprintf("return in block %d (%s): %s", r.Block().Index, describe(v), strings.Join(miss, ", ")))
				}
			}
			if okAll {
				allocating[fn] = true
			}
			verdict[fn] = strings.Join(why, " | ")
		}
	}
	for _, fn := range methods {
		c.seen(fnName(fn))
		c.check(allocating[fn], "C12.1", fnName(fn)+":returned-implies-consulted-and-recorded", L.pos(fn.Pos()),
			fmt.Sprintf("every name returned by VarPool.%s was found unused in the used-set and is recorded before it is handed out", fn.Name()), verdict[fn])
	}
	c.floor("C12.1", "VarPool methods returning a name", len(methods), 3)
	c.check(len(usedField) == 1, "C12.2", "VarPool:one-used-set", L.pos(vp.Pos()), "all allocating methods consult and update one and the same used-set field", fmt.Sprintf("%v", sortedKeys(usedField)))

	// the used-set only grows: nothing in the generator forgets a name (no delete / clear / replacement of the map, and no
	// entry is set back to zero) once the pool exists
	for f := range usedField {
		nShrink := 0
		for _, fn := range pkgFuncs(L, genPkg) {
			for _, b := range fn.Blocks {
				for _, in := range b.Instrs {
					switch x := in.(type) {
					case *ssa.Store:
						if fa, ok := x.Addr.(*ssa.FieldAddr); ok && fieldKey(fa) == f {
							// only the constructor installs the map
							isCtor := false
							if al, ok := fa.X.(*ssa.Alloc); ok && al.Parent() == fn {
								isCtor = true // &VarPool{vars: m} in the constructor
							}
							if !isCtor {
								nShrink++
								c.fail("C12.2", fnName(fn)+":used-set-replaced", L.pos(x.Pos()), "the used-set map is replaced after the pool was created: names handed out or reserved before are forgotten")
							}
						}
					case ssa.CallInstruction:
						bi, ok := x.Common().Value.(*ssa.Builtin)
						if !ok || (bi.Name() != "clear" && bi.Name() != "delete") || len(x.Common().Args) == 0 {
							continue
						}
						if ld, ok := x.Common().Args[0].(*ssa.UnOp); ok {
							if fa, ok := ld.X.(*ssa.FieldAddr); ok && fieldKey(fa) == f {
								nShrink++
								c.fail("C12.2", fnName(fn)+":used-set-shrinks", L.pos(x.Pos()), "the used-set is emptied or an entry is removed ("+bi.Name()+"): reserved words, package-level names and names already handed out can be allocated again")
							}
						}
					}
				}
			}
		}
		if nShrink == 0 {
			c.ok("C12.2", "the used-set "+f+" is never replaced, cleared or deleted from outside its constructor", "scan of every store/clear/delete in "+genPkg)
		}
	}

	// ---- C12.3 reserved lists
	lists := map[string][]string{}
	for _, f := range p.Syntax {
		ast.Inspect(f, func(n ast.Node) bool {
			vs, ok := n.(*ast.ValueSpec)
			if !ok {
				return true
			}
			for i, nm := range vs.Names {
				if (nm.Name == "goPredeclaredIdentifiers" || nm.Name == "goReservedKeywords") && i < len(vs.Values) {
					if cl, ok := vs.Values[i].(*ast.CompositeLit); ok {
						for _, e := range cl.Elts {
							if tv, ok := p.TypesInfo.Types[e]; ok && tv.Value != nil && tv.Value.Kind() == constant.String {
								lists[nm.Name] = append(lists[nm.Name], constant.StringVal(tv.Value))
							}
						}
					}
				}
			}
			return true
		})
	}
	all := map[string]bool{}
	for _, l := range lists {
		for _, s := range l {
			all[s] = true
		}
	}
	var missing []string
	nKw := 0
	for t := token.Token(0); t < token.Token(200); t++ {
		if t.IsKeyword() {
			nKw++
			if !all[t.String()] {
				missing = append(missing, "keyword "+t.String())
			}
		}
	}
	for _, n := range types.Universe.Names() {
		if !all[n] {
			missing = append(missing, "predeclared "+n)
		}
	}
	c.check(len(lists) == 2 && len(missing) == 0, "C12.3", "const:reserved-lists", "internal/kessoku/const.go", "the reserved lists contain every Go keyword and every predeclared identifier",
		fmt.Sprintf("%d keywords, %d universe names, lists hold %d names; missing: %v", nKw, len(types.Universe.Names()), len(all), missing))
	// NewVarPool seeds both lists
	if nvp := resolveRole(c, genPkg, "NewVarPool"); nvp != nil {
		c.seen(fnName(nvp))
		seeded := map[string]bool{}
		// the constructor itself or a helper only it uses (p.reserve(list[:])): the helper's parameter is read as the
		// argument of each call site
		fam := family(L, nvp)
		for _, g := range fam {
			for _, b := range g.Blocks {
				for _, in := range b.Instrs {
					mu, ok := in.(*ssa.MapUpdate)
					if !ok {
						continue
					}
					if n, ok := constInt(mu.Value); !ok || n == 0 {
						continue
					}
					s := newSym(L, map[string]bool{})
					terms := s.eval(mu.Key)
					if g != nvp {
						terms = liftParams(L, fam, g, terms)
					}
					for _, t := range terms {
						c.Notes = append(c.Notes, "NewVarPool seeds key "+t)
						for name := range lists {
							if strings.Contains(t, "global:"+genPkg+"."+name) {
								seeded[name] = true
							}
						}
					}
				}
			}
		}
		// the seeded map is the one stored into the pool's used-set field
		c.check(len(seeded) == 2, "C12.3", "NewVarPool:seeds-reserved", L.pos(nvp.Pos()), "NewVarPool marks every element of both reserved lists as used", fmt.Sprintf("seeded from %v", sortedKeys(seeded)))
	} else {
		c.undecided("C12.3", "NewVarPool", "function not found")
	}

	c12Registration(c, allocating)
	ruleDefaultNameFlagComputed(c, "C12.7")

	// ---- names cached on InjectorParam come from the allocator only
	nStores := 0
	for _, fn := range pkgFuncs(L, genPkg) {
		for _, b := range fn.Blocks {
			for _, in := range b.Instrs {
				st, ok := in.(*ssa.Store)
				if !ok {
					continue
				}
				fa, ok := st.Addr.(*ssa.FieldAddr)
				if !ok {
					continue
				}
				k := fieldKey(fa)
				if k != "internal/kessoku.InjectorParam.name" && k != "internal/kessoku.InjectorParam.channelName" {
					continue
				}
				nStores++
				call, _ := st.Val.(*ssa.Call)
				okA := call != nil && call.Common().StaticCallee() != nil && allocating[call.Common().StaticCallee()]
				c.check(okA, "C12.4", fnName(fn)+":"+k, L.pos(st.Pos()), "the identifier cached in "+k+" is the direct result of an allocating VarPool method", "stored value is "+describe(st.Val))
			}
		}
	}
	// *slot = allocate(t): the same store written once in a helper that receives the field's address and the allocator
	// method as arguments; each call site of the helper is one store
	for _, fn := range pkgFuncs(L, genPkg) {
		for _, b := range fn.Blocks {
			for _, in := range b.Instrs {
				st, ok := in.(*ssa.Store)
				if !ok {
					continue
				}
				slot, ok := st.Addr.(*ssa.Parameter)
				if !ok || slot.Parent() != fn {
					continue
				}
				slotIdx, allocIdx := paramIndex(fn, slot), -1
				if call, ok := st.Val.(*ssa.Call); ok {
					if ap, ok := call.Common().Value.(*ssa.Parameter); ok && ap.Parent() == fn {
						allocIdx = paramIndex(fn, ap)
					}
				}
				for _, g := range pkgFuncs(L, genPkg) {
					for _, cs := range callsIn(g) {
						if cal := cs.common.StaticCallee(); cal == nil || originOf(cal) != fn || slotIdx >= len(cs.common.Args) {
							continue
						}
						fa, ok := cs.common.Args[slotIdx].(*ssa.FieldAddr)
						if !ok {
							continue
						}
						k := fieldKey(fa)
						if k != "internal/kessoku.InjectorParam.name" && k != "internal/kessoku.InjectorParam.channelName" {
							continue
						}
						nStores++
						okA, what := false, "the stored value is not the result of a function handed in by the caller"
						if allocIdx >= 0 && allocIdx < len(cs.common.Args) {
							what = "the allocator argument is " + describe(cs.common.Args[allocIdx])
							if mc, ok := cs.common.Args[allocIdx].(*ssa.MakeClosure); ok {
								if bf, ok := mc.Fn.(*ssa.Function); ok && strings.HasPrefix(bf.Synthetic, "bound method wrapper") {
									if m, ok := bf.Object().(*types.Func); ok {
										if mf := L.Prog.FuncValue(m); mf != nil && allocating[mf] {
											okA = true
										}
									}
								}
							}
						}
						c.check(okA, "C12.4", fnName(g)+":"+k, L.pos(cs.instr.Pos()), "the identifier cached in "+k+" is the direct result of an allocating VarPool method", what)
					}
				}
			}
		}
	}
	c.floor("C12.4", "stores to InjectorParam.name/channelName", nStores, 2)
	ruleImportNamesFromPool(c, "C12.6")
}

// c12Registration: ParseFile's pre-registration walks.
func c12Registration(c *Ctx, allocating map[*ssa.Function]bool) {
	L := c.L
	pf := resolveRole(c, genPkg, "(*Parser).ParseFile")
	if pf == nil {
		c.undecided("C12.4", "ParseFile", "method not found")
		return
	}
	c.seen(fnName(pf))
	var find *ssa.Call
	for _, cs := range callsIn(pf) {
		if calleeIs(c, cs, genPkg, "(*Parser).findInjectDirectives") {
			find = cs.value()
		}
	}
	if find == nil {
		c.undecided("C12.5", "ParseFile:findInjectDirectives", "call not found")
		return
	}
	kinds := map[string]string{
		"func":   "go/ast.FuncDecl.Name(",
		"value":  "go/ast.ValueSpec.Names(",
		"type":   "go/ast.TypeSpec.Name(",
		"import": "golang.org/x/tools/go/packages.Package.Name(",
	}
	// registration sites: allocator calls in ParseFile itself or in helpers it hands its pool to (the chain of call sites
	// from ParseFile down to the allocator call is kept: guards anywhere on the chain count)
	type regSite struct {
		inner *ssa.Call   // the allocator call
		chain []*ssa.Call // chain[0] is the call in ParseFile (== inner when the allocator call is in ParseFile)
	}
	got := map[string]*regSite{}
	var search func(fn *ssa.Function, chain []*ssa.Call, depth int)
	search = func(fn *ssa.Function, chain []*ssa.Call, depth int) {
		for _, cs := range callsIn(fn) {
			callee := cs.common.StaticCallee()
			if callee == nil || cs.value() == nil {
				continue
			}
			if !allocating[callee] {
				// a module helper that receives the caller's own pool parameter
				if depth < 3 && callee.Pkg == pf.Pkg && len(callee.Blocks) > 0 {
					passesPool := false
					for _, a := range cs.common.Args {
						if p, isP := resolve(a).(*ssa.Parameter); isP && p.Parent() == fn && strings.HasSuffix(p.Type().String(), "internal/kessoku.VarPool") {
							passesPool = true
						}
					}
					if passesPool && callee != pf && !calleeIs(c, cs, genPkg, "(*Parser).findInjectDirectives") {
						c.seen(fnName(callee))
						search(callee, append(append([]*ssa.Call{}, chain...), cs.value()), depth+1)
					}
				}
				continue
			}
			if p, isP := resolve(cs.arg(0)).(*ssa.Parameter); !isP || p.Parent() != fn {
				continue // not the pool handed down from ParseFile
			}
			s := newSym(L, map[string]bool{})
			for _, t := range s.eval(cs.arg(1)) {
				c.Notes = append(c.Notes, "ParseFile allocator argument: "+t)
				for k, pat := range kinds {
					if strings.Contains(t, pat) && (k == "import" || strings.Contains(t, "go/ast.Ident.Name(")) {
						if k == "import" && !strings.Contains(t, "Package.Imports(") {
							continue
						}
						got[k] = &regSite{inner: cs.value(), chain: append(append([]*ssa.Call{}, chain...), cs.value())}
					}
				}
			}
		}
	}
	search(pf, nil, 0)
	for _, k := range []string{"func", "value", "type", "import"} {
		site := got[k]
		if !c.check(site != nil, "C12.4", "ParseFile:register-"+k, L.pos(pf.Pos()), "ParseFile registers every package-level "+k+" name with the allocator before any name is generated", "allocator call whose argument derives from "+kinds[k]+"...)") {
			continue
		}
		call := site.chain[0]
		// guards inside the helpers on the way down
		for _, lower := range site.chain[1:] {
			for _, iff := range controllingIfs(lower) {
				ok, why := c12AllowedGuard(c, iff.Cond)
				c.check(ok, "C12.4", fmt.Sprintf("ParseFile:register-%s:guard", k), L.pos(lower.Pos()),
					"registration of "+k+" names is unconditional (guards are nil checks, type switches, loop conditions, map de-duplication or the verified previous-output test)", why)
			}
		}
		// C12.5: before the search for declarations, never after
		c.check(reachableAfter(call, find) && !reachableAfter(find, call), "C12.5", "ParseFile:register-"+k+"-before-allocation", L.pos(call.Pos()),
			"registration of "+k+" names happens before Inject declarations are processed", "CFG reachability registration -> findInjectDirectives only")
		// guards between function entry and the registration call
		for _, iff := range controllingIfs(call) {
			ok, why := c12AllowedGuard(c, iff.Cond)
			c.check(ok, "C12.4", fmt.Sprintf("ParseFile:register-%s:guard", k), L.pos(call.Pos()),
				"registration of "+k+" names is unconditional (guards are nil checks, type switches, loop conditions, map de-duplication or the verified previous-output test)", why)
		}
		// the loop itself is not skipped: some block of the loop nest dominates the findInjectDirectives call's block
		hdr := outermostLoopHeader(call.Block())
		c.check(hdr != nil && hdr.Dominates(find.Block()), "C12.5", "ParseFile:register-"+k+"-loop-always-runs", L.pos(call.Pos()),
			"the walk that registers "+k+" names lies on every path to the declaration search", fmt.Sprintf("loop header block %v dominates block %d", hdrIndex(hdr), find.Block().Index))
	}
	// reservation priority: every package-level declaration (of every file) is reserved before the first name is handed out
	// for keeps (import names): no path leads from the import-name allocation back to a declaration reservation
	if imp := got["import"]; imp != nil {
		for _, k := range []string{"func", "value", "type"} {
			if d := got[k]; d != nil {
				c.check(!reachableAfter(imp.chain[0], d.chain[0]), "C12.5", "ParseFile:register-"+k+"-before-import-names", L.pos(d.chain[0].Pos()),
					"all package-level "+k+" names of all files are reserved before any import name is allocated (a later file's declaration must win over an earlier file's import alias)", "CFG: the import-name allocation cannot reach the "+k+" reservation")
			}
		}
	}
	// range operand of the walks is the package's full syntax
	// processFile: ParseFile before CreateInjector/Generate with one shared pool
	if proc := resolveRole(c, genPkg, "(*Processor).processFile"); proc != nil {
		c.seen(fnName(proc))
		var parse *ssa.Call
		for _, cs := range callsIn(proc) {
			if cs.common.StaticCallee() == pf {
				parse = cs.value()
			}
		}
		for _, cs := range callsIn(proc) {
			cal := cs.common.StaticCallee()
			if cal == nil || (cal.Name() != "CreateInjector" && cal.Name() != "Generate") {
				continue
			}
			c.check(parse != nil && instrDominates(parse, cs.instr), "C12.5", "processFile:ParseFile-before-"+cal.Name(), L.pos(cs.instr.Pos()), "names are registered (ParseFile) before "+cal.Name()+" allocates", "dominance")
			// same pool value
			s := newSym(L, map[string]bool{})
			poolTerm := ""
			for _, a := range cs.common.Args {
				if strings.Contains(a.Type().String(), "VarPool") {
					poolTerm = strings.Join(s.eval(a), "|")
				}
			}
			c.check(strings.Contains(poolTerm, "Processor.varPool("), "C12.2", "processFile:"+cal.Name()+":shared-pool", L.pos(cs.instr.Pos()), cal.Name()+" uses the processor's single pool (shared by all files of the invocation)", poolTerm)
		}
	}
}

func hdrIndex(b *ssa.BasicBlock) any {
	if b == nil {
		return "none"
	}
	return b.Index
}

// controllingIfs: the If instructions in blocks that strictly dominate the instruction's block.
func controllingIfs(in ssa.Instruction) []*ssa.If {
	var out []*ssa.If
	for b := in.Block().Idom(); b != nil; b = b.Idom() {
		if len(b.Instrs) == 0 {
			continue
		}
		if iff, ok := b.Instrs[len(b.Instrs)-1].(*ssa.If); ok {
			out = append(out, iff)
		}
	}
	return out
}

// outermostLoopHeader: the outermost loop (by dominator chain) containing b: a dominator of b that b can reach back to.
func outermostLoopHeader(b *ssa.BasicBlock) *ssa.BasicBlock {
	var hdr *ssa.BasicBlock
	for d := b; d != nil; d = d.Idom() {
		for _, s := range b.Succs {
			_ = s
		}
		if d != b && reachable(b, d) {
			hdr = d
		} else if d == b {
			for _, s := range b.Succs {
				if reachable(s, b) {
					hdr = b
				}
			}
		}
	}
	return hdr
}

// c12AllowedGuard classifies a branch condition on the way to a registration call.
func c12AllowedGuard(c *Ctx, cond ssa.Value) (bool, string) {
	switch x := cond.(type) {
	case *ssa.BinOp:
		if (x.Op == token.EQL || x.Op == token.NEQ) && (isNilConst(x.X) || isNilConst(x.Y)) {
			return true, "nil check"
		}
		if x.Op == token.LSS || x.Op == token.EQL || x.Op == token.NEQ {
			// range index loop `i < len`, or comparisons of strings computed from file names (target-file search happens in an earlier loop)
			if _, ok := x.Y.(*ssa.Call); ok || x.Op == token.LSS {
				return true, "loop bound"
			}
			if x.X.Type().String() == "int" {
				return true, "integer comparison (loop / length test)"
			}
		}
	case *ssa.Extract:
		switch t := x.Tuple.(type) {
		case *ssa.TypeAssert:
			return true, "type switch / assertion"
		case *ssa.Next:
			return true, "range loop"
		case *ssa.Lookup:
			// only the two import tables, keyed by the import path of the spec being registered
			mt := t.X.Type().String()
			if mt == "map[string]*"+genPkg+".Import" || mt == "map[string]*golang.org/x/tools/go/packages.Package" {
				ks := newSym(c.L, map[string]bool{})
				key := strings.Join(ks.eval(t.Index), "|")
				if strings.Contains(key, "go/ast.ImportSpec.Path(") || strings.Contains(key, `"`+modPath+`"`) {
					return true, "import table membership keyed by the import path"
				}
				return false, "registration depends on a lookup of " + key + " in " + mt
			}
			return false, "registration depends on membership in " + mt + " (" + describe(t.Index) + ")"
		}
	case *ssa.UnOp:
		if x.Op == token.NOT {
			return c12AllowedGuard(c, x.X)
		}
	case *ssa.Phi:
		for _, e := range x.Edges {
			if k, ok := e.(*ssa.Const); ok && k.Value != nil {
				continue
			}
			if ok, why := c12AllowedGuard(c, e); !ok {
				return false, why
			}
		}
		return true, "short-circuit of allowed tests"
	case *ssa.Call:
		// the previous-output predicate: a closure returning membership of the file's absolute path in a set whose
		// members are outputFileName(<absolute path of a syntax file of the package>)
		if ok, why := c12PreviousOutputPredicate(c, x); ok {
			return true, why
		} else if why != "" {
			return false, why
		}
	}
	return false, "registration depends on " + describe(cond)
}

func c12PreviousOutputPredicate(c *Ctx, call *ssa.Call) (bool, string) {
	L := c.L
	// the predicate as a named function or method that receives the set: pred(set, f)
	if cal := call.Common().StaticCallee(); cal != nil && len(cal.Blocks) > 0 && cal.Parent() == nil && cal.Pkg != nil && cal.Pkg.Pkg.Path() == genPkg {
		return c12PreviousOutputFunc(c, call, cal)
	}
	s := newSym(L, map[string]bool{})
	terms := s.eval(call.Common().Value)
	if len(terms) != 1 || !strings.HasPrefix(terms[0], "closure:") {
		return false, "registration is skipped by an unrecognised predicate " + strings.Join(terms, "|")
	}
	var cl *ssa.Function
	for fn := range L.NonTest {
		if "closure:"+fn.String() == terms[0] {
			cl = fn
		}
	}
	if cl == nil {
		return false, "predicate closure not found"
	}
	c.seen(fnName(cl))
	// every `true` result must come from a comma-ok lookup in a set...
	var setAlloc *ssa.Alloc
	okShape := false
	// what the predicate can return: constants and membership tests (through the phi of `err == nil && set[key]`)
	var results []ssa.Value
	for _, r := range returnsOf(cl) {
		if ph, isPhi := r.Results[0].(*ssa.Phi); isPhi {
			results = append(results, ph.Edges...)
		} else {
			results = append(results, r.Results[0])
		}
	}
	for _, v := range results {
		if k, ok := v.(*ssa.Const); ok && k.Value != nil && k.Value.String() == "false" {
			continue
		}
		var lk *ssa.Lookup
		if ex, ok := v.(*ssa.Extract); ok && ex.Index == 1 {
			lk, _ = ex.Tuple.(*ssa.Lookup)
		} else if l2, ok := v.(*ssa.Lookup); ok && !l2.CommaOk && strings.HasSuffix(l2.X.Type().String(), "]bool") {
			lk = l2 // a set kept as map[string]bool
		} else {
			return false, "the skip predicate can return true other than by set membership: " + describe(v)
		}
		if lk == nil {
			return false, "the skip predicate is not a set lookup"
		}
		// key: Abs(Position(f.Package).Filename) of the file parameter
		ks := newSym(L, map[string]bool{})
		key := strings.Join(ks.eval(lk.Index), "|")
		if !strings.HasPrefix(key, "path/filepath.Abs#0(") || !strings.Contains(key, "go/token.Position.Filename(") {
			return false, "the skip predicate looks up something other than the file's absolute path: " + key
		}
		if u, ok := lk.X.(*ssa.UnOp); ok {
			setAlloc = allocOf(u.X)
		} else if mm, ok := lk.X.(*ssa.MakeMap); ok {
			_ = mm
		}
		if fv, ok := lk.X.(*ssa.FreeVar); ok {
			_ = fv
		}
		if setAlloc == nil {
			// captured by value: the map itself is the free variable's binding
			if fv, ok := lk.X.(*ssa.FreeVar); ok {
				if b := freeVarBinding(fv); b != nil {
					if ok2, why := c12SetMembers(c, b); ok2 {
						okShape = true
						_ = why
						continue
					} else {
						return false, why
					}
				}
			}
			return false, "cannot identify the set the skip predicate consults"
		}
		if ok2, why := c12SetMembersOfAlloc(c, setAlloc); !ok2 {
			return false, why
		}
		okShape = true
	}
	if !okShape {
		return false, "the skip predicate has no recognisable membership test"
	}
	return true, "files skipped are exactly those named outputFileName(<a syntax file of the same package>)"
}

// c12SetMembers: every key inserted into the map value m is outputFileName(Abs(Position(f.Package).Filename)).
func c12SetMembers(c *Ctx, m ssa.Value) (bool, string) {
	L := c.L
	refs := m.Referrers()
	if refs == nil {
		return false, "set has no insertions"
	}
	n := 0
	for _, r := range *refs {
		mu, ok := r.(*ssa.MapUpdate)
		if !ok || mu.Map != m {
			continue
		}
		n++
		call, ok := mu.Key.(*ssa.Call)
		if !ok || call.Common().StaticCallee() == nil || call.Common().StaticCallee() != resolveRole(c, genPkg, "outputFileName") {
			return false, "a member of the skip set is not outputFileName(...): " + describe(mu.Key)
		}
		s := newSym(L, map[string]bool{})
		arg := strings.Join(s.eval(call.Common().Args[0]), "|")
		if !strings.HasPrefix(arg, "path/filepath.Abs#0(") || !strings.Contains(arg, "packages.Package.Syntax(") {
			return false, "skip-set member is not derived from a syntax file of the package: " + arg
		}
	}
	if n == 0 {
		return false, "set has no insertions"
	}
	return true, ""
}

// c12SetMembersOfAlloc: like c12SetMembers for a map held in a local variable that closures capture.
func c12SetMembersOfAlloc(c *Ctx, al *ssa.Alloc) (bool, string) {
	L := c.L
	n := 0
	for _, fn := range withClosures(al.Parent()) {
		for _, b := range fn.Blocks {
			for _, in := range b.Instrs {
				mu, ok := in.(*ssa.MapUpdate)
				if !ok {
					continue
				}
				u, ok := mu.Map.(*ssa.UnOp)
				if !ok || allocOf(u.X) != al {
					continue
				}
				n++
				call, ok := mu.Key.(*ssa.Call)
				if !ok || call.Common().StaticCallee() == nil || call.Common().StaticCallee() != resolveRole(c, genPkg, "outputFileName") {
					return false, "a member of the skip set is not outputFileName(...): " + describe(mu.Key)
				}
				s := newSym(L, map[string]bool{})
				arg := strings.Join(s.eval(call.Common().Args[0]), "|")
				if !strings.HasPrefix(arg, "path/filepath.Abs#0(") || !strings.Contains(arg, "packages.Package.Syntax(") {
					return false, "skip-set member is not derived from a syntax file of the package: " + arg
				}
			}
		}
	}
	if n == 0 {
		return false, "the skip set has no insertions"
	}
	// the output-name function itself appends a fixed suffix before the extension
	if ofn := resolveRole(c, genPkg, "outputFileName"); ofn != nil {
		s := newSym(L, map[string]bool{})
		t := strings.Join(s.evalFn(ofn, 0), "|")
		if !strings.Contains(t, "_band") || !strings.Contains(t, "path/filepath.Ext(param:") {
			return false, "outputFileName is not <name>_band<ext>: " + t
		}
	}
	return true, ""
}

// poolCallChains lists the calls of functions accepted by match that are made on the pool parameter of pf, in pf itself or in
// module helpers that pf hands that pool to (depth <= 3). Each result is the chain of call sites from pf down to the call.
func poolCallChains(c *Ctx, pf *ssa.Function, match func(*ssa.Function) bool) [][]*ssa.Call {
	var out [][]*ssa.Call
	var search func(fn *ssa.Function, chain []*ssa.Call, depth int)
	search = func(fn *ssa.Function, chain []*ssa.Call, depth int) {
		for _, cs := range callsIn(fn) {
			callee := cs.common.StaticCallee()
			if callee == nil || cs.value() == nil {
				continue
			}
			if match(callee) {
				if p, isP := resolve(cs.arg(0)).(*ssa.Parameter); isP && p.Parent() == fn {
					out = append(out, append(append([]*ssa.Call{}, chain...), cs.value()))
				}
				continue
			}
			if depth < 3 && callee.Pkg == pf.Pkg && len(callee.Blocks) > 0 && callee != pf && !calleeIs(c, cs, genPkg, "(*Parser).findInjectDirectives") {
				for _, a := range cs.common.Args {
					if p, isP := resolve(a).(*ssa.Parameter); isP && p.Parent() == fn && strings.HasSuffix(p.Type().String(), "internal/kessoku.VarPool") {
						search(callee, append(append([]*ssa.Call{}, chain...), cs.value()), depth+1)
						break
					}
				}
			}
		}
	}
	search(pf, nil, 0)
	return out
}

// c12PreviousOutputFunc: the skip predicate written as a function pred(..., set, ..., file): true only by membership of the
// file's absolute path in the set parameter, and the set handed in at the call site holds exactly the output names of the
// package's syntax files (built in place, or by a builder function applied to pkg.Syntax).
func c12PreviousOutputFunc(c *Ctx, call *ssa.Call, pred *ssa.Function) (bool, string) {
	L := c.L
	c.seen(fnName(pred))
	var setParam *ssa.Parameter
	for _, r := range returnsOf(pred) {
		v := r.Results[0]
		if k, ok := v.(*ssa.Const); ok && k.Value != nil && k.Value.String() == "false" {
			continue
		}
		ex, ok := resolve(v).(*ssa.Extract)
		if !ok || ex.Index != 1 {
			return false, "the skip predicate can return true other than by set membership: " + describe(v)
		}
		lk, ok := ex.Tuple.(*ssa.Lookup)
		if !ok {
			return false, "the skip predicate is not a set lookup"
		}
		ks := newSym(L, map[string]bool{})
		key := strings.Join(ks.eval(lk.Index), "|")
		if !strings.HasPrefix(key, "path/filepath.Abs#0(") || !strings.Contains(key, "go/token.Position.Filename(") {
			return false, "the skip predicate looks up something other than the file's absolute path: " + key
		}
		p, isP := resolve(lk.X).(*ssa.Parameter)
		if !isP || p.Parent() != pred {
			return false, "the set consulted by the skip predicate is not handed in by the caller"
		}
		setParam = p
	}
	if setParam == nil {
		return false, "the skip predicate has no recognisable membership test"
	}
	idx := -1
	for i, q := range pred.Params {
		if q == setParam {
			idx = i
		}
	}
	if idx < 0 || idx >= len(call.Common().Args) {
		return false, "cannot match the set parameter to an argument"
	}
	arg := resolve(call.Common().Args[idx])
	switch m := arg.(type) {
	case *ssa.MakeMap:
		return c12SetMembers(c, m)
	case *ssa.Call:
		b := m.Common().StaticCallee()
		if b == nil || len(b.Blocks) == 0 {
			return false, "the skip set comes from " + describe(m)
		}
		c.seen(fnName(b))
		// the builder is applied to the package's syntax files
		s := newSym(L, map[string]bool{})
		s.maxD = 0
		fromSyntax := false
		var filesParam *ssa.Parameter
		for i, a := range m.Common().Args {
			if strings.Contains(strings.Join(s.eval(a), "|"), "packages.Package.Syntax(") && i < len(b.Params) {
				fromSyntax = true
				filesParam = b.Params[i]
			}
		}
		if !fromSyntax {
			return false, "the skip set is not built from the package's syntax files"
		}
		n := 0
		for _, r := range returnsOf(b) {
			mm, ok := resolve(r.Results[0]).(*ssa.MakeMap)
			if !ok {
				return false, "the set builder returns " + describe(r.Results[0])
			}
			for _, rr := range *mm.Referrers() {
				mu, ok := rr.(*ssa.MapUpdate)
				if !ok || mu.Map != ssa.Value(mm) {
					continue
				}
				n++
				kc, ok := mu.Key.(*ssa.Call)
				if !ok || kc.Common().StaticCallee() == nil || kc.Common().StaticCallee() != resolveRole(c, genPkg, "outputFileName") {
					return false, "a member of the skip set is not outputFileName(...): " + describe(mu.Key)
				}
				at := strings.Join(s.eval(kc.Common().Args[0]), "|")
				if !strings.HasPrefix(at, "path/filepath.Abs#0(") || !strings.Contains(at, "index(param:"+filesParam.Name()+")") {
					return false, "skip-set member is not derived from an element of the files handed in: " + at
				}
			}
		}
		if n == 0 {
			return false, "the skip set has no insertions"
		}
		if ofn := resolveRole(c, genPkg, "outputFileName"); ofn != nil {
			t := strings.Join(newSym(L, map[string]bool{}).evalFn(ofn, 0), "|")
			if !strings.Contains(t, "_band") || !strings.Contains(t, "path/filepath.Ext(param:") {
				return false, "outputFileName is not <name>_band<ext>: " + t
			}
		}
		return true, "files skipped are exactly those named outputFileName(<a syntax file of the same package>) (set built by " + b.Name() + ")"
	}
	return false, "cannot identify the set the skip predicate consults: " + describe(arg)
}

// membershipPredicate: call is `pool.pred(name)` on caller's own pool where pred is a method with the single return
// `pool.used[name] != 0` (takenWhen = true), `== 0` (takenWhen = false) or the comma-ok flag of that lookup (true).
// Returns the used-set field key.
func membershipPredicate(call *ssa.Call, caller *ssa.Function) (takenWhen bool, field string, ok bool) {
	cal := call.Common().StaticCallee()
	if cal == nil || len(cal.Params) != 2 || len(call.Common().Args) != 2 || len(caller.Params) == 0 || call.Common().Args[0] != ssa.Value(caller.Params[0]) {
		return false, "", false
	}
	rs := returnsOf(cal)
	if len(rs) != 1 || len(rs[0].Results) != 1 || len(cal.Blocks) != 1 {
		return false, "", false
	}
	usedOf := func(lk *ssa.Lookup) (string, bool) {
		u, isU := lk.X.(*ssa.UnOp)
		if !isU || u.Op != token.MUL || lk.Index != ssa.Value(cal.Params[1]) {
			return "", false
		}
		fa, isF := u.X.(*ssa.FieldAddr)
		if !isF || fa.X != ssa.Value(cal.Params[0]) {
			return "", false
		}
		return fieldKey(fa), true
	}
	// no side effects in the predicate
	for _, in := range cal.Blocks[0].Instrs {
		switch in.(type) {
		case *ssa.Store, *ssa.MapUpdate, *ssa.Call, *ssa.Go, *ssa.Defer, *ssa.Send:
			return false, "", false
		}
	}
	switch x := rs[0].Results[0].(type) {
	case *ssa.BinOp:
		lk, isL := x.X.(*ssa.Lookup)
		if !isL || lk.CommaOk {
			return false, "", false
		}
		if z, isC := constInt(x.Y); !isC || z != 0 {
			return false, "", false
		}
		f, okU := usedOf(lk)
		if !okU {
			return false, "", false
		}
		switch x.Op {
		case token.NEQ, token.GTR:
			return true, f, true
		case token.EQL:
			return false, f, true
		}
	case *ssa.Extract:
		if lk, isL := x.Tuple.(*ssa.Lookup); isL && lk.CommaOk && x.Index == 1 {
			if f, okU := usedOf(lk); okU {
				return true, f, true
			}
		}
	}
	return false, "", false
}
