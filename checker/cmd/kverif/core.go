package main

import (
	"encoding/json"
	"fmt"
	"os"
	"path/filepath"
	"sort"
	"strconv"
	"strings"
	"time"
)

func verifRoot() string {
	if r := os.Getenv("VERIF_ROOT"); r != "" {
		return r
	}
	return "/verif"
}

// Finding is one report: a rule instance that does not hold (or could not be decided).
type Finding struct {
	Property  string   `json:"property"`
	Rule      string   `json:"rule"`
	Construct string   `json:"construct"` // stable key: function + slot, never a line number
	Pos       string   `json:"pos"`
	Msg       string   `json:"msg"`
	Detail    []string `json:"detail,omitempty"`
	Undecided bool     `json:"undecided,omitempty"`
	Known     bool     `json:"known,omitempty"`
}

// Obligation is one rule instance that was examined.
type Obligation struct {
	Rule       string `json:"rule"`
	Desc       string `json:"desc"`
	Witness    string `json:"witness,omitempty"`
	OK         bool   `json:"ok"`
	Nontrivial bool   `json:"nontrivial"`
}

type KnownFinding struct {
	Property      string `json:"property"`
	Rule          string `json:"rule"`
	Construct     string `json:"construct"`
	WhatFails     string `json:"what_fails"`
	Demonstration string `json:"demonstration"`
}

type knownFile struct {
	Findings []KnownFinding `json:"findings"`
	Fixed    []string       `json:"fixed"`
}

// Ctx carries the state of one property check.
type Ctx struct {
	Prop        string
	Tier        string
	L           *Loaded
	Obls        []Obligation
	Finds       []Finding
	Samples     []any
	Notes       []string
	Programs    int
	Exhaustive  bool
	FuncsSeen   map[string]bool
	Explanation string
	NotDecided  string
	Assumptions []string
	Extra       map[string]any
	RoleNames   map[string]string
	start       time.Time
}

func (c *Ctx) seen(fn string) { c.FuncsSeen[fn] = true }

// ok records a discharged obligation. witness describes why (path, slice, dominator fact).
func (c *Ctx) ok(rule, desc, witness string) {
	c.Obls = append(c.Obls, Obligation{Rule: rule, Desc: desc, Witness: witness, OK: true, Nontrivial: witness != ""})
}

// fail records a violated obligation.
func (c *Ctx) fail(rule, construct, pos, msg string, detail ...string) {
	c.Obls = append(c.Obls, Obligation{Rule: rule, Desc: msg, OK: false, Nontrivial: true})
	c.Finds = append(c.Finds, Finding{Property: c.Prop, Rule: rule, Construct: construct, Pos: pos, Msg: msg, Detail: detail})
}

// undecided: fail closed when an anchor does not resolve or a construct is not understood.
func (c *Ctx) undecided(rule, construct, why string) {
	c.Obls = append(c.Obls, Obligation{Rule: rule, Desc: "UNDECIDED: " + why, OK: false, Nontrivial: true})
	c.Finds = append(c.Finds, Finding{Property: c.Prop, Rule: rule, Construct: construct, Pos: "-", Msg: "UNDECIDED: " + why, Undecided: true})
}

// check is ok/fail in one call.
func (c *Ctx) check(cond bool, rule, construct, pos, desc, witness string) bool {
	if cond {
		c.ok(rule, desc, witness)
	} else {
		c.fail(rule, construct, pos, "violated: "+desc, witness)
	}
	return cond
}

// floor enforces the instance count confirmed by hand on the pinned tree.
func (c *Ctx) floor(rule, what string, found, min int) {
	if found < min {
		c.undecided(rule, rule+":floor:"+what, fmt.Sprintf("found %d instances of %s, expected at least %d (anchors moved?)", found, what, min))
	} else {
		c.ok(rule, fmt.Sprintf("instance floor for %s: found %d >= %d", what, found, min), "")
	}
}

func (c *Ctx) sample(v any) {
	if len(c.Samples) < 12 {
		c.Samples = append(c.Samples, v)
	}
}

func loadKnown() (*knownFile, error) {
	b, err := os.ReadFile(filepath.Join(verifRoot(), "known_findings.json"))
	if err != nil {
		if os.IsNotExist(err) {
			return &knownFile{}, nil
		}
		return nil, err
	}
	var k knownFile
	if err := json.Unmarshal(b, &k); err != nil {
		return nil, fmt.Errorf("known_findings.json: %w", err)
	}
	return &k, nil
}

type evidence struct {
	PropertyID  string         `json:"property_id"`
	Tier        string         `json:"tier"`
	Seed        int            `json:"seed"`
	Level       string         `json:"level"`
	Coverage    map[string]any `json:"coverage"`
	Assumptions []string       `json:"assumptions"`
	WallS       float64        `json:"wall_s"`
	Violations  int            `json:"violations"`
}

// finish prints the verdict lines, writes evidence and replay files, and returns the exit code.
func (c *Ctx) finish(writeEvidence bool) int {
	known, err := loadKnown()
	if err != nil {
		fmt.Println("ERROR:", err)
		known = &knownFile{}
		c.undecided(c.Prop+".0", "known_findings.json", err.Error())
	}
	// de-duplicate findings by rule+construct
	sort.SliceStable(c.Finds, func(i, j int) bool {
		if c.Finds[i].Rule != c.Finds[j].Rule {
			return ruleLess(c.Finds[i].Rule, c.Finds[j].Rule)
		}
		return c.Finds[i].Construct < c.Finds[j].Construct
	})
	var uniq []Finding
	seen := map[string]bool{}
	for _, f := range c.Finds {
		k := f.Rule + "\x00" + f.Construct
		if seen[k] {
			continue
		}
		seen[k] = true
		uniq = append(uniq, f)
	}
	c.Finds = uniq

	violations := 0
	knownPrinted := []string{}
	replayDir := filepath.Join(verifRoot(), "evidence", "replay")
	if writeEvidence {
		_ = os.MkdirAll(replayDir, 0o755)
		old, _ := filepath.Glob(filepath.Join(replayDir, c.Prop+"-*.json"))
		for _, o := range old {
			_ = os.Remove(o)
		}
	}
	for i := range c.Finds {
		f := &c.Finds[i]
		if !f.Undecided {
			for _, k := range known.Findings {
				if k.Property == f.Property && k.Rule == f.Rule && k.Construct == f.Construct {
					f.Known = true
					line := fmt.Sprintf("KNOWN-FINDING: property=%s rule=%s construct=%q %s", f.Property, f.Rule, f.Construct, k.WhatFails)
					fmt.Println(line)
					knownPrinted = append(knownPrinted, line)
					break
				}
			}
		}
		if f.Known {
			continue
		}
		violations++
		rp := filepath.Join(replayDir, fmt.Sprintf("%s-%d.json", c.Prop, violations))
		if writeEvidence {
			b, _ := json.MarshalIndent(map[string]any{
				"finding": f,
				"explain": "bin/kverif explain " + rp,
				"tier":    c.Tier,
			}, "", " ")
			_ = os.WriteFile(rp, b, 0o644)
		}
		fmt.Printf("REPORT rule=%s at %s construct=%q: %s\n", f.Rule, f.Pos, f.Construct, f.Msg)
		for _, d := range f.Detail {
			if d != "" {
				fmt.Println("    " + d)
			}
		}
		fmt.Printf("VIOLATION property=%s replay=%s\n", c.Prop, rp)
	}

	// a known finding that no longer reproduces is worth a note (not an error: the defect may have been repaired)
	for _, k := range known.Findings {
		if k.Property != c.Prop {
			continue
		}
		hit := false
		for _, f := range c.Finds {
			if f.Known && f.Rule == k.Rule && f.Construct == k.Construct {
				hit = true
			}
		}
		if !hit {
			fmt.Printf("NOTE: known finding rule=%s construct=%q did not reproduce on this tree\n", k.Rule, k.Construct)
		}
	}

	discharged, nontrivial := 0, map[string]bool{}
	for _, o := range c.Obls {
		if o.OK {
			discharged++
		}
		if o.Nontrivial {
			nontrivial[o.Rule+"|"+o.Desc] = true
		}
	}
	wall := time.Since(c.start).Seconds()
	fmt.Printf("SUMMARY property=%s tier=%s obligations=%d discharged=%d known_findings=%d violations=%d functions=%d wall=%.1fs\n",
		c.Prop, c.Tier, len(c.Obls), discharged, len(knownPrinted), violations, len(c.FuncsSeen), wall)

	if writeEvidence {
		seed, _ := strconv.Atoi(os.Getenv("VERIF_SEED"))
		fns := []string{}
		for f := range c.FuncsSeen {
			fns = append(fns, f)
		}
		sort.Strings(fns)
		rules := map[string][2]int{}
		for _, o := range c.Obls {
			r := rules[o.Rule]
			r[0]++
			if o.OK {
				r[1]++
			}
			rules[o.Rule] = r
		}
		ruleSummary := []string{}
		for r, n := range rules {
			ruleSummary = append(ruleSummary, fmt.Sprintf("%s: %d/%d", r, n[1], n[0]))
		}
		sort.Slice(ruleSummary, func(i, j int) bool { return ruleLess(ruleSummary[i], ruleSummary[j]) })
		samples := c.Samples
		if len(samples) == 0 {
			for _, o := range c.Obls {
				if o.Nontrivial && len(samples) < 8 {
					samples = append(samples, o)
				}
			}
		}
		if len(samples) == 0 {
			samples = append(samples, "no obligations were generated")
		}
		cov := map[string]any{
			"explanation":         c.Explanation + " NOT DECIDED: " + c.NotDecided,
			"obligations":         len(c.Obls),
			"discharged":          discharged,
			"evaluations":         len(c.Obls),
			"distinct_nontrivial": len(nontrivial),
			"rule":                "one evaluation per rule instance (a call site, path, slot, table row or generated function the rule quantifies over); non-trivial = the instance needed a witness (dominator/path, value-origin slice, table comparison) rather than a bare count; distinct by rule id + description",
			"samples":             samples,
			"per_rule":            ruleSummary,
			"functions_analysed":  fns,
			"programs":            c.Programs,
			"exhaustive":          c.Exhaustive,
			"known_findings":      knownPrinted,
			"undecided":           countUndecided(c.Finds),
			"notes":               c.Notes,
			"repo":                c.L.Repo,
			"checker_cmd":         "bin/kverif check " + c.Prop + " --tier " + c.Tier,
			"trusted_base":        c.Assumptions,
		}
		for k, v := range c.Extra {
			cov[k] = v
		}
		ev := evidence{PropertyID: c.Prop, Tier: c.Tier, Seed: seed, Level: "other", Coverage: cov, Assumptions: c.Assumptions, WallS: wall, Violations: violations}
		b, _ := json.MarshalIndent(ev, "", " ")
		_ = os.MkdirAll(filepath.Join(verifRoot(), "evidence"), 0o755)
		if err := os.WriteFile(filepath.Join(verifRoot(), "evidence", c.Prop+".json"), b, 0o644); err != nil {
			fmt.Println("ERROR writing evidence:", err)
			return 2
		}
	}
	if violations > 0 {
		return 1
	}
	return 0
}

func countUndecided(fs []Finding) int {
	n := 0
	for _, f := range fs {
		if f.Undecided {
			n++
		}
	}
	return n
}

// ruleLess orders "C04.10" after "C04.9".
func ruleLess(a, b string) bool {
	pa, pb := strings.SplitN(a, ":", 2)[0], strings.SplitN(b, ":", 2)[0]
	sa, sb := strings.SplitN(pa, ".", 2), strings.SplitN(pb, ".", 2)
	if sa[0] != sb[0] {
		return sa[0] < sb[0]
	}
	if len(sa) < 2 || len(sb) < 2 {
		return a < b
	}
	na, ea := strconv.Atoi(strings.TrimRight(sa[1], "abcdefghijklmnopqrstuvwxyz "))
	nb, eb := strconv.Atoi(strings.TrimRight(sb[1], "abcdefghijklmnopqrstuvwxyz "))
	if ea != nil || eb != nil || na == nb {
		return a < b
	}
	return na < nb
}
