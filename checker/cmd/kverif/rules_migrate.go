package main

import (
	"bytes"
	"fmt"
	"go/ast"
	"go/format"
	"go/parser"
	"go/token"
	"go/types"
	"os"
	"path/filepath"
	"sort"
	"strings"

	"golang.org/x/tools/go/ssa"
)

func init() {
	register(&propDef{
		id:  "C13",
		run: runC13,
		explanation: "Narrow claim: equality with what google/wire builds is not decidable from /repo (wire's resolution is not source here and the property ranges over runtime values). Decided necessary conditions: (1) construct coverage - the selector switch of the wire parser handles exactly the documented constructs, every WirePattern implementer is a case of Transform and (except Build) of transformElements, every KessokuPattern the transformer can produce is a case of the writer and of the import collector; (2) provider provenance - the function expression of every kessoku.Provide comes from the wire file's own syntax or is a function literal synthesised from a struct type, never an identifier synthesised from a string; " +
			"(3) the one by-name constructor lookup (Bind) is confined to the implementation type's own package; (4) all type-keyed tables of the transformer use a path-qualified key, so same-named types of different packages are never confused.",
		notDecided:  "that the migrated injector computes what wire's injector computes (needs wire's semantics and runtime values); which provider wire would pick for a Bind; argument sets and error behaviour of the two injectors.",
		assumptions: []string{"the documented construct list of the property statement", "types.Type.String() qualifies named types by import path"},
	})
	register(&propDef{
		id:  "C14",
		run: runC14,
		explanation: "Rules over internal/migrate: (1) nothing is written on failure - the single filesystem mutator (os.WriteFile) is dominated by the success edge of format.Node, and in MigrateFiles the write is dominated by the success edges of the load-error check, Transform and mergeResults with no fallible step after it; (2) the bytes written are the constant header plus format.Node's output; (3) map-order lint over the package (the one escaping iteration, TypeConverter.Imports, is a table entry whose premise - the only consumer sorts by path - is re-verified); (4) alias bookkeeping - every name AddImport returns is either the recorded name of that path or a name found unused and recorded for both maps first; every package qualifier the migrator invents is AddImport's result; " +
			"(5) the contradiction rule on the two ways of naming an import (types.Package.Name vs last path element); (6) duplicate set names and mixed packages are refused before anything is generated. CO: the checked-in migration goldens are gofmt-stable and every import they declare is used.",
		notDecided:  "gofmt-stability and compilability of an arbitrary migrated file; behaviour of go/packages on broken inputs.",
		assumptions: []string{"go/format.Node output is gofmt-stable", "os.WriteFile writes the given bytes or fails"},
	})
}

// implementersOf lists the named types of pkg whose pointer implements the interface named ifaceName.
func implementersOf(L *Loaded, pkgPath, ifaceName string) []string {
	p := L.Pkgs[pkgPath]
	if p == nil {
		return nil
	}
	tn, _ := p.Types.Scope().Lookup(ifaceName).(*types.TypeName)
	if tn == nil {
		return nil
	}
	it := tn.Type().Underlying().(*types.Interface)
	var out []string
	for _, n := range p.Types.Scope().Names() {
		o, ok := p.Types.Scope().Lookup(n).(*types.TypeName)
		if !ok || o == tn {
			continue
		}
		if _, isI := o.Type().Underlying().(*types.Interface); isI {
			continue
		}
		if types.Implements(types.NewPointer(o.Type()), it) {
			out = append(out, n)
		}
	}
	sort.Strings(out)
	return out
}

// typeSwitchCases: the type names handled by the first type switch in the named function/method.
func typeSwitchCases(L *Loaded, pkgPath, recv, name string) (map[string]bool, bool) {
	fd, p := L.funcDecl(pkgPath, recv, name)
	if fd == nil {
		return nil, false
	}
	cases := map[string]bool{}
	found := false
	objOf := func(e ast.Expr) types.Object {
		if id, ok := ast.Unparen(e).(*ast.Ident); ok {
			return p.TypesInfo.ObjectOf(id)
		}
		return nil
	}
	switchOperand := func(ts *ast.TypeSwitchStmt) ast.Expr {
		var e ast.Expr
		switch a := ts.Assign.(type) {
		case *ast.AssignStmt:
			if len(a.Rhs) == 1 {
				e = a.Rhs[0]
			}
		case *ast.ExprStmt:
			e = a.X
		}
		if ta, ok := ast.Unparen(e).(*ast.TypeAssertExpr); ok {
			return ta.X
		}
		return nil
	}
	addImplementers := func(it *types.Interface) {
		for _, nm := range p.Types.Scope().Names() {
			tn, ok := p.Types.Scope().Lookup(nm).(*types.TypeName)
			if !ok {
				continue
			}
			if _, isIface := tn.Type().Underlying().(*types.Interface); isIface {
				continue
			}
			if types.Implements(types.NewPointer(tn.Type()), it) || types.Implements(tn.Type(), it) {
				cases[tn.Name()] = true
				found = true
			}
		}
	}
	type key struct {
		fd  *ast.FuncDecl
		sub types.Object
	}
	seen := map[key]bool{}
	// scan: the cases under which fd handles the value `subject` (nil at the entry: the operand of its first type switch)
	var scan func(fd *ast.FuncDecl, subject types.Object, depth int)
	scan = func(fd *ast.FuncDecl, subject types.Object, depth int) {
		if fd == nil || fd.Body == nil || seen[key{fd, subject}] || depth > 3 {
			return
		}
		seen[key{fd, subject}] = true
		ast.Inspect(fd.Body, func(n ast.Node) bool {
			switch x := n.(type) {
			case *ast.TypeSwitchStmt:
				op := objOf(switchOperand(x))
				if subject == nil && depth == 0 && op != nil {
					subject = op
				}
				if op == nil || op != subject {
					return true
				}
				found = true
				for _, st := range x.Body.List {
					for _, e := range st.(*ast.CaseClause).List {
						t := p.TypesInfo.TypeOf(e)
						if pt, ok := t.(*types.Pointer); ok {
							if nt, ok := pt.Elem().(*types.Named); ok {
								cases[nt.Obj().Name()] = true
							}
						}
					}
				}
			case *ast.TypeAssertExpr:
				// dispatch through a small interface of the package: every implementer is handled by its own method
				if x.Type == nil {
					return true
				}
				op := objOf(x.X)
				if subject == nil && depth == 0 && op != nil {
					if _, isParam := op.(*types.Var); isParam && fd.Type.Params != nil {
						for _, fl := range fd.Type.Params.List {
							for _, nm := range fl.Names {
								if p.TypesInfo.Defs[nm] == op {
									subject = op
								}
							}
						}
					}
				}
				if op == nil || op != subject {
					return true
				}
				if it, ok := p.TypesInfo.TypeOf(x.Type).Underlying().(*types.Interface); ok && it.NumMethods() > 0 {
					if nt, isN := p.TypesInfo.TypeOf(x.Type).(*types.Named); isN && nt.Obj().Pkg() != nil && nt.Obj().Pkg().Path() == pkgPath {
						addImplementers(it)
					}
				}
			case *ast.CallExpr:
				// the rest of the cases may live in a helper of the same package that receives the value itself
				if subject == nil {
					return true
				}
				callee := calleeDecl(p, x)
				if callee == nil || callee.Type.Params == nil {
					return true
				}
				for i, a := range x.Args {
					if objOf(a) != subject {
						continue
					}
					k := 0
					for _, fl := range callee.Type.Params.List {
						for _, nm := range fl.Names {
							if k == i {
								scan(callee, p.TypesInfo.Defs[nm], depth+1)
							}
							k++
						}
					}
				}
			}
			return true
		})
	}
	scan(fd, nil, 0)
	return cases, found
}

func migFuncs(L *Loaded) []*ssa.Function { return pkgFuncs(L, migPkg) }

func runC13(c *Ctx) {
	L := c.L
	L.buildSSA()
	p := L.Pkgs[migPkg]
	if p == nil {
		c.undecided("C13.1", "internal/migrate", "package not loaded")
		return
	}
	// ---- C13.1 construct coverage
	documented := []string{"NewSet", "Bind", "Value", "InterfaceValue", "Struct", "FieldsOf", "Build"}
	fd, _ := L.funcDecl(migPkg, "Parser", "parseCallExpr")
	if fd == nil {
		c.undecided("C13.1", "parseCallExpr", "not found")
	} else {
		got := map[string]bool{}
		// the switch over the construct's name: a switch on a string whose cases are string constants (the name may be
		// taken from the selector in place or by a helper); with several, the one that knows most documented constructs
		ast.Inspect(fd.Body, func(n ast.Node) bool {
			sw, ok := n.(*ast.SwitchStmt)
			if !ok || sw.Tag == nil {
				return true
			}
			if t := p.TypesInfo.TypeOf(sw.Tag); t == nil || t.Underlying().String() != "string" {
				return true
			}
			cand := map[string]bool{}
			for _, st := range sw.Body.List {
				for _, e := range st.(*ast.CaseClause).List {
					if tv, ok := p.TypesInfo.Types[e]; ok && tv.Value != nil {
						cand[strings.Trim(tv.Value.ExactString(), `"`)] = true
					}
				}
			}
			score := func(m map[string]bool) int {
				k := 0
				for _, d := range documented {
					if m[d] {
						k++
					}
				}
				return k
			}
			if score(cand) > score(got) {
				got = cand
			}
			return true
		})
		for _, d := range documented {
			c.check(got[d], "C13.1", "parseCallExpr:case:"+d, L.pos(fd.Pos()), "the wire construct "+d+" is recognised by the parser", fmt.Sprintf("cases: %v", sortedKeys(got)))
		}
		for g := range got {
			known := false
			for _, d := range documented {
				if d == g {
					known = true
				}
			}
			c.check(known, "C13.1", "parseCallExpr:undocumented:"+g, L.pos(fd.Pos()), "the parser handles only documented constructs", g)
		}
	}
	wires := implementersOf(L, migPkg, "WirePattern")
	kess := implementersOf(L, migPkg, "KessokuPattern")
	c.floor("C13.1", "WirePattern implementers", len(wires), 9)
	c.floor("C13.1", "KessokuPattern implementers", len(kess), 6)
	tr, ok1 := typeSwitchCases(L, migPkg, "Transformer", "Transform")
	teName := "transformElements"
	if fn := resolveRole(c, migPkg, "(*Transformer).transformElements"); fn != nil {
		teName = fn.Name()
	}
	te, ok2 := typeSwitchCases(L, migPkg, "Transformer", teName)
	if !ok1 || !ok2 {
		c.undecided("C13.1", "Transform/transformElements", "type switches not found")
	} else {
		for _, w := range wires {
			c.check(tr[w], "C13.1", "Transform:case:"+w, "-", "top-level pattern "+w+" is transformed (not silently dropped)", fmt.Sprintf("cases %v", sortedKeys(tr)))
			if w != "WireBuild" {
				c.check(te[w], "C13.1", "transformElements:case:"+w, "-", "set/build element "+w+" is transformed (not silently dropped)", fmt.Sprintf("cases %v", sortedKeys(te)))
			}
		}
	}
	pe, ok3 := typeSwitchCases(L, migPkg, "Writer", "patternToExpr")
	pd, ok4 := typeSwitchCases(L, migPkg, "Writer", "PatternToDecl")
	ci, ok5 := typeSwitchCases(L, migPkg, "TypeConverter", "CollectPatternImports")
	if !ok3 || !ok4 || !ok5 {
		c.undecided("C13.1", "writer switches", "type switches not found")
	} else {
		for _, k := range kess {
			c.check(pe[k] || pd[k], "C13.1", "Writer:case:"+k, "-", "the writer emits "+k+" (no placeholder nil)", fmt.Sprintf("patternToExpr %v, PatternToDecl %v", sortedKeys(pe), sortedKeys(pd)))
			c.check(ci[k], "C13.1", "CollectPatternImports:case:"+k, "-", "imports used inside "+k+" are collected", fmt.Sprintf("cases %v", sortedKeys(ci)))
		}
		// element kinds the transformer can produce are expression cases
		for _, fn := range migFuncs(L) {
			if fn != resolveRole(c, migPkg, "(*Transformer).transformElements") {
				continue
			}
			for _, a := range appendsIn(L, fn) {
				if elems, ok := variadicElems(a.call.Common().Args[1]); ok {
					for _, e := range elems {
						t := e.Type()
						if mi, ok := e.(*ssa.MakeInterface); ok {
							t = mi.X.Type()
						}
						if pt, ok := t.(*types.Pointer); ok {
							if nt, ok := pt.Elem().(*types.Named); ok {
								c.check(pe[nt.Obj().Name()], "C13.1", "patternToExpr:element:"+nt.Obj().Name(), L.pos(a.call.Pos()), "element kind "+nt.Obj().Name()+" produced by transformElements has an expression case in the writer", "append in transformElements")
							}
						}
					}
				}
			}
		}
	}

	// ---- C13.1 (round 16): a set's elements are flattened into their parent, so whichever pass over a list of
	// wire patterns looks at wire.Bind elements also descends into inline wire.NewSet elements (C13-m31)
	nBindPasses := 0
	for _, fn := range migFuncs(L) {
		asserted := map[string]bool{}
		var at ssa.Instruction
		for _, b := range fn.Blocks {
			for _, in := range b.Instrs {
				ta, ok := in.(*ssa.TypeAssert)
				if !ok {
					continue
				}
				xn, ok := ta.X.Type().(*types.Named)
				if !ok || xn.Obj().Name() != "WirePattern" || xn.Obj().Pkg() == nil || xn.Obj().Pkg().Path() != p.Types.Path() {
					continue
				}
				// only a pass over a *list* of patterns is concerned: the asserted value is an element read out of a slice
				// (a helper that transforms one leaf pattern handed to it leaves the descent to its caller)
				if u, isU := ta.X.(*ssa.UnOp); !isU {
					continue
				} else if _, isIdx := u.X.(*ssa.IndexAddr); !isIdx {
					continue
				}
				if pt, ok := ta.AssertedType.(*types.Pointer); ok {
					if nt, ok := pt.Elem().(*types.Named); ok {
						asserted[nt.Obj().Name()] = true
						if nt.Obj().Name() == "WireBind" && at == nil {
							at = in
						}
					}
				}
			}
		}
		if !asserted["WireBind"] {
			continue
		}
		nBindPasses++
		c.seen(fnName(fn))
		c.check(asserted["WireNewSet"], "C13.1", fnName(fn)+":bind-pass-descends-into-inline-sets", L.pos(at.Pos()), "a pass over wire patterns that looks at wire.Bind elements also has a case for inline wire.NewSet elements (their bindings belong to the enclosing set)", fmt.Sprintf("cases %v", sortedKeys(asserted)))
	}
	c.floor("C13.1", "passes over lists of wire patterns that look at Bind elements", nBindPasses, 1)

	// ---- C13.2 provider provenance
	nProv := 0
	for _, st := range storesToField(migFuncs(L), "internal/migrate.KessokuProvide.FuncExpr") {
		nProv++
		fn := st.Parent()
		c.seen(fnName(fn))
		s := newSym(L, map[string]bool{})
		s.maxD = 1
		ts := s.eval(st.Val)
		for _, t := range ts {
			switch {
			case strings.HasPrefix(t, "field:internal/migrate.WireProviderFunc.Expr("):
				c.ok("C13.2", fnName(fn)+": provider expression is copied from the wire file", t)
			case strings.Contains(t, "go/ast.FuncLit") || strings.Contains(t, "buildStructConstructor(") || strings.Contains(t, "buildFieldAccessor("):
				c.ok("C13.2", fnName(fn)+": provider is a function literal synthesised from the struct type", t)
			default:
				c.fail("C13.2", "KessokuProvide.FuncExpr:identifier-synthesised-from-string", L.pos(st.Pos()),
					"the provider of a kessoku.Provide is an identifier synthesised from a string instead of the provider the wire set contains: wire uses whichever provider in the set returns the bound type, the migrator looks up \"New\"+TypeName by name", t)
			}
		}
	}
	c.floor("C13.2", "stores to KessokuProvide.FuncExpr", nProv, 4)

	ruleBindConstructor(c, "C13.3")

	// ---- C13.4 type keys
	migTypeKeys(c, "C13.4")
	ruleTypeIdentity(c, "C13.4", migPkg)
	ruleMigrateRound2(c)
}

// migTypeKeys: every string-keyed table of internal/migrate whose key is derived from a types.Type uses a
// path-qualified rendering.
func migTypeKeys(c *Ctx, rule string) {
	L := c.L
	n := 0
	for _, fn := range migFuncs(L) {
		for _, b := range fn.Blocks {
			for _, in := range b.Instrs {
				var key ssa.Value
				switch x := in.(type) {
				case *ssa.MapUpdate:
					key = x.Key
				case *ssa.Lookup:
					if _, isMap := x.X.Type().Underlying().(*types.Map); isMap {
						key = x.Index
					}
				case *ssa.Call:
					if bi, ok := x.Common().Value.(*ssa.Builtin); ok && bi.Name() == "delete" {
						key = x.Common().Args[1]
					}
				}
				if key == nil || !types.Identical(key.Type().Underlying(), types.Typ[types.String]) {
					continue
				}
				s := newSym(L, map[string]bool{})
				s.maxD = 2
				for _, t := range s.eval(key) {
					if !strings.Contains(t, "go/types.Type") && !strings.Contains(t, "go/types.TypeString") {
						continue
					}
					n++
					c.seen(fnName(fn))
					ok, why := injectiveTypeKey(L, t)
					c.check(ok, rule, fnName(fn)+":type-key", L.pos(in.Pos()), fnName(fn)+": a table keyed by a type uses a key that distinguishes same-named types of different packages", why)
				}
			}
		}
	}
	c.floor(rule, "type-keyed table operations in internal/migrate", n, 5)
}

func runC14(c *Ctx) {
	L := c.L
	L.buildSSA()
	fns := migFuncs(L)

	// ---- C14.1 nothing written on failure
	var muts []callSite
	for _, fn := range fns {
		for _, cs := range callsIn(fn) {
			if isFsMutator(cs.callee) {
				muts = append(muts, cs)
			}
		}
	}
	c.check(len(muts) == 1 && muts[0].callee == "os.WriteFile", "C14.1", "internal/migrate:single-writer", "-", "internal/migrate has exactly one filesystem mutator call site (os.WriteFile of the output)", fmt.Sprintf("%v", siteNames(L, muts)))
	for _, m := range muts {
		fn := m.fn
		c.seen(fnName(fn))
		okFmt := false
		why := "no format.Node call"
		for _, cs := range callsIn(fn) {
			if cs.callee == "go/format.Node" && cs.value() != nil {
				okFmt, why = checkedBefore(cs.value(), m.instr)
				// C14.2: the buffer given to format.Node is the one written
				s := newSym(L, map[string]bool{})
				s.maxD = 0
				data := strings.Join(s.eval(m.arg(1)), "|")
				buf := strings.Join(s.eval(cs.arg(0)), "|")
				okBuf := strings.HasPrefix(data, "(*bytes.Buffer).Bytes(") && strings.Contains(buf, "bytes.Buffer")
				if bc, isCall := resolve(m.arg(1)).(*ssa.Call); isCall && calleeOf(bc.Common()) == "(*bytes.Buffer).Bytes" && len(bc.Common().Args) == 1 {
					// the very buffer: the receiver of Bytes() and the writer handed to format.Node are one value
					okBuf = resolve(bc.Common().Args[0]) == resolve(cs.arg(0))
				}
				c.check(okBuf, "C14.2", fnName(fn)+":written-bytes", L.pos(m.instr.Pos()), "the bytes written are the buffer that format.Node filled", "data="+data+" ; format target="+buf)
			}
		}
		c.check(okFmt, "C14.1", fnName(fn)+":format-before-write", L.pos(m.instr.Pos()), "the file is written only after formatting succeeded", why)
		// other writes into the buffer are constant strings
		for _, cs := range callsIn(fn) {
			if strings.HasPrefix(cs.callee, "(*bytes.Buffer).Write") {
				_, isConst := constString(cs.arg(1))
				c.check(isConst, "C14.2", fnName(fn)+":"+cs.callee, L.pos(cs.instr.Pos()), "besides format.Node only a constant header is written to the buffer", describe(cs.arg(1)))
			}
		}
	}
	if mf := resolveRole(c, migPkg, "(*Migrator).MigrateFiles"); mf != nil {
		c.seen(fnName(mf))
		var write *ssa.Call
		for _, cs := range callsIn(mf) {
			if cs.common.StaticCallee() != nil && cs.common.StaticCallee().Name() == "Write" && cs.value() != nil {
				write = cs.value()
			}
		}
		if write == nil {
			c.undecided("C14.1", "MigrateFiles:Write", "call to Writer.Write not found")
		} else {
			for _, cs := range callsIn(mf) {
				cal := cs.common.StaticCallee()
				if cal == nil || cs.value() == nil || cs.value() == write {
					continue
				}
				res := cs.common.Signature().Results()
				fallible := res.Len() > 0 && isErrorType(res.At(res.Len()-1).Type())
				switch cal.Name() {
				case "Transform", "mergeResults":
					ok, why := checkedBefore(cs.value(), write)
					if cal.Name() == "Transform" {
						// inside the per-file loop: the error edge must not reach the write
						ok = false
						for _, t := range nilTestsOf(errorResult(cs.value())) {
							if !reachable(t.onErr, write.Block()) && reachableAfter(cs.instr, write) {
								ok, why = true, "error edge cannot reach the write"
							}
						}
					}
					c.check(ok, "C14.1", "MigrateFiles:"+cal.Name()+"-before-write", L.pos(cs.instr.Pos()), "a failing "+cal.Name()+" cannot be followed by writing the output", why)
				case "convertPackageError":
					c.check(!reachableAfter(cs.instr, write) || returnsCallDirectly(cs.value()), "C14.1", "MigrateFiles:load-error-returns", L.pos(cs.instr.Pos()), "a package load error is returned before anything is written", "return operand")
				default:
					if fallible && reachableAfter(write, cs.instr) {
						c.fail("C14.1", "MigrateFiles:fallible-after-write:"+cal.Name(), L.pos(cs.instr.Pos()), "a fallible step runs after the output was written (a failure would leave a file behind with a non-zero exit)")
					}
				}
			}
			ok, why := errorBranchReturnsNonNil(write)
			c.check(ok, "C14.1", "MigrateFiles:write-error-returned", L.pos(write.Pos()), "a failing write is reported", why)
		}
		// every error of the pipeline propagates
		inMig := func(callee *ssa.Function) bool {
			return callee.Pkg != nil && callee.Pkg.Pkg.Path() == migPkg && L.NonTest[callee]
		}
		n := propagationRule(c, "C14.1", fns, inMig, nil)
		c.floor("C14.1", "calls to fallible internal/migrate functions", n, 8)
	} else {
		c.undecided("C14.1", "MigrateFiles", "not found")
	}
	// load errors are checked for every package before patterns are extracted
	if mf := resolveRole(c, migPkg, "(*Migrator).MigrateFiles"); mf != nil {
		okLoad := false
		for _, f2 := range family(L, mf) {
			for _, cs := range callsIn(f2) {
				if cs.callee == "golang.org/x/tools/go/packages.Load" && cs.value() != nil {
					if ok, _ := errorBranchReturnsNonNil(cs.value()); ok {
						okLoad = true
						// loaded in a helper: the helper's own error must be handed on by MigrateFiles (C14.1 propagation rule
						// checks every fallible call of the pipeline, the helper included)
					}
				}
			}
		}
		c.check(okLoad, "C14.1", "MigrateFiles:load-error", L.pos(mf.Pos()), "a failing packages.Load is returned", "error edge returns")
	}

	// ---- C14.3 map-order lint
	nLoops := 0
	for _, fn := range fns {
		for _, ml := range mapRangeLoops(fn) {
			nLoops++
			c.seen(fnName(fn))
			if fn.Name() == "Imports" && strings.Contains(fn.String(), "TypeConverter") {
				c14ImportsException(c, fn, ml)
				continue
			}
			c14ClassifyLoop(c, fn, ml)
		}
		for _, cs := range callsIn(fn) {
			if cs.callee == "maps.Keys" || cs.callee == "maps.Values" || cs.callee == "maps.All" {
				c.fail("C14.3", fnName(fn)+":"+cs.callee, L.pos(cs.instr.Pos()), "iteration order of a map escapes through "+cs.callee)
			}
		}
	}
	c.floor("C14.3", "ranges over maps in internal/migrate", nLoops, 1)

	// ---- C14.4 alias bookkeeping
	c14AddImport(c)

	// ---- C14.5 contradiction: two ways of naming an import
	nLast := 0
	for _, fn := range fns {
		for _, cs := range callsIn(fn) {
			if cs.common.StaticCallee() == nil || cs.common.StaticCallee().Name() != "lastPathElement" || cs.value() == nil {
				continue
			}
			nLast++
			c.seen(fnName(fn))
			// is the result used as a package *name* (a key for resolving qualifiers, or compared with the allocated name)?
			use := ""
			for _, r := range *cs.value().Referrers() {
				switch x := r.(type) {
				case *ssa.MapUpdate:
					if x.Key == ssa.Value(cs.value()) {
						use = "key of the qualifier -> import path table"
					}
				case *ssa.BinOp:
					use = "compared with the import's local name to decide whether an alias is needed"
				case *ssa.Phi:
					for _, rr := range *x.Referrers() {
						if mu, ok := rr.(*ssa.MapUpdate); ok && mu.Key == ssa.Value(x) {
							use = "key of the qualifier -> import path table"
						}
						if _, ok := rr.(*ssa.BinOp); ok {
							use = "compared with the import's local name"
						}
					}
				}
			}
			if use != "" {
				c.fail("C14.5", fnName(fn)+":lastPathElement-as-package-name", L.pos(cs.instr.Pos()),
					"the last element of an import path is taken for the package's name ("+use+"), while TypeToExpr and transformBind use types.Package.Name(): the two disagree for every package whose name is not its directory, and the output then refers to a package it does not import",
					"sibling naming: types.Package.Name() in TypeToExpr / transformBind")
			}
		}
	}
	c.floor("C14.5", "uses of lastPathElement", nLast, 2)

	// ---- C14.6 set names and packages
	if mr := resolveRole(c, migPkg, "(*Migrator).mergeResults"); mr != nil {
		c.seen(fnName(mr))
		var mrBlocks []*ssa.BasicBlock
		for _, f := range family(L, mr) {
			mrBlocks = append(mrBlocks, f.Blocks...)
		}
		okDup := false
		for _, b := range mrBlocks {
			for _, in := range b.Instrs {
				lk, ok := in.(*ssa.Lookup)
				if !ok || !lk.CommaOk || lk.X.Type().String() != "map[string]string" {
					continue
				}
				for _, t := range okTestsOf(lk) {
					found, notFound := t.found, t.notFound
					if okR, _ := allPathsReturnNonNil(found, map[*ssa.BasicBlock]bool{}); okR {
						// the insert is on the other edge with the same key
						sk := newSym(L, map[string]bool{})
						sk.maxD = 0
						want := strings.Join(sk.eval(lk.Index), "|")
						for _, in2 := range notFound.Instrs {
							if mu, ok := in2.(*ssa.MapUpdate); ok && strings.Join(sk.eval(mu.Key), "|") == want {
								okDup = true
							}
						}
					}
				}
			}
		}
		c.check(okDup, "C14.6", "mergeResults:duplicate-set-name", L.pos(mr.Pos()), "a set name defined in two files is refused; otherwise it is recorded", "found edge returns MergeError, not-found edge inserts the same key")
		okPkg := false
		for _, b := range mrBlocks {
			for _, in := range b.Instrs {
				bo, ok := in.(*ssa.BinOp)
				if !ok || bo.Op != token.NEQ || !types.Identical(bo.X.Type(), types.Typ[types.String]) {
					continue
				}
				s := newSym(L, map[string]bool{})
				s.maxD = 0
				if strings.Contains(strings.Join(s.eval(bo.X), "|")+strings.Join(s.eval(bo.Y), "|"), "MigrationResult.Package(") {
					for _, r := range *bo.Referrers() {
						if iff, ok := r.(*ssa.If); ok {
							if okR, _ := allPathsReturnNonNil(iff.Block().Succs[0], map[*ssa.BasicBlock]bool{}); okR {
								okPkg = true
							}
						}
					}
				}
			}
		}
		c.check(okPkg, "C14.6", "mergeResults:package-mismatch", L.pos(mr.Pos()), "files of different packages are refused", "package name comparison guards an error return")
	} else {
		c.undecided("C14.6", "mergeResults", "not found")
	}

	ruleMigrateRound2(c)

	// ---- C14.7 checked-in goldens
	c14Goldens(c)
}

func c14ClassifyLoop(c *Ctx, fn *ssa.Function, ml mapLoop) {
	// same classification as C11.1, reported under C14.3
	sub := &Ctx{Prop: c.Prop, Tier: c.Tier, L: c.L, FuncsSeen: c.FuncsSeen, Extra: c.Extra, RoleNames: c.RoleNames}
	c11ClassifyLoop(sub, fn, ml)
	for _, o := range sub.Obls {
		o.Rule = strings.Replace(o.Rule, "C11.1", "C14.3", 1)
		o.Rule = strings.Replace(o.Rule, "C11.2", "C14.3", 1)
		c.Obls = append(c.Obls, o)
	}
	for _, f := range sub.Finds {
		f.Rule = "C14.3"
		c.Finds = append(c.Finds, f)
	}
}

// c14ImportsException: TypeConverter.Imports hands its map order to the caller; the only consumer sorts.
func c14ImportsException(c *Ctx, fn *ssa.Function, ml mapLoop) {
	L := c.L
	// premise 1: buildImportDecl sorts by path before building specs
	bid := resolveRole(c, migPkg, "(*Writer).buildImportDecl")
	ok1 := false
	if bid != nil {
		c.seen(fnName(bid))
		for _, cs := range callsIn(bid) {
			if cs.callee == "sort.Slice" || cs.callee == "slices.SortFunc" || cs.callee == "sort.SliceStable" {
				var cmp *ssa.Function
				switch f := resolve(cs.arg(1)).(type) {
				case *ssa.MakeClosure:
					cmp = f.Fn.(*ssa.Function)
				case *ssa.Function:
					cmp = f
				}
				if cmp != nil {
					for _, b := range cmp.Blocks {
						for _, in := range b.Instrs {
							if fa, isF := in.(*ssa.FieldAddr); isF && fieldKey(fa) == "internal/migrate.ImportSpec.Path" {
								ok1 = true
							}
							if fv, isF := in.(*ssa.Field); isF && strings.HasSuffix(fv.X.Type().String(), "migrate.ImportSpec") {
								if st, ok := fv.X.Type().Underlying().(*types.Struct); ok && st.Field(fv.Field).Name() == "Path" {
									ok1 = true
								}
							}
						}
					}
				}
				// the sort precedes the construction of the ast.ImportSpec nodes
				for _, b := range bid.Blocks {
					for _, in := range b.Instrs {
						if al, isA := in.(*ssa.Alloc); isA {
							if nm, _ := isAstNodeType(al.Type()); nm == "ImportSpec" && al.Heap && strings.Contains(al.Type().String(), "go/ast") {
								if !strictlyBefore(cs.instr, al) {
									ok1 = false
								}
							}
						}
					}
				}
			}
		}
	}
	// premise 2: paths are unique (deduplicated) so the order is total
	// premise 3: the only readers of MergedOutput.Imports hand it to buildImportDecl
	ok3 := true
	nReads := 0
	// the list is only measured, handed to buildImportDecl, or handed on to a helper of the package that does the same with
	// its parameter
	var usesOK func(v ssa.Value, d int) bool
	usesOK = func(v ssa.Value, d int) bool {
		if v.Referrers() == nil {
			return true
		}
		for _, r := range *v.Referrers() {
			switch x := r.(type) {
			case *ssa.DebugRef:
			case *ssa.Call:
				cal := x.Common().StaticCallee()
				if calleeOf(x.Common()) == "builtin len" || (cal != nil && cal == bid) {
					continue
				}
				if cal == nil || cal.Pkg == nil || cal.Pkg.Pkg.Path() != migPkg || len(cal.Blocks) == 0 || d >= 3 {
					return false
				}
				for i, a := range x.Common().Args {
					if a == v && (i >= len(cal.Params) || !usesOK(cal.Params[i], d+1)) {
						return false
					}
				}
			default:
				return false
			}
		}
		return true
	}
	for _, f := range migFuncs(L) {
		for _, b := range f.Blocks {
			for _, in := range b.Instrs {
				u, ok := in.(*ssa.UnOp)
				if !ok || u.Op != token.MUL {
					continue
				}
				fa, ok := u.X.(*ssa.FieldAddr)
				if !ok || fieldKey(fa) != "internal/migrate.MergedOutput.Imports" {
					continue
				}
				nReads++
				if !usesOK(u, 0) {
					ok3 = false
				}
			}
		}
	}
	c.check(ok1 && ok3 && nReads > 0, "C14.3", "TypeConverter.Imports:order-escapes-to-sorting-sink", L.pos(ml.rng.Pos()),
		"[table exception] TypeConverter.Imports returns its specs in map order; premise re-verified: the only consumer of MergedOutput.Imports is buildImportDecl, which sorts by the (unique) path before it builds the import block",
		fmt.Sprintf("sort-by-path-before-build=%v, readers of MergedOutput.Imports=%d all feeding buildImportDecl=%v", ok1, nReads, ok3))
}

// c14AddImport: returned => recorded; new names are found unused first.
func c14AddImport(c *Ctx) {
	L := c.L
	fn := resolveRole(c, migPkg, "(*TypeConverter).AddImport")
	if fn == nil {
		c.undecided("C14.4", "AddImport", "not found")
		return
	}
	c.seen(fnName(fn))
	mapOf := func(v ssa.Value) string {
		if u, ok := v.(*ssa.UnOp); ok {
			if fa, ok := u.X.(*ssa.FieldAddr); ok {
				return fieldKey(fa)
			}
		}
		return ""
	}
	for _, r := range returnsOf(fn) {
		v := r.Results[0]
		// (a) the recorded name of this path
		if ex, ok := v.(*ssa.Extract); ok {
			if lk, ok := ex.Tuple.(*ssa.Lookup); ok && mapOf(lk.X) == "internal/migrate.TypeConverter.imports" {
				c.ok("C14.4", fmt.Sprintf("AddImport: return in block %d hands out the name already recorded for the path", r.Block().Index), "lookup in imports")
				continue
			}
		}
		recImports, recUsed := false, false
		// recorded by a private helper that returns the name it was given (return tc.register(path, name))
		if call, isCall := v.(*ssa.Call); isCall {
			if _, ni, okH := importRegisterHelper(call.Common().StaticCallee()); okH && ni < len(call.Common().Args) {
				recImports, recUsed = true, true
				v = call.Common().Args[ni]
			}
		}
		for _, b := range fn.Blocks {
			for _, in := range b.Instrs {
				mu, ok := in.(*ssa.MapUpdate)
				if !ok || !instrDominates(mu, r) {
					continue
				}
				switch mapOf(mu.Map) {
				case "internal/migrate.TypeConverter.imports":
					if mu.Value == v {
						recImports = true
					}
				case "internal/migrate.TypeConverter.usedNames":
					if mu.Key == v {
						recUsed = true
					}
				}
			}
		}
		// found unused: a comma-ok lookup of v in usedNames whose not-found edge leads here, or (desired name) the
		// collision test `exists && existingPath != path` whose false edge leads here
		unused := ""
		for _, b := range fn.Blocks {
			for _, in := range b.Instrs {
				lk, ok := in.(*ssa.Lookup)
				if !ok || !lk.CommaOk || mapOf(lk.X) != "internal/migrate.TypeConverter.usedNames" || lk.Index != v {
					continue
				}
				if lk.Block().Dominates(r.Block()) {
					unused = fmt.Sprintf("usedNames lookup of the returned name in block %d dominates the return", lk.Block().Index)
				}
			}
		}
		c.check(recImports && recUsed && unused != "", "C14.4", fmt.Sprintf("AddImport:return:%s", describe(v)), L.pos(r.Pos()),
			"a name AddImport introduces was looked up in the used-name table and is recorded in both tables before it is returned", fmt.Sprintf("imports recorded=%v, usedNames recorded=%v, %s", recImports, recUsed, unused))
	}
	// a colliding desired name is never returned: the collision branch loops until an unused suffix is found
	// every invented qualifier is AddImport's result
	n := 0
	for _, f := range migFuncs(L) {
		for _, cs := range callsIn(f) {
			if cs.callee != "go/ast.NewIdent" || cs.value() == nil {
				continue
			}
			// only identifiers placed in SelectorExpr.X
			isQual := false
			for _, r := range *cs.value().Referrers() {
				if mi, ok := r.(*ssa.MakeInterface); ok {
					for _, rr := range *mi.Referrers() {
						if st, ok := rr.(*ssa.Store); ok {
							if fa, ok := st.Addr.(*ssa.FieldAddr); ok && fieldKey(fa) == "go/ast.SelectorExpr.X" {
								isQual = true
							}
						}
					}
				}
			}
			if !isQual {
				continue
			}
			s := newSym(L, map[string]bool{})
			s.maxD = 0
			ts := s.eval(cs.arg(0))
			if len(ts) == 1 && ts[0] == `"kessoku"` {
				continue
			}
			// a constant that the same function also declares as a parameter/field name of a synthesised literal is a local, not a package
			if len(ts) == 1 && strings.HasPrefix(ts[0], `"`) {
				local := false
				for _, cs2 := range callsIn(f) {
					if cs2.callee == "go/ast.NewIdent" && cs2.value() != nil && cs2.value() != cs.value() {
						if n2, ok := constString(cs2.arg(0)); ok && `"`+n2+`"` == ts[0] {
							local = true
						}
					}
				}
				if local {
					continue
				}
			}
			n++
			has := false
			for _, t := range ts {
				if strings.Contains(t, "TypeConverter).AddImport(") {
					has = true
				}
			}
			c.check(has, "C14.4", fnName(f)+":qualifier-from-AddImport", L.pos(cs.instr.Pos()), fnName(f)+": a package qualifier the migrator invents is the alias AddImport allocated", strings.Join(ts, " | "))
		}
	}
	c.floor("C14.4", "invented package qualifiers", n, 2)
}

// c14Goldens: gofmt-stability and import usage of the checked-in migration outputs.
func c14Goldens(c *Ctx) {
	L := c.L
	files, _ := filepath.Glob(filepath.Join(L.Repo, "internal/migrate/testdata/*/expected.go"))
	n := 0
	for _, f := range files {
		src, err := os.ReadFile(f)
		if err != nil {
			continue
		}
		rel, _ := filepath.Rel(L.Repo, f)
		fset := token.NewFileSet()
		af, perr := parser.ParseFile(fset, f, src, parser.ParseComments)
		if perr != nil {
			// comment-only markers for "no output expected"
			if !bytes.Contains(src, []byte("package ")) {
				continue
			}
			c.fail("C14.7", "co:"+rel+":parse", rel, "checked-in migration output does not parse: "+perr.Error())
			continue
		}
		n++
		out, ferr := format.Source(src)
		c.check(ferr == nil && bytes.Equal(out, src), "C14.7", "co:"+rel+":gofmt-stable", rel, rel+" is gofmt-stable", fmt.Sprintf("%d bytes", len(src)))
		// every import is used
		for _, imp := range af.Imports {
			path := strings.Trim(imp.Path.Value, `"`)
			name := lastElem(path)
			if imp.Name != nil {
				name = imp.Name.Name
			}
			used := false
			ast.Inspect(af, func(nd ast.Node) bool {
				if sel, ok := nd.(*ast.SelectorExpr); ok {
					if id, ok := sel.X.(*ast.Ident); ok && id.Name == name {
						used = true
					}
				}
				return true
			})
			c.check(used, "C14.7", "co:"+rel+":import-used:"+path, rel, rel+": import "+path+" is used", "qualifier "+name)
		}
		// each set name once
		names := map[string]int{}
		for _, d := range af.Decls {
			if gd, ok := d.(*ast.GenDecl); ok && gd.Tok == token.VAR {
				for _, sp := range gd.Specs {
					for _, nm := range sp.(*ast.ValueSpec).Names {
						if nm.Name != "_" {
							names[nm.Name]++
						}
					}
				}
			}
		}
		for nm, k := range names {
			c.check(k == 1, "C14.7", "co:"+rel+":set-once:"+nm, rel, rel+": set "+nm+" is declared once", fmt.Sprint(k))
		}
	}
	c.Programs = n
	c.floor("C14.7", "checked-in migration outputs", n, 18)
}

func lastElem(p string) string {
	if i := strings.LastIndex(p, "/"); i >= 0 {
		return p[i+1:]
	}
	return p
}

// ruleBindConstructor: the by-name constructor lookup of wire.Bind is confined to the implementation's package and its result
// is only used as a function.
func ruleBindConstructor(c *Ctx, rule string) {
	L := c.L
	// ---- C13.3 the by-name lookup is confined to the implementation's package
	if tb := resolveRole(c, migPkg, "(*Transformer).transformBind"); tb != nil {
		c.seen(fnName(tb))
		n := 0
		for _, cs := range callsIn(tb) {
			if cs.callee != "(*go/types.Scope).Lookup" {
				continue
			}
			n++
			s := newSym(L, map[string]bool{})
			s.maxD = 0
			recv := strings.Join(s.eval(cs.arg(0)), " | ")
			okRecv := true
			for _, alt := range strings.Split(recv, " | ") {
				if !(strings.HasPrefix(alt, "(*go/types.Package).Scope((*go/types.") && strings.Contains(alt, ").Pkg(") && strings.Contains(alt, "(*go/types.Named).Obj(")) {
					okRecv = false
				}
			}
			c.check(okRecv, rule, "transformBind:lookup-scope", L.pos(cs.instr.Pos()), "the constructor for a bound implementation is looked up only in that implementation type's own package", recv)
			// and the result must be a function
		}
		c.floor(rule, "scope lookups in transformBind", n, 1)
		// the found object is checked to be a function before use
		okFunc := false
		for _, b := range tb.Blocks {
			for _, in := range b.Instrs {
				if ta, ok := in.(*ssa.TypeAssert); ok && ta.CommaOk && strings.HasSuffix(ta.AssertedType.String(), "go/types.Func") {
					okFunc = true
				}
			}
		}
		c.check(okFunc, rule, "transformBind:constructor-is-func", L.pos(tb.Pos()), "the looked-up constructor must be a function, else migration fails", "comma-ok assertion to *types.Func")
	} else {
		c.undecided(rule, "transformBind", "not found")
	}

}
