package main

import (
	"fmt"
	"go/ast"
	"go/token"
	"go/types"
	"os"
	"strings"

	"golang.org/x/tools/go/ssa"
)

// Rules added after the second round of seeded changes. Each one is a structural necessary condition that the first
// version of the checks assumed silently.

// ruleFieldAccessSync: synthetic field-access providers are synchronous. InjectorFieldAccessStmt reads the struct
// variable without waiting; that is only sound because a sync node is placed in the first pool that already provides
// all its dependencies - the struct producer's pool.
func ruleFieldAccessSync(c *Ctx, rule string) {
	L := c.L
	n := 0
	for _, fn := range pkgFuncs(L, genPkg) {
		for _, b := range fn.Blocks {
			for _, in := range b.Instrs {
				al, ok := in.(*ssa.Alloc)
				if !ok {
					continue
				}
				if nm, _ := isAstNodeType(al.Type()); nm != "ProviderSpec" {
					continue
				}
				kind, async := "", ssa.Value(nil)
				for _, r := range *al.Referrers() {
					fa, ok := r.(*ssa.FieldAddr)
					if !ok {
						continue
					}
					for _, rr := range *fa.Referrers() {
						st, ok := rr.(*ssa.Store)
						if !ok || st.Addr != fa {
							continue
						}
						switch fieldKey(fa) {
						case "internal/kessoku.ProviderSpec.Type":
							if k, ok := st.Val.(*ssa.Const); ok && k.Value != nil {
								kind = strings.Trim(k.Value.ExactString(), `"`)
							}
						case "internal/kessoku.ProviderSpec.IsAsync":
							async = st.Val
						}
					}
				}
				if kind != "field_access" {
					continue
				}
				n++
				okSync := async == nil
				if k, isConst := async.(*ssa.Const); isConst && k.Value != nil && k.Value.String() == "false" {
					okSync = true
				}
				c.check(okSync, rule, fnName(fn)+":field-access-provider-sync", L.pos(al.Pos()),
					"expanded struct fields are synchronous providers (their read of the struct variable is emitted without a wait, which is sound only in the struct producer's own pool)", "IsAsync of the synthetic ProviderSpec is "+describeOrNone(async))
			}
		}
	}
	c.floor(rule, "synthetic field-access provider literals", n, 1)
	// and the statement that reads the struct emits no wait: premise of the table entry
	if fn := genFn(c, rule, "(*InjectorFieldAccessStmt).Stmt"); fn != nil {
		c.ok(rule, "InjectorFieldAccessStmt is the one reader that does not consult IsWait [table entry: same-pool-by-construction, premise above]", "field-access providers are sync")
	}
}

func describeOrNone(v ssa.Value) string {
	if v == nil {
		return "never set (false)"
	}
	return describe(v)
}

// ruleSnapshotReadOnly: in Build's second pass the provided-node snapshots are only read, and the membership test
// that can excuse a missing wait consults the *producer's* snapshot for the *consumer*.
func ruleSnapshotReadOnly(c *Ctx, rule string) {
	L := c.L
	build := genFn(c, rule, "(*Graph).Build")
	if build == nil {
		return
	}
	for _, st := range storesToField(withClosures(build), "internal/kessoku.InjectorCallArgument.IsWait") {
		cl := st.Parent()
		n := 0
		for _, b := range cl.Blocks {
			for _, in := range b.Instrs {
				if mu, ok := in.(*ssa.MapUpdate); ok && strings.HasSuffix(mu.Map.Type().String(), "map[*"+genPkg+".node]struct{}") {
					n++
					c.fail(rule, "Build:second-pass-mutates-snapshot", L.pos(mu.Pos()), "the pass that computes IsWait records nodes as provided while it runs: a later consumer in the same pool then skips its wait although it may execute first")
				}
			}
		}
		if n == 0 {
			c.ok(rule, "the IsWait pass does not modify any provided-node set", "no MapUpdate on map[*node]struct{} in "+fnName(cl))
		}
		// the membership atom
		for _, b := range cl.Blocks {
			for _, in := range b.Instrs {
				lk, ok := in.(*ssa.Lookup)
				if !ok || !lk.CommaOk || !strings.HasSuffix(lk.X.Type().String(), "map[*"+genPkg+".node]struct{}") {
					continue
				}
				s := newSym(L, map[string]bool{})
				s.maxD = 0
				m := strings.Join(s.eval(lk.X), "|")
				k := strings.Join(s.eval(lk.Index), "|")
				okShape := strings.HasPrefix(m, "lookup(makemap@") && strings.HasSuffix(m, ", param:"+cl.Params[0].Name()+")") && strings.Contains(k, "edgeNode.node(")
				c.check(okShape, rule, "Build:isProvided-atom", L.pos(lk.Pos()), "the only membership test that can cancel a wait asks whether the consumer is already in the producer's own snapshot", "set: "+m+" ; key: "+k)
			}
		}
	}
}

// ruleGuardReceivers: a channel is declared/closed/awaited for the parameter whose WithChannel() guards it.
func ruleGuardReceivers(c *Ctx, rule string) {
	L := c.L
	want := map[string]string{
		"(*InjectorProviderCallStmt).generateChannelWaitStatement":  "field:internal/kessoku.InjectorCallArgument.Param(index(field:internal/kessoku.InjectorProviderCallStmt.Arguments(param:stmt)))",
		"(*InjectorProviderCallStmt).generateChannelCloseStatement": "index(field:internal/kessoku.InjectorProviderCallStmt.Returns(param:stmt))",
		"generateVariableSpecs":           "index(field:internal/kessoku.Injector.Vars(param:injector))",
		"(*InjectorFieldAccessStmt).Stmt": "field:internal/kessoku.InjectorFieldAccessStmt.ReturnParam(param:stmt)",
	}
	for name, wantRecv := range want {
		fn := genFn(c, rule, name)
		if fn == nil {
			continue
		}
		for _, cs := range callsIn(fn) {
			if cs.common.StaticCallee() == nil || cs.common.StaticCallee().Name() != "ChannelName" || cs.value() == nil {
				continue
			}
			s := newSym(L, map[string]bool{})
			s.maxD = 0
			recv := strings.Join(s.eval(cs.arg(0)), "|")
			// the guarding WithChannel call
			guard := ""
			for _, iff := range controllingIfs(cs.instr) {
				conds := []ssa.Value{iff.Cond}
				if ph, ok := iff.Cond.(*ssa.Phi); ok {
					conds = ph.Edges
				}
				for _, cv := range conds {
					if call, ok := cv.(*ssa.Call); ok && call.Common().StaticCallee() != nil && call.Common().StaticCallee().Name() == "WithChannel" {
						guard = strings.Join(s.eval(call.Common().Args[0]), "|")
					}
				}
				if guard != "" {
					break // the nearest guard decides
				}
			}
			// normalise parameter names (stmt / injector may be renamed)
			norm := func(t string) string {
				for _, p := range fn.Params {
					t = strings.ReplaceAll(t, "param:"+p.Name()+")", "param:#)")
				}
				return t
			}
			w := wantRecv
			w = strings.ReplaceAll(w, "param:stmt)", "param:#)")
			w = strings.ReplaceAll(w, "param:injector)", "param:#)")
			c.check(norm(recv) == w && norm(guard) == w, rule, fnName(fn)+":channel-receiver", L.pos(cs.instr.Pos()),
				fnName(fn)+": the channel named and the WithChannel() test both belong to the parameter this statement produces/consumes", "ChannelName receiver: "+recv+" ; guard receiver: "+guard)
		}
	}
}

// ruleChainOnlyWraps: a chain statement adds nothing of its own besides the final `return nil`.
func ruleChainOnlyWraps(c *Ctx, rule string) {
	L := c.L
	fn := genFn(c, rule, "(*InjectorChainStmt).Stmt#emits")
	if fn == nil {
		return
	}
	var bad []string
	for _, a := range appendsIn(L, fn) {
		if !strings.Contains(a.call.Type().String(), "go/ast.Stmt") {
			continue // the imports list
		}
		switch {
		case strings.Contains(a.label, "invoke:Stmt"):
		case a.label == "lit:ReturnStmt":
		default:
			bad = append(bad, a.label+"@"+L.pos(a.call.Pos()))
		}
	}
	c.check(len(bad) == 0, rule, "InjectorChainStmt.Stmt:only-nested-statements", L.pos(fn.Pos()),
		"a goroutine body consists of its statements' own output followed by `return nil` (no hoisted waits: each provider waits immediately before its own call)", fmt.Sprintf("other statements appended: %v", bad))
	// nested statements' IsWait flags are not rewritten outside Build
	all := storesToField(pkgFuncs(L, genPkg), "internal/kessoku.InjectorCallArgument.IsWait")
	for _, st := range all {
		inBuild := false
		for _, f := range family(L, resolveRole(c, genPkg, "(*Graph).Build")) {
			if f == st.Parent() {
				inBuild = true
			}
		}
		c.check(inBuild, rule, fnName(st.Parent())+":writes-IsWait", L.pos(st.Pos()), "wait flags are decided in Graph.Build only", fnName(st.Parent()))
	}
}

// ruleTypeIdentity: go/types values are compared with types.Identical (or by a path-qualified string), never with ==
// and never used as map keys: distinct *types.Pointer / alias objects denote identical types.
func ruleTypeIdentity(c *Ctx, rule string, pkgs ...string) {
	L := c.L
	isTypesType := func(t types.Type) bool {
		return t != nil && (t.String() == "go/types.Type" || t.String() == "go/types.Object")
	}
	n := 0
	for _, fn := range pkgFuncs(L, pkgs...) {
		for _, b := range fn.Blocks {
			for _, in := range b.Instrs {
				switch x := in.(type) {
				case *ssa.BinOp:
					if (x.Op == token.EQL || x.Op == token.NEQ) && isTypesType(x.X.Type()) && !isNilConst(x.X) && !isNilConst(x.Y) {
						n++
						c.fail(rule, fnName(fn)+":types.Type-compared-with-==", L.pos(x.Pos()), "two go/types values are compared by identity instead of types.Identical: an alias (type Failure = error) or a second *T expression denotes the same type through a different object")
					}
				case *ssa.MakeMap:
					if m, ok := x.Type().Underlying().(*types.Map); ok && isTypesType(m.Key()) {
						n++
						c.fail(rule, fnName(fn)+":map-keyed-by-types.Type", L.pos(x.Pos()), "a table is keyed by go/types.Type values (pointer identity): every composite type expression gets a fresh object, so identical types do not meet")
					}
				}
			}
		}
	}
	if n == 0 {
		c.ok(rule, "no identity comparison or map key of go/types.Type values in "+strings.Join(pkgs, ", "), "all BinOp ==/!= and MakeMap instructions inspected")
	}
	// the error result of a provider is recognised with types.Identical against the universe's error
	if fn := resolveRole(c, genPkg, "(*Parser).parseProviderType"); fn != nil && len(pkgs) > 0 && pkgs[0] == genPkg {
		ok := false
		for _, f2 := range family(L, fn) {
			for _, cs := range callsIn(f2) {
				if cs.callee == "go/types.Identical" {
					s := newSym(L, map[string]bool{})
					s.maxD = 0
					if strings.Contains(strings.Join(s.eval(cs.arg(1)), "|")+strings.Join(s.eval(cs.arg(0)), "|"), `(*go/types.Scope).Lookup(global:go/types.Universe, "error")`) {
						ok = true
					}
				}
			}
		}
		c.check(ok, rule, "parseProviderType:error-result-by-identity", L.pos(fn.Pos()), "a provider result is classified as the error result with types.Identical(t, Universe error)", "call found")
	}
}

// ruleErrorCheckTemplates: an emitted `if X != nil { ...; return ..., Y }` returns the X it checked.
func ruleErrorCheckTemplates(c *Ctx, rule string) {
	L := c.L
	p := L.Pkgs[genPkg]
	sites := collectTemplates(p)
	n := 0
	for _, s := range sites {
		if s.kind != "IfStmt" {
			continue
		}
		var cond *tmplSite
		for _, s2 := range sites {
			if s2.parent == s && s2.slot == "Cond" && s2.kind == "BinaryExpr" {
				cond = s2
			}
		}
		if cond == nil || exprString(cond.fields["Op"]) != "token.NEQ" {
			continue
		}
		if nm, ok := identConst(p, s.fn, cond.fields["Y"]); !ok || nm != "nil" {
			continue
		}
		checked := exprString(cond.fields["X"])
		for _, s2 := range sites {
			if s2.kind != "ReturnStmt" || s2.nestedIn("IfStmt") != s {
				continue
			}
			cl, ok := ast.Unparen(s2.fields["Results"]).(*ast.CompositeLit)
			if !ok || len(cl.Elts) == 0 {
				continue
			}
			n++
			last := exprString(cl.Elts[len(cl.Elts)-1])
			c.check(last == checked, rule, "template:error-check-returns-checked-error", L.pos(s2.lit.Pos()), "an emitted `if e != nil { return ..., e }` returns the error it tested", fmt.Sprintf("tests %s, returns %s", checked, last))
		}
	}
	c.floor(rule, "literal error-check templates with a return", n, 1)
}

// ruleConstQualifiersBound (C04.3 restricted): constant identifiers used as receivers/qualifiers in templates are bound
// by a constant binder of the templates.
func ruleConstQualifiersBound(c *Ctx, rule string) {
	L := c.L
	p := L.Pkgs[genPkg]
	sites := collectTemplates(p)
	uses := collectIdentUses(L, p, sites)
	binders := map[string]bool{}
	for _, u := range uses {
		if !binderSlots[u.site.kind+"."+u.slot] {
			continue
		}
		for _, cl := range u.class {
			if strings.HasPrefix(cl, "const:") {
				binders[strings.TrimPrefix(cl, "const:")] = true
			}
		}
	}
	n := 0
	for _, u := range uses {
		if u.site.kind != "SelectorExpr" || u.slot != "X" {
			continue
		}
		for _, cl := range u.class {
			if !strings.HasPrefix(cl, "const:") {
				continue
			}
			n++
			name := strings.TrimPrefix(cl, "const:")
			c.check(binders[name] || types.Universe.Lookup(name) != nil, rule, "template:constant-qualifier:"+name, L.pos(u.site.lit.Pos()),
				fmt.Sprintf("the hard-coded receiver %q (as in %s.Done()) is declared by the templates themselves, so it cannot silently resolve to a user's package-level variable", name, name), "constant binders: "+strings.Join(sortedKeys(binders), ","))
		}
	}
	c.floor(rule, "constant receivers in selector templates", n, 4)
}

// ruleIsContextType: the context recogniser compares the package *path* and the type name.
func ruleIsContextType(c *Ctx, rule string) {
	L := c.L
	fn := genFn(c, rule, "isContextType")
	if fn == nil {
		return
	}
	path, name, bad := false, false, ""
	for _, b := range fn.Blocks {
		for _, in := range b.Instrs {
			bo, ok := in.(*ssa.BinOp)
			if !ok || bo.Op != token.EQL {
				continue
			}
			cs, isC := constString(bo.Y)
			other := bo.X
			if !isC {
				cs, isC = constString(bo.X)
				other = bo.Y
			}
			if !isC {
				continue
			}
			s := newSym(L, map[string]bool{})
			s.maxD = 0
			t := strings.Join(s.eval(other), "|")
			switch {
			case cs == "context" && strings.Contains(t, "go/types.Package).Path("):
				path = true
			case cs == "Context" && strings.Contains(t, ").Name("):
				name = true
			case cs == "context":
				bad = t
			}
		}
	}
	c.check(path && name && bad == "", rule, "isContextType:path-and-name", L.pos(fn.Pos()), "context.Context is recognised by import path \"context\" and type name \"Context\" (a look-alike from another package named context is not)", fmt.Sprintf("path test %v, name test %v, other comparison with \"context\": %s", path, name, bad))
}

// ruleImportNamesFromPool: every local import name is what the allocator returned.
func ruleImportNamesFromPool(c *Ctx, rule string) {
	L := c.L
	n := 0
	for _, st := range storesToField(pkgFuncs(L, genPkg), "internal/kessoku.Import.Name") {
		n++
		s := newSym(L, map[string]bool{})
		s.maxD = 0
		t := strings.Join(s.eval(st.Val), " | ")
		c.check(strings.HasPrefix(t, "(*"+genPkg+".VarPool).GetName(") && !strings.Contains(t, " | "), rule, fnName(st.Parent())+":Import.Name", L.pos(st.Pos()),
			fnName(st.Parent())+": the local name recorded for an import is the allocator's result (a taken package name gets a suffix)", t)
		// IsDefaultName compares that same result with the package's own name
	}
	c.floor(rule, "stores to Import.Name", n, 6)
}

// ruleArgumentOnlyWhenUnsupplied (C10.3 strict / C09.7): the branch that turns a requirement into an injector argument is
// exactly the not-found edge of the supplier lookup.
func ruleArgumentOnlyWhenUnsupplied(c *Ctx, rule string) {
	L := c.L
	ng := genFn(c, rule, "NewGraph")
	if ng == nil {
		return
	}
	n := 0
	for _, f2 := range withClosures(ng) {
		for _, cs := range callsIn(f2) {
			if cs.common.StaticCallee() == nil || cs.common.StaticCallee().Name() != "autoAddMissingDependencies" || cs.value() == nil {
				continue
			}
			n++
			// every branch on the way is the not-found edge of a comma-ok lookup keyed by a type string, taken alone
			okAll, why := false, "no supplier lookup guards the creation of the argument"
			for _, iff := range controllingIfs(cs.instr) {
				cond := iff.Cond
				negated := false
				if u, isNot := cond.(*ssa.UnOp); isNot && u.Op == token.NOT {
					cond, negated = u.X, true
				}
				ex, ok := throughCell(cond).(*ssa.Extract)
				if !ok || ex.Index != 1 {
					if _, isPhi := cond.(*ssa.Phi); isPhi {
						// a compound condition (`ok && ...`) sits between the lookup and the argument path
						s := newSym(L, map[string]bool{})
						s.maxD = 0
						okAll, why = false, "the decision is a compound condition: "+strings.Join(s.eval(cond), "|")
						break
					}
					continue
				}
				lk, ok := ex.Tuple.(*ssa.Lookup)
				if !ok || !strings.Contains(lk.X.Type().String(), "fnProvider") {
					continue
				}
				notFound := iff.Block().Succs[1]
				if negated {
					notFound = iff.Block().Succs[0]
				}
				if (notFound == cs.instr.Block() || notFound.Dominates(cs.instr.Block())) && len(notFound.Preds) == 1 {
					okAll, why = true, fmt.Sprintf("supplier lookup in block %d; its not-found edge (sole predecessor) dominates the argument creation", iff.Block().Index)
				} else {
					okAll, why = false, fmt.Sprintf("the block after the supplier lookup's not-found edge has %d predecessors: a requirement with a supplier can also reach the argument path", len(notFound.Preds))
					break
				}
			}
			c.check(okAll, rule, fmt.Sprintf("%s:argument-only-when-unsupplied#%d", fnName(f2), n), L.pos(cs.instr.Pos()),
				"a requirement becomes an injector argument only when no provider supplies its type (a supplied type - including the provider's own output - is always wired to its supplier, so a self-loop stays a cycle)", why)
		}
	}
	c.floor(rule, "argument-creation sites in NewGraph", n, 2)
}

// ruleDecidedBy: whether `target` executes is a function of the allowed atoms only (exhaustive table).
func ruleDecidedBy(c *Ctx, rule, construct, desc string, start *ssa.BasicBlock, target ssa.Instruction, allowed func(id string, v ssa.Value) bool) {
	L := c.L
	rows, ids, err := truthTable(L, start, target, nil)
	if err != "" {
		c.undecided(rule, construct, err)
		return
	}
	var extra []string
	for _, id := range ids {
		if !allowed(id, lastAtomValues[id]) {
			extra = append(extra, id)
		}
	}
	// two rows that agree on the allowed atoms must agree on the outcome
	seen := map[string]bool{}
	outcome := map[string]bool{}
	bad := ""
	for _, r := range rows {
		if r.errExit {
			continue
		}
		key := ""
		for _, id := range ids {
			if allowed(id, lastAtomValues[id]) {
				key += fmt.Sprintf("%s=%v;", id, r.atoms[id])
			}
		}
		if seen[key] && outcome[key] != r.reached {
			bad = key
		}
		seen[key] = true
		outcome[key] = r.reached
	}
	c.check(bad == "", rule, construct, L.pos(target.Pos()), desc, fmt.Sprintf("%d assignments; atoms outside the documented rule: %v; outcome depends on them for %s", len(rows), extra, bad))
}

// migrate: C13.5 / C13.6 / C14.4b / C14.6b
func ruleMigrateRound2(c *Ctx) {
	L := c.L
	if c.Prop == "C13" {
		rulePackagelessRendererOnlyAsFallback(c, "C13.7")
		ruleImportSnapshotLast(c, "C13.8")
		ruleMigrateRendererFidelity(c, "C13.9")
		ruleFieldsMergedPerStruct(c, "C13.10")
		ruleWireAliasThreaded(c, "C13.11")
		ruleProviderFuncResolvedByUses(c, "C13.12")
		ruleExprCopiesKeepOperands(c, "C13.13")
		ruleChanDirMapping(c, "C13.14", migPkg)
		ruleAsyncFlag(c, "C13.15")
		rulePackagesNotComparedByName(c, "C13.17", migPkg)
		ruleWireImportByExactPath(c, "C13.18")
		ruleTypeIdentity(c, "C13.16", genPkg)
	} else {
		rulePackagelessRendererOnlyAsFallback(c, "C14.6")
		ruleNoImportForSkippedFields(c, "C14.8", ruleImportSnapshotLast(c, "C14.7"))
		ruleMigrateRendererFidelity(c, "C14.9")
		rulePackageMismatchRefused(c, "C14.10")
		ruleBindConstructor(c, "C14.13")
		ruleAliasOmission(c, "C14.14")
		ruleSourceImportKeys(c, "C14.15")
		ruleChanDirMapping(c, "C14.16", migPkg)
		ruleConverterHomeIsWirePackage(c, "C14.17")
		ruleLoadErrorsOfEveryPackage(c, "C14.18")
		rulePatternImportWalkComplete(c, "C14.19")
		rulePackagesNotComparedByName(c, "C14.20", migPkg)
		ruleWireImportByExactPath(c, "C14.21")
		ruleLoopsMakeProgress(c, "C14.12", migPkg)
		ruleInspectVisitsEverything(c, "C14.11")
	}
	if c.Prop == "C13" {
		// C13.5 the bound-type set is computed from the element list being transformed
		if te := resolveRole(c, migPkg, "(*Transformer).transformElements"); te != nil {
			n := 0
			for _, cs := range callsIn(te) {
				// the "already bound?" predicate: a package function returning bool that is given a provider function and a
				// set (map) of bound types - recognised by its shape, not by its name or parameter order
				cal := cs.common.StaticCallee()
				if cal == nil || fnPkgPath(cal) != migPkg || cal.Signature.Results().Len() != 1 || cal.Signature.Results().At(0).Type().String() != "bool" {
					continue
				}
				setIdx, takesProvider := -1, false
				for i, a := range cs.common.Args {
					if _, isMap := a.Type().Underlying().(*types.Map); isMap {
						setIdx = i
					}
					if strings.HasSuffix(a.Type().String(), "WireProviderFunc") {
						takesProvider = true
					}
				}
				if setIdx < 0 || !takesProvider {
					continue
				}
				n++
				s := newSym(L, map[string]bool{})
				s.maxD = 0
				t := strings.Join(s.eval(cs.arg(setIdx)), "|")
				// the set is the result of a package function applied to transformElements' own element list
				local := false
				if bc, isCall := resolve(cs.arg(setIdx)).(*ssa.Call); isCall {
					if bcal := bc.Common().StaticCallee(); bcal != nil && fnPkgPath(bcal) == migPkg {
						for _, a := range bc.Common().Args {
							if prm, isP := resolve(a).(*ssa.Parameter); isP && prm.Parent() == te && strings.Contains(prm.Type().String(), "WirePattern") {
								local = true
							}
						}
					}
				}
				c.check(local && !strings.HasPrefix(t, "field:"), "C13.5", "transformElements:bound-types-local", L.pos(cs.instr.Pos()),
					"a provider is dropped as 'already bound' only against the Binds of the very set/injector being transformed (no state carried from other patterns or files)", t)
			}
			c.floor("C13.5", "call sites of the already-bound predicate", n, 1)
		}
		// no Transformer field is written by the per-pattern transforms except the type converter handle
		for _, fn := range migFuncs(L) {
			for _, b := range fn.Blocks {
				for _, in := range b.Instrs {
					switch x := in.(type) {
					case *ssa.Store:
						if fa, ok := x.Addr.(*ssa.FieldAddr); ok && strings.HasPrefix(fieldKey(fa), "internal/migrate.Transformer.") && fieldKey(fa) != "internal/migrate.Transformer.tc" {
							c.fail("C13.5", fnName(fn)+":transformer-state:"+fieldKey(fa), L.pos(x.Pos()), "the transformer keeps mutable state across patterns: "+fieldKey(fa))
						}
					case *ssa.MapUpdate:
						if u, ok := x.Map.(*ssa.UnOp); ok {
							if fa, ok := u.X.(*ssa.FieldAddr); ok && strings.HasPrefix(fieldKey(fa), "internal/migrate.Transformer.") {
								c.fail("C13.5", fnName(fn)+":transformer-state:"+fieldKey(fa), L.pos(x.Pos()), "the transformer accumulates entries across patterns and files: "+fieldKey(fa))
							}
						}
					}
				}
			}
		}
		c.ok("C13.5", "the transformer holds no per-pattern state besides its type converter", "stores and map updates through Transformer fields inspected")
		// C13.6 which struct fields wire.Struct("*")/explicit lists include
		if ts := resolveRole(c, migPkg, "(*Transformer).transformStruct"); ts != nil {
			n := 0
			for _, f2 := range withClosures(ts) {
				for _, a := range appendsIn(L, f2) {
					if !strings.Contains(a.call.Type().String(), "fieldInfo") {
						continue
					}
					n++
					ruleDecidedBy(c, "C13.6", "transformStruct:field-inclusion", "a struct field is injected iff it is selected (\"*\" or listed by name) and is not an unexported field of another package - nothing else (tags, types) filters fields",
						f2.Blocks[0], a.call, func(id string, v ssa.Value) bool {
							// an atom that does not look at the field being visited (struct-level facts, loop plumbing) cannot filter fields
							fieldDependent := strings.Contains(id, "go/types.Var") || strings.Contains(id, "Struct).Tag(") || strings.Contains(id, "Struct).Field(")
							if len(f2.Params) > 0 && strings.Contains(id, "param:"+f2.Params[0].Name()) && f2.Parent() != nil {
								fieldDependent = true
							}
							if !fieldDependent {
								return true
							}
							return strings.Contains(id, "Exported(") || strings.Contains(id, "migrate.contains(") || (strings.Contains(id, ").Name(") && !strings.Contains(id, "Tag("))
						})
				}
			}
			c.floor("C13.6", "field-collection sites in transformStruct", n, 1)
			for _, f2 := range withClosures(ts) {
				for _, a := range appendsIn(L, f2) {
					if strings.Contains(a.call.Type().String(), "fieldInfo") {
						ruleFieldInclusionFunction(c, "C13.6", f2, a.call)
					}
				}
			}
		}
	}
	if c.Prop == "C14" {
		// C14.4b imports[path] is only written when the path had no name yet
		if ai := resolveRole(c, migPkg, "(*TypeConverter).AddImport"); ai != nil {
			n := 0
			// the insert may sit in a private helper (register(path, name)): each call of the helper is an insert keyed by the
			// path argument, guarded like an inline one
			type insertSite struct {
				at  ssa.Instruction
				key ssa.Value
			}
			var inserts []insertSite
			for _, b := range ai.Blocks {
				for _, in := range b.Instrs {
					switch x := in.(type) {
					case *ssa.MapUpdate:
						if u, ok := x.Map.(*ssa.UnOp); ok {
							if fa, ok := u.X.(*ssa.FieldAddr); ok && fieldKey(fa) == "internal/migrate.TypeConverter.imports" {
								inserts = append(inserts, insertSite{x, x.Key})
							}
						}
					case *ssa.Call:
						if pi, _, ok := importRegisterHelper(x.Common().StaticCallee()); ok && pi < len(x.Common().Args) {
							inserts = append(inserts, insertSite{x, x.Common().Args[pi]})
						}
					}
				}
			}
			for _, ins := range inserts {
				{
					mu := ins.at
					b := mu.Block()
					n++
					guarded := false
					for _, b2 := range ai.Blocks {
						for _, in2 := range b2.Instrs {
							lk, ok := in2.(*ssa.Lookup)
							if !ok || !lk.CommaOk || lk.Index != ins.key {
								continue
							}
							if u2, ok := lk.X.(*ssa.UnOp); ok {
								if fa2, ok := u2.X.(*ssa.FieldAddr); ok && fieldKey(fa2) == "internal/migrate.TypeConverter.imports" {
									for _, t := range okTestsOf(lk) {
										if (t.notFound == b || t.notFound.Dominates(b)) && len(t.notFound.Preds) == 1 {
											guarded = true
										}
									}
								}
							}
						}
					}
					c.check(guarded, "C14.4", "AddImport:imports-insert-guarded", L.pos(mu.Pos()), "a path gets a local name only once: imports[path] is written only on the not-found edge of a lookup of that path (an already renamed package keeps its alias)", "guarded insert")
				}
			}
			c.floor("C14.4", "inserts into TypeConverter.imports", n, 2)
		}
		// C14.6b the duplicate-name table lives across all files
		if mr := resolveRole(c, migPkg, "(*Migrator).mergeResults"); mr != nil {
			for _, b := range mr.Blocks {
				for _, in := range b.Instrs {
					mm, ok := in.(*ssa.MakeMap)
					if !ok || mm.Type().String() != "map[string]string" {
						continue
					}
					inLoop := false
					for _, s := range b.Succs {
						if reachable(s, b) {
							inLoop = true
						}
					}
					c.check(!inLoop, "C14.6", "mergeResults:duplicate-table-created-once", L.pos(mm.Pos()), "the table of set names is created once, before the loop over all files (so duplicates across files are seen)", fmt.Sprintf("MakeMap in block %d, in a loop: %v", b.Index, inLoop))
				}
			}
		}
	}
}

// constUnion: the atom is a local variable whose possible values are only constants ("false|true", "-1|-2|0"): the
// is-external flag and the state word of a range-over-func body.
func constUnion(id string) bool {
	for _, part := range strings.Split(id, "|") {
		if part == "true" || part == "false" {
			continue
		}
		if _, err := fmt.Sscanf(part, "%d", new(int)); err != nil {
			return false
		}
	}
	return true
}

// ruleParamsNamedFirst: names are handed out first-come; the injector's parameters (the context among them) are named
// before any provider result, so a parameter keeps its plain name (`ctx`) and results take the suffixes.
func ruleParamsNamedFirst(c *Ctx, rule string) {
	L := c.L
	if fn := genFn(c, rule, "generateInjectorDecl"); fn != nil {
		var nameCalls []*ssa.Call
		var stmts *ssa.Call
		gs := resolveRole(c, genPkg, "generateStmts")
		for _, cs := range callsIn(fn) {
			if cs.value() == nil || cs.common.StaticCallee() == nil {
				continue
			}
			if cs.common.StaticCallee() == gs {
				stmts = cs.value()
			}
			if cs.common.StaticCallee().Name() == "Name" && strings.HasSuffix(cs.callee, "InjectorParam).Name") {
				s := newSym(L, map[string]bool{})
				s.maxD = 0
				if strings.Contains(strings.Join(s.eval(cs.arg(0)), "|"), "Injector.Args(") {
					nameCalls = append(nameCalls, cs.value())
				}
			}
		}
		// the names may be allocated inside a private helper (the signature builder): its call is then the naming step
		if len(nameCalls) == 0 {
			for _, cs := range callsIn(fn) {
				h := cs.common.StaticCallee()
				if h == nil || cs.value() == nil || h == gs {
					continue
				}
				inFam := false
				for _, f2 := range family(L, fn) {
					if f2 == h {
						inFam = true
					}
				}
				if !inFam {
					continue
				}
				for _, cs2 := range callsIn(h) {
					if cs2.common.StaticCallee() != nil && strings.HasSuffix(cs2.callee, "InjectorParam).Name") {
						s := newSym(L, map[string]bool{})
						s.maxD = 0
						if strings.Contains(strings.Join(s.eval(cs2.arg(0)), "|"), "Injector.Args(") {
							nameCalls = append(nameCalls, cs.value())
						}
					}
				}
			}
		}
		ok := stmts != nil && len(nameCalls) > 0
		for _, nc := range nameCalls {
			if stmts == nil || !strictlyBefore(nc, stmts) {
				ok = false
			}
		}
		c.check(ok, rule, "generateInjectorDecl:parameters-named-before-body", L.pos(fn.Pos()), "the parameters get their names before the body's variables are named (so the context parameter is `ctx` and a provided context.Context becomes ctx0, not the other way round)", fmt.Sprintf("%d parameter-name calls precede generateStmts", len(nameCalls)))
	}
	if fn := genFn(c, rule, "generateAsyncInitialization"); fn != nil {
		var nameCall, specs *ssa.Call
		gv := resolveRole(c, genPkg, "generateVariableSpecs")
		for _, cs := range callsIn(fn) {
			if cs.value() == nil || cs.common.StaticCallee() == nil {
				continue
			}
			if cs.common.StaticCallee() == gv {
				specs = cs.value()
			}
			if strings.HasSuffix(cs.callee, "InjectorParam).Name") {
				nameCall = cs.value()
			}
		}
		c.check(nameCall != nil && specs != nil && strictlyBefore(nameCall, specs), rule, "generateAsyncInitialization:context-named-before-variables", L.pos(fn.Pos()), "the context parameter's name is fixed before the shared variables are named", "call order")
	}
}

// ruleFieldInclusionFunction: the documented inclusion rule as a truth function. When the atoms of the decision can be told
// apart - "*" selected, listed by name, the field is exported, the struct is another package's - a field is collected
// exactly when (star or listed) and not (external and unexported): an unexported field of the injector's own package is
// part of what wire.Struct fills, under "*" as under an explicit list.
func ruleFieldInclusionFunction(c *Ctx, rule string, fn *ssa.Function, target ssa.Instruction) {
	L := c.L
	rows, ids, err := truthTable(L, fn.Blocks[0], target, nil)
	if err != "" {
		return // reported by the field-inclusion rule
	}
	class := map[string]string{}
	count := map[string]int{}
	for _, id := range ids {
		k := "other"
		switch {
		case strings.Contains(id, "Exported("):
			k = "exported"
		case strings.Contains(id, "\"*\""):
			k = "star"
		case strings.Contains(id, "ontains(") || strings.Contains(id, "slices.Index("):
			k = "listed"
		case strings.Contains(id, "go/types.Var") || strings.Contains(id, "Struct).Tag(") || strings.Contains(id, "Struct).Field("):
			k = "field"
		}
		class[id] = k
		count[k]++
	}
	if os.Getenv("KVERIF_DEBUG") != "" {
		fmt.Fprintf(os.Stderr, "field-inclusion atoms: %v %v\n", ids, class)
	}
	// loop plumbing with more than two states (the state word of a range-over-func loop): the body runs in one state only
	for _, id := range ids {
		if class[id] != "other" {
			continue
		}
		isBool := true
		live := map[tval]bool{}
		for _, r := range rows {
			if !r.atoms[id].isBool {
				isBool = false
			}
			if r.reached {
				live[r.atoms[id]] = true
			}
		}
		if isBool || len(live) != 1 {
			continue
		}
		var keep []tableRow
		for _, r := range rows {
			if live[r.atoms[id]] {
				keep = append(keep, r)
			}
		}
		rows = keep
		class[id] = "plumbing"
	}
	// the remaining atoms: loop plumbing (range progress) and the struct-level "another package's struct" fact; the latter is
	// the one atom of them the outcome depends on at all
	var ext []string
	for _, id := range ids {
		if class[id] != "other" {
			continue
		}
		dep := false
		for _, r := range rows {
			for _, q := range rows {
				if r.errExit || q.errExit || r.stuck || q.stuck || r.reached == q.reached {
					continue
				}
				same := true
				for _, o := range ids {
					if o != id && r.atoms[o] != q.atoms[o] {
						same = false
						break
					}
				}
				if same {
					dep = true
				}
			}
		}
		if dep {
			ext = append(ext, id)
		}
	}
	// selection by name is membership in the whole list: with no membership test among the atoms, an element of the list
	// taken at a position (`requested[0] != field.Name()`) decides - names written in another order than the fields are
	// declared then drop fields
	if count["listed"] == 0 {
		for _, id := range ids {
			if class[id] == "other" && strings.Contains(id, "index(field:internal/migrate.WireStruct.Fields(") {
				c.fail(rule, "transformStruct:field-selected-by-membership", L.pos(target.Pos()), "a listed field is selected by membership in the list of names, not by comparing it with the name at one position of the list", id)
				return
			}
		}
	}
	if count["exported"] != 1 || count["star"] != 1 || count["listed"] != 1 || count["field"] != 0 || len(ext) != 1 {
		c.ok(rule, "field inclusion: the atoms of the decision are not the four documented ones; only the dependence rule applies", fmt.Sprintf("%v, struct-level: %v", class, ext))
		return
	}
	var star, listed, exported string
	for id, k := range class {
		switch k {
		case "star":
			star = id
		case "listed":
			listed = id
		case "exported":
			exported = id
		}
	}
	// the polarity of the struct-level atom is not visible in its name (a flag set on some path): take the polarity under
	// which the exported-field rows agree, then compare every row
	bad := ""
	okPolarity := false
	for _, extTrue := range []bool{true, false} {
		bad = ""
		for _, r := range rows {
			if r.errExit || r.stuck {
				continue
			}
			external := r.atoms[ext[0]].b == extTrue
			isStar := r.atoms[star].b != strings.HasPrefix(star, "bin!=(") // the atom may be the negated comparison
			want := (isStar || r.atoms[listed].b) && !(external && !r.atoms[exported].b)
			if want != r.reached {
				bad = fmt.Sprintf("star=%v listed=%v exported=%v other-package=%v: collected=%v", isStar, r.atoms[listed].b, r.atoms[exported].b, external, r.reached)
				break
			}
		}
		if bad == "" {
			okPolarity = true
			break
		}
	}
	c.check(okPolarity, rule, "transformStruct:field-inclusion-function", L.pos(target.Pos()),
		"a field is collected exactly when it is selected (\"*\" or listed) and is not an unexported field of another package's struct", bad)
}

// importRegisterHelper: h(recv, path, name) records imports[path] = name and usedNames[name] = path and returns name. Returns
// the argument indices of path and name.
func importRegisterHelper(h *ssa.Function) (pathIdx, nameIdx int, ok bool) {
	if h == nil || len(h.Blocks) == 0 {
		return 0, 0, false
	}
	idx := func(v ssa.Value) int {
		for i, p := range h.Params {
			if ssa.Value(p) == v {
				return i
			}
		}
		return -1
	}
	pathIdx, nameIdx = -1, -1
	recUsed := false
	for _, b := range h.Blocks {
		for _, in := range b.Instrs {
			mu, isMU := in.(*ssa.MapUpdate)
			if !isMU {
				continue
			}
			u, isU := mu.Map.(*ssa.UnOp)
			if !isU {
				continue
			}
			fa, isF := u.X.(*ssa.FieldAddr)
			if !isF {
				continue
			}
			switch fieldKey(fa) {
			case "internal/migrate.TypeConverter.imports":
				pathIdx, nameIdx = idx(mu.Key), idx(mu.Value)
			case "internal/migrate.TypeConverter.usedNames":
				recUsed = idx(mu.Key) >= 0 && idx(mu.Value) >= 0
			}
		}
	}
	if pathIdx < 0 || nameIdx < 0 || !recUsed {
		return 0, 0, false
	}
	for _, r := range returnsOf(h) {
		if len(r.Results) != 1 || idx(r.Results[0]) != nameIdx {
			return 0, 0, false
		}
	}
	return pathIdx, nameIdx, true
}
